import WM.Lemmas.NormalizeRange
/-! The leaf rewrites (`Wildcard.normalize`, `Phrase.normalize`, `TermRange.normalize`) preserve `sat`. -/
namespace WM.Normalize
open WM.Sat

/-! ### Globs -/

theorem parseGlob_cons_plain (br : Text → Option ((Nat → Bool) × Nat)) (c : Nat) (rest : Text)
    (h1 : c ≠ starC) (h2 : c ≠ qmarkC) (h3 : c ≠ lbrC) :
    parseGlob br (c :: rest) = .lit c :: parseGlob br rest := by
  rw [parseGlob]
  simp [h1, h2, h3]

theorem parseGlob_plain (br : Text → Option ((Nat → Bool) × Nat)) (t : Text)
    (h1 : t.contains starC = false) (h2 : t.contains qmarkC = false) (h3 : t.contains lbrC = false) :
    parseGlob br t = t.map .lit := by
  induction t with
  | nil => rw [parseGlob]; rfl
  | cons c rest ih =>
    simp only [List.contains_cons, Bool.or_eq_false_iff, beq_eq_false_iff_ne, ne_eq] at h1 h2 h3
    rw [parseGlob_cons_plain br c rest (Ne.symm h1.1) (Ne.symm h2.1) (Ne.symm h3.1),
      ih h1.2 h2.2 h3.2]
    rfl

theorem parseGlob_plain_star (br : Text → Option ((Nat → Bool) × Nat)) (p : Text)
    (h1 : p.contains starC = false) (h2 : p.contains qmarkC = false) (h3 : p.contains lbrC = false) :
    parseGlob br (p ++ [starC]) = p.map .lit ++ [.star] := by
  induction p with
  | nil =>
    simp only [List.nil_append, List.map_nil]
    rw [parseGlob]
    simp only [↓reduceIte]
    rw [parseGlob]
  | cons c rest ih =>
    simp only [List.contains_cons, Bool.or_eq_false_iff, beq_eq_false_iff_ne, ne_eq] at h1 h2 h3
    simp only [List.cons_append, List.map_cons]
    rw [parseGlob_cons_plain br c _ (Ne.symm h1.1) (Ne.symm h2.1) (Ne.symm h3.1), ih h1.2 h2.2 h3.2]

theorem gmatch_lits (p x : Text) : gmatch (p.map .lit) x = (x == p) := by
  induction p generalizing x with
  | nil => cases x <;> simp [gmatch]
  | cons c rest ih =>
    cases x with
    | nil => simp [gmatch]
    | cons y ys => simp [gmatch, ih ys]

theorem gmatch_star (x : Text) : gmatch [.star] x = true := by
  simp only [gmatch, List.any_eq_true, List.mem_range]
  exact ⟨x.length, by omega, by simp⟩

theorem gmatch_lits_star (p x : Text) : gmatch (p.map .lit ++ [.star]) x = p.isPrefixOf x := by
  induction p generalizing x with
  | nil => simp [gmatch_star]
  | cons c rest ih =>
    cases x with
    | nil => simp [gmatch]
    | cons y ys =>
      simp only [List.map_cons, List.cons_append, gmatch, ih ys, List.isPrefixOf_cons_cons]
      congr 1
      rw [Bool.eq_iff_iff]
      simp only [beq_iff_eq]
      exact eq_comm

/-! ### `Wildcard.normalize` -/

theorem split_last_star (t : Text) (hl : t.getLast? = some starC) (hi : t.idxOf starC = t.length - 1) :
    ∃ p, t = p ++ [starC] ∧ t.dropLast = p ∧ p.contains starC = false := by
  obtain ⟨p, hp⟩ := List.getLast?_eq_some_iff.mp hl
  refine ⟨p, hp, by rw [hp]; simp, ?_⟩
  rw [Bool.eq_false_iff]
  intro hc
  have hmem : starC ∈ p := by simpa using hc
  have hlt : t.idxOf starC < p.length := by
    rw [hp, List.idxOf_append, if_pos hmem]
    exact List.idxOf_lt_length_of_mem hmem
  rw [hi, hp] at hlt
  simp at hlt

theorem wildNormalize_sat (env : Env) (f : Field) (t : Text) (b : Rat) (c : Bool) (d : Doc)
    (hp : d.Plain) : sat env (wildNormalize f t b c) d = sat env (.wild f t b c) d := by
  unfold wildNormalize
  split
  · rename_i h
    have : t = [starC] := by simpa using h
    simp [sat, this]
  · rename_i hstar
    have hstar' : t ≠ [starC] := by simpa using hstar
    split
    · rfl
    · rename_i hbr
      have hbr' : t.contains lbrC = false := by simpa using hbr
      split
      · rename_i hpl
        simp only [Bool.and_eq_true, Bool.not_eq_true'] at hpl
        simp only [sat, hstar', ↓reduceIte, parseGlob_plain env.bracket t hpl.1 hpl.2 hbr', gmatch_lits]
        by_cases ht : t = []
        · subst ht
          have hno : ∀ x ∈ d.toks f, x ≠ [] := fun x hx => (hp f x hx).1
          rw [Bool.eq_iff_iff]
          simp only [List.contains_eq_mem, List.any_eq_true, Bool.and_eq_true, bne_iff_ne, ne_eq,
            beq_iff_eq, decide_eq_true_eq]
          constructor
          · intro hm; exact absurd rfl (hno [] hm)
          · rintro ⟨x, _, hx1, hx2⟩; exact absurd hx2 hx1
        · rw [Bool.eq_iff_iff]
          simp only [List.contains_eq_mem, List.any_eq_true, Bool.and_eq_true, bne_iff_ne, ne_eq,
            beq_iff_eq, decide_eq_true_eq]
          constructor
          · intro hm; exact ⟨t, hm, ht, rfl⟩
          · rintro ⟨x, hx, _, rfl⟩; exact hx
      · split
        · rename_i hpre
          simp only [Bool.and_eq_true, Bool.not_eq_true', beq_iff_eq] at hpre
          obtain ⟨⟨hq, hl⟩, hi⟩ := hpre
          obtain ⟨p, hsplit, hdrop, hnostar⟩ := split_last_star t hl hi
          have hq' : p.contains qmarkC = false := by
            rw [Bool.eq_false_iff]; intro hc
            have : qmarkC ∈ t := by rw [hsplit]; exact List.mem_append_left _ (by simpa using hc)
            simp [this] at hq
          have hb' : p.contains lbrC = false := by
            rw [Bool.eq_false_iff]; intro hc
            have : lbrC ∈ t := by rw [hsplit]; exact List.mem_append_left _ (by simpa using hc)
            simp [this] at hbr'
          have hdne : p ≠ [] := by
            intro e; rw [e] at hsplit; exact hstar' (by simpa using hsplit)
          have hg : parseGlob env.bracket t = p.map .lit ++ [.star] := by
            rw [hsplit]
            exact parseGlob_plain_star env.bracket _ hnostar hq' hb'
          rw [hdrop]
          simp only [sat, hstar', hdne, ↓reduceIte, hg, gmatch_lits_star]
        · rfl

/-! ### `Phrase.normalize` -/

theorem phraseNormalize_sat (env : Env) (f : Field) (ws : List Text) (slop : Nat) (b : Rat) (d : Doc) :
    sat env (phraseNormalize f ws slop b) d = sat env (.phrase f ws slop b) d := by
  unfold phraseNormalize
  split
  · simp [sat, phraseMatch]
  · rename_i w
    simp only [sat, phraseMatch, chainFrom, Bool.and_true]
    rw [Bool.eq_iff_iff]
    simp only [List.contains_eq_mem, decide_eq_true_eq, List.any_eq_true, List.mem_range, beq_iff_eq]
    constructor
    · intro hm
      obtain ⟨i, hi, rfl⟩ := List.mem_iff_getElem.mp hm
      exact ⟨i, hi, by simp [hi]⟩
    · rintro ⟨i, hi, he⟩
      exact List.mem_of_getElem? he
  · rfl

/-! ### `TermRange.normalize` -/

theorem pt_lt_iff (x y : Text) : pt x ≤ pt y ↔ x ≤ y := by
  show Cmp.le (pt x) (pt y) = true ↔ x ≤ y
  simp only [Cmp.le, pt, Bnd.lt, Int.le_refl, decide_true, Bool.and_true, Bool.or_eq_true,
    decide_eq_true_eq, beq_iff_eq, Bnd.val.injEq]
  constructor
  · rintro (h | h)
    · exact List.le_of_lt h
    · rw [h]; exact List.le_refl _
  · intro h
    rcases List.le_iff_lt_or_eq.mp h with h | h
    · exact Or.inl h
    · exact Or.inr h

theorem rngNormalize_sat (env : Env) (r : Rng) (d : Doc) (hp : d.Plain) :
    sat env r.normalize d = sat env r.toQ d := by
  unfold Rng.normalize Rng.toQ
  split
  · -- the whole field
    rename_i h
    simp only [Bool.and_eq_true, Bool.or_eq_true, beq_iff_eq] at h
    obtain ⟨hlo, hhi⟩ := h
    simp only [sat, hasField]
    rw [Bool.eq_iff_iff]
    simp only [Bool.not_eq_true', List.isEmpty_eq_false_iff, ne_eq, List.any_eq_true, Bool.and_eq_true,
      bne_iff_ne, inRange_iff]
    constructor
    · intro hne
      cases htk : d.toks r.f with
      | nil => exact absurd htk hne
      | cons x xs =>
        have hx := hp r.f x (by simp [htk])
        refine ⟨x, by simp, hx.1, ?_, ?_⟩
        · rcases hlo with hlo | hlo <;> rw [hlo]
          · show Cmp.le _ _ = true; simp [cmpStart, pt, Cmp.le, Bnd.lt]
          · cases r.lox
            · show Cmp.le _ _ = true
              simp only [cmpStart, pt, Cmp.le, Bnd.lt, Bool.false_eq_true, ↓reduceIte, Int.le_refl,
                decide_true, Bool.and_true, Bool.or_eq_true, decide_eq_true_eq, beq_iff_eq, Bnd.val.injEq]
              cases x with
              | nil => exact absurd rfl hx.1
              | cons y ys => left; exact List.nil_lt_cons y ys
            · show Cmp.le _ _ = true
              simp only [cmpStart, pt, Cmp.le, Bnd.lt, ↓reduceIte, Bool.or_eq_true, decide_eq_true_eq,
                Bool.and_eq_true, beq_iff_eq, Bnd.val.injEq]
              cases x with
              | nil => exact absurd rfl hx.1
              | cons y ys => left; exact List.nil_lt_cons y ys
        · rcases hhi with hhi | hhi <;> rw [hhi]
          · show Cmp.le _ _ = true; simp [cmpEnd, pt, Cmp.le, Bnd.lt]
          · show Cmp.le _ _ = true
            simp only [cmpEnd, pt, Cmp.le, Bnd.lt, Bool.or_eq_true, decide_eq_true_eq]
            left; exact hx.2
    · rintro ⟨x, hx, _⟩ e
      rw [e] at hx; simp at hx
  · split
    · -- start == end
      rename_i h1 h2
      have h2' : r.lo = r.hi := by simpa using h2
      split
      · -- exclusive on one side: empty
        rename_i hex
        simp only [sat]
        symm
        rw [Bool.eq_false_iff]
        simp only [ne_eq, List.any_eq_true, Bool.and_eq_true, bne_iff_ne, inRange_iff, not_exists, not_and]
        intro x _ _ hs he
        cases hlo : r.lo with
        | none =>
          rw [hlo] at h2'
          simp [hlo, ← h2'] at h1
        | some t =>
          rw [hlo] at h2'
          rw [hlo] at hs
          rw [← h2'] at he
          have hs' : Cmp.le (cmpStart (some t) r.lox) (pt x) = true := hs
          have he' : Cmp.le (pt x) (cmpEnd (some t) r.hix) = true := he
          simp only [cmpStart, cmpEnd, pt, Cmp.le, Bnd.lt, Bool.or_eq_true, decide_eq_true_eq,
            Bool.and_eq_true, beq_iff_eq, Bnd.val.injEq] at hs' he'
          simp only [Bool.or_eq_true] at hex
          rcases hex with hex | hex <;> simp only [hex, ↓reduceIte] at hs' he' <;> grind
      · rename_i hex
        simp only [Bool.or_eq_true, not_or, Bool.not_eq_true] at hex
        cases hlo : r.lo with
        | none =>
          rw [hlo] at h2'
          simp [hlo, ← h2'] at h1
        | some t =>
          rw [hlo] at h2'
          simp only [sat, ← h2', hex.1, hex.2]
          rw [Bool.eq_iff_iff]
          simp only [List.contains_eq_mem, decide_eq_true_eq, List.any_eq_true, Bool.and_eq_true,
            bne_iff_ne, ne_eq, inRange_iff]
          constructor
          · intro hm
            refine ⟨t, hm, (hp r.f t hm).1, ?_, ?_⟩
            · show Cmp.le _ _ = true; simp [cmpStart, pt, Cmp.le]
            · show Cmp.le _ _ = true; simp [cmpEnd, pt, Cmp.le]
          · rintro ⟨x, hx, _, hs, he⟩
            have hs' : Cmp.le (cmpStart (some t) false) (pt x) = true := hs
            have he' : Cmp.le (pt x) (cmpEnd (some t) false) = true := he
            simp only [cmpStart, cmpEnd, pt, Cmp.le, Bnd.lt, Bool.false_eq_true, ↓reduceIte,
              Int.le_refl, decide_true, Bool.and_true, Bool.or_eq_true, decide_eq_true_eq, beq_iff_eq,
              Bnd.val.injEq] at hs' he'
            have : x = t := by grind
            rw [← this]; exact hx
    · simp [sat]

end WM.Normalize
