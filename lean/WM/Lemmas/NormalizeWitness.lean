import WM.Lemmas.NormalizeEstimate
/-! A concrete index (two documents), its reader, and the facts about them that the non-vacuity
    examples and defect witnesses of `WM/Props/C15.lean` use. -/
namespace WM.C15
open WM.Normalize WM.Sat WM.Clean

/-! ### Witness environment for the examples: two documents, field 0 = `"a b"` resp. `"b p"` -/

def doc (id : Nat) (ts : List Text) : Doc := { id := id, toks := fun f => if f = 0 then ts else [] }

def env0 : Env where
  multi := fun _ _ _ _ _ => false
  bracket := fun _ => none
  seqPos := fun _ _ _ _ _ => true
  opq := fun c d => c.length % 2 == d.id % 2
  index := [doc 0 [[97], [98]], doc 1 [[98], [112]]]

theorem env0_plain : ∀ d ∈ env0.index, d.Plain := by
  intro d hd f x hx
  simp only [env0, List.mem_cons, List.not_mem_nil, or_false] at hd
  rcases hd with rfl | rfl <;>
    · simp only [doc] at hx
      split at hx
      · simp only [List.mem_cons, List.not_mem_nil, or_false] at hx
        rcases hx with rfl | rfl <;> exact ⟨by decide, by decide⟩
      · simp at hx

/-- The reader of the witness index. -/
def rd0 : Reader where
  fields := [0]
  lexicon := fun f => if f = 0 then [[97], [98], [112]] else []
  docs := env0.index

theorem rd0_ok : ReaderOk env0 rd0 := by
  intro d hd f x hx
  simp only [env0, List.mem_cons, List.not_mem_nil, or_false] at hd
  rcases hd with rfl | rfl <;>
    · simp only [doc] at hx
      split at hx
      · rename_i hf
        subst hf
        simp only [List.mem_cons, List.not_mem_nil, or_false] at hx
        rcases hx with rfl | rfl <;> exact ⟨by decide, by decide⟩
      · simp at hx

end WM.C15
