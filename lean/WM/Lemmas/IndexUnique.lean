import WM.Lemmas.IndexHistory
/-! One live document per key under the key discipline. -/
namespace WM.Index
open WM.Dict

/-- at most one document carries key term `(f, t)`, for every key term -/
def KeyInv (K : Nat → Nat → Bool) (docs : List DocRec) : Prop :=
  ∀ f t, K f t = true → (docs.filter (fun d => d.hasTerm f t)).length ≤ 1

/-- the unique terms `update_document` looks up for `d` are key terms, and `d` carries no other key term -/
def DocKeyWF (K : Nat → Nat → Bool) (sc : Schema) (d : DocRec) : Prop :=
  (∀ ft ∈ uniqTerms sc d, K ft.1 ft.2 = true) ∧
  (∀ f t, K f t = true → d.hasTerm f t = true → (f, t) ∈ uniqTerms sc d)

/-- The key discipline on the calls of one session (`W` = key terms written so far by this
    writer): keyed documents are written with `update_document`, each key at most once per writer;
    `add_document` is used for documents without key terms. -/
def Disc (K : Nat → Nat → Bool) (sc : Schema) : List (Nat × Nat) → List SOp → Prop
  | _, [] => True
  | W, .add d :: r => (∀ f t, K f t = true → d.hasTerm f t = false) ∧ Disc K sc W r
  | W, .update d :: r => DocKeyWF K sc d ∧ (∀ ft ∈ uniqTerms sc d, ft ∉ W) ∧ Disc K sc (W ++ uniqTerms sc d) r
  | W, .deleteWhere _ :: r => Disc K sc W r
  | W, .erase _ :: r => Disc K sc W r
  | W, .skip :: r => Disc K sc W r
  | _, _ :: _ => False

structure KJ (K : Nat → Nat → Bool) (sc : Schema) (ss : Sess) (W : List (Nat × Nat)) : Prop where
  schema : ss.schema = sc
  inv : KeyInv K (ss.committed ++ ss.fresh)
  written : ∀ d ∈ ss.fresh, ∀ f t, K f t = true → d.hasTerm f t = true → (f, t) ∈ W

theorem filter_length_append {α} (p : α → Bool) (a b : List α) :
    ((a ++ b).filter p).length = (a.filter p).length + (b.filter p).length := by
  simp [List.filter_append]

theorem filter_length_le_of_sublist {α} (p : α → Bool) {a b : List α} (h : a.Sublist b) :
    (a.filter p).length ≤ (b.filter p).length := (h.filter p).length_le

theorem filter_length_zero {α} (p : α → Bool) (l : List α) (h : ∀ x ∈ l, p x = false) : (l.filter p).length = 0 := by
  rw [List.length_eq_zero_iff, List.filter_eq_nil_iff]
  intro x hx; simp [h x hx]

theorem KeyInv.perm {K : Nat → Nat → Bool} {a b : List DocRec} (h : a.Perm b) (hi : KeyInv K a) : KeyInv K b := by
  intro f t hk
  rw [← (h.filter _).length_eq]; exact hi f t hk

theorem KeyInv.sublist {K : Nat → Nat → Bool} {a b : List DocRec} (h : a.Sublist b) (hi : KeyInv K b) : KeyInv K a := by
  intro f t hk
  exact Nat.le_trans (filter_length_le_of_sublist _ h) (hi f t hk)

/-- one call under the discipline: an update is unambiguous, and the invariant is kept -/
theorem disc_step (K : Nat → Nat → Bool) (sc : Schema) (ss : Sess) (W : List (Nat × Nat)) (op : SOp) (r : List SOp)
    (hj : KJ K sc ss W) (hd : Disc K sc W (op :: r)) :
    (∀ d, op = .update d → Unambiguous ss d) ∧ ∃ W', KJ K sc (ss.step op) W' ∧ Disc K sc W' r := by
  cases op with
  | add d =>
    refine ⟨(by intro d' h; cases h), W, ?_, hd.2⟩
    refine ⟨hj.schema, ?_, ?_⟩
    · intro f t hk
      simp only [Sess.step, Sess.add, ← List.append_assoc]
      rw [filter_length_append, filter_length_zero _ [d] (by intro x hx; simp at hx; subst hx; exact hd.1 f t hk)]
      exact hj.inv f t hk
    · intro x hx f t hk ht
      simp only [Sess.step, Sess.add, List.mem_append, List.mem_singleton] at hx
      rcases hx with hx | rfl
      · exact hj.written x hx f t hk ht
      · rw [hd.1 f t hk] at ht; cases ht
  | update d =>
    obtain ⟨hwf, hnew, hrest⟩ := hd
    have hun : Unambiguous ss d := by
      intro ft hft
      rw [hj.schema] at hft
      have := hj.inv ft.1 ft.2 (hwf.1 ft hft)
      rw [filter_length_append] at this
      omega
    refine ⟨(by intro d' h; cases h; exact hun), W ++ uniqTerms sc d, ?_, hrest⟩
    have hsch : (ss.step (.update d)).schema = sc := hj.schema
    refine ⟨hsch, ?_, ?_⟩
    · intro f t hk
      simp only [Sess.step, Sess.update, Sess.add, Sess.deleteWhere, hj.schema, ← List.append_assoc]
      rw [filter_length_append]
      by_cases hmem : (f, t) ∈ uniqTerms sc d
      · -- nobody else carries this key any more
        have h1 : ((ss.committed.filter (fun c => !sharesUnique (uniqTerms sc d) c) ++ ss.fresh).filter
            (fun c => c.hasTerm f t)).length = 0 := by
          apply filter_length_zero
          intro x hx
          rcases List.mem_append.mp hx with hx | hx
          · have hx2 := (List.mem_filter.mp hx).2
            cases hxt : x.hasTerm f t with
            | false => rfl
            | true =>
              have : sharesUnique (uniqTerms sc d) x = true := by
                simp only [sharesUnique, List.any_eq_true]
                exact ⟨(f, t), hmem, hxt⟩
              rw [this] at hx2; cases hx2
          · cases hxt : x.hasTerm f t with
            | false => rfl
            | true => exact absurd (hj.written x hx f t hk hxt) (hnew (f, t) hmem)
        rw [h1]
        rw [Nat.zero_add]
        exact List.length_filter_le _ [d]
      · have h2 : ([d].filter (fun c => c.hasTerm f t)).length = 0 := by
          apply filter_length_zero
          intro x hx
          simp only [List.mem_singleton] at hx; subst hx
          cases hxt : x.hasTerm f t with
          | false => rfl
          | true => exact absurd (hwf.2 f t hk hxt) hmem
        rw [h2, Nat.add_zero]
        refine Nat.le_trans (filter_length_le_of_sublist _ ?_) (hj.inv f t hk)
        exact List.Sublist.append (List.filter_sublist) (List.Sublist.refl _)
    · intro x hx f t hk ht
      simp only [Sess.step, Sess.update, Sess.add, Sess.deleteWhere, List.mem_append, List.mem_singleton] at hx
      rcases hx with hx | rfl
      · exact List.mem_append_left _ (hj.written x hx f t hk ht)
      · exact List.mem_append_right _ (hwf.2 f t hk ht)
  | deleteWhere p =>
    refine ⟨(by intro d' h; cases h), W, ⟨hj.schema, ?_, hj.written⟩, hd⟩
    exact hj.inv.sublist (List.Sublist.append (List.filter_sublist) (List.Sublist.refl _))
  | erase d =>
    refine ⟨(by intro d' h; cases h), W, ⟨hj.schema, ?_, hj.written⟩, hd⟩
    exact hj.inv.sublist (List.Sublist.append (List.erase_sublist) (List.Sublist.refl _))
  | skip => exact ⟨(by intro d' h; cases h), W, hj, hd⟩
  | restore d => exact absurd hd (by simp [Disc])
  | addField f u => exact absurd hd (by simp [Disc])
  | removeField f => exact absurd hd (by simp [Disc])

/-- the calls the key discipline is about -/
def Op.plain : Op → Bool
  | .add _ | .update _ | .delDoc _ | .delBy _ => true
  | _ => false

theorem disc_run (K : Nat → Nat → Bool) (sc : Schema) (ops : List Op) (w : Writer) (ss : Sess) (W : List (Nat × Nat))
    (h : SRel w ss) (hwf : w.WF) (hj : KJ K sc ss W) (hp : ∀ op ∈ ops, op.plain = true)
    (hfit : ∀ d, Op.update d ∈ ops → d.fits sc = true) (hd : Disc K sc W (w.specOps ops)) :
    RunOK w ss ops ∧ ∃ W', KJ K sc (ss.run (w.specOps ops)) W' := by
  induction ops generalizing w ss W with
  | nil => exact ⟨trivial, W, hj⟩
  | cons o r ih =>
    simp only [Writer.specOps] at hd ⊢
    obtain ⟨hun, W', hj', hd'⟩ := disc_step K sc ss W (w.specOp o) _ hj hd
    have hok : OpOK w ss o := by
      cases o with
      | update d =>
        have hf : d.fits w.schema = true := by rw [← h.schema, hj.schema]; exact hfit d (by simp)
        exact hun d (by simp [Writer.specOp, hf])
      | add d => trivial
      | delDoc n => trivial
      | delBy q => trivial
      | undelDoc n => have := hp (.undelDoc n) (by simp); simp [Op.plain] at this
      | addField f u => have := hp (.addField f u) (by simp); simp [Op.plain] at this
      | removeField f => have := hp (.removeField f) (by simp); simp [Op.plain] at this
    obtain ⟨h1, wf1⟩ := step_sim w ss h hwf o hok
    obtain ⟨hr, W'', hj''⟩ := ih (w.step o).1 (ss.step (w.specOp o)) W' h1 wf1 hj'
      (fun op hop => hp op (by simp [hop])) (fun d hd => hfit d (by simp [hd])) hd'
    refine ⟨⟨hok, hr⟩, W'', ?_⟩
    simpa [Sess.run] using hj''

/-- the key discipline along a whole history -/
def HistDisc (K : Nat → Nat → Bool) : Toc → State → List (List Op × Ending × SEnd) → Prop
  | _, _, [] => True
  | t, sp, (ops, e, se) :: r =>
    EndRel e se ∧ (∀ op ∈ ops, op.plain = true) ∧ (∀ d, Op.update d ∈ ops → d.fits sp.schema = true) ∧
      Disc K sp.schema [] (t.writer.specOps ops) ∧
      ∀ t', t.session ops e = .ok t' → HistDisc K t' (sp.session (t.writer.specOps ops) se) r

theorem history_unique (K : Nat → Nat → Bool) (hist : List (List Op × Ending × SEnd)) (t : Toc) (sp : State)
    (hwf : t.WF) (h : Rel t sp) (hinv : KeyInv K sp.docs) (hd : HistDisc K t sp hist) :
    HistOK t sp hist ∧ ∃ t' sp', lockstep t sp hist = .ok (t', sp') ∧ t'.WF ∧ Rel t' sp' ∧ KeyInv K sp'.docs ∧
      sp'.schema = sp.schema := by
  induction hist generalizing t sp with
  | nil => exact ⟨trivial, t, sp, rfl, hwf, h, hinv, rfl⟩
  | cons x r ih =>
    obtain ⟨ops, e, se⟩ := x
    obtain ⟨he, hp, hfit, hdisc, hrest⟩ := hd
    have hj0 : KJ K sp.schema sp.open_ [] := ⟨rfl, by simpa [State.open_] using hinv, by simp [State.open_]⟩
    obtain ⟨hrun, W', hj⟩ := disc_run K sp.schema ops t.writer sp.open_ [] (open_srel t sp h) (Toc.writer_wf t hwf) hj0
      hp hfit hdisc
    obtain ⟨t1, h1, wf1, rel1⟩ := session_sim t sp hwf h ops e se he hrun
    have hinv1 : KeyInv K (sp.session (t.writer.specOps ops) se).docs := by
      cases se with
      | commit => exact hj.inv
      | commitClear => exact hj.inv.sublist (List.sublist_append_right _ _)
      | cancel => exact hinv
    have hsch1 : (sp.session (t.writer.specOps ops) se).schema = sp.schema := by
      cases se with
      | commit => exact hj.schema
      | commitClear => exact hj.schema
      | cancel => rfl
    obtain ⟨hok, t', sp', h2, wf', rel', inv', hs'⟩ := ih t1 _ wf1 rel1 hinv1 (hrest t1 h1)
    refine ⟨⟨he, hrun, ?_⟩, t', sp', by simp only [lockstep, h1, Except.bind]; exact h2, wf', rel', inv',
      hs'.trans hsch1⟩
    intro t1' h1'
    rw [h1] at h1'; cases h1'
    exact hok

end WM.Index
