import WM.Lemmas.NormalizeBasic
/-! Order theory of the `RangeMixin` comparables and the meaning of `overlaps`/`merge`/
    `TermRange.normalize`. -/
namespace WM.Normalize
open WM.Sat

/-! ### `Cmp` is a linear order -/

theorem Bnd.lt_irrefl (a : Bnd) : Bnd.lt a a = false := by
  cases a <;> simp [Bnd.lt]

theorem Bnd.lt_trans {a b c : Bnd} (h1 : Bnd.lt a b = true) (h2 : Bnd.lt b c = true) :
    Bnd.lt a c = true := by
  cases a <;> cases b <;> cases c <;> simp_all [Bnd.lt] <;> grind

theorem Bnd.lt_tri (a b : Bnd) : Bnd.lt a b = true ∨ a = b ∨ Bnd.lt b a = true := by
  cases a <;> cases b <;> simp_all [Bnd.lt] <;> grind

theorem Bnd.lt_asymm {a b : Bnd} (h1 : Bnd.lt a b = true) : Bnd.lt b a = false := by
  cases a <;> cases b <;> simp_all [Bnd.lt] <;> grind

instance : LE Cmp := ⟨fun a b => Cmp.le a b = true⟩
instance : LT Cmp := ⟨fun a b => Cmp.le b a = false⟩
instance : DecidableLE Cmp := fun a b => inferInstanceAs (Decidable (Cmp.le a b = true))
instance : DecidableLT Cmp := fun a b => inferInstanceAs (Decidable (Cmp.le b a = false))

theorem Cmp.le_iff (a b : Cmp) : Cmp.le a b = true ↔ a ≤ b := Iff.rfl
theorem Cmp.le_false_iff (a b : Cmp) : Cmp.le a b = false ↔ b < a := Iff.rfl

theorem Cmp.le_refl' (a : Cmp) : Cmp.le a a = true := by simp [Cmp.le]

theorem Cmp.le_total' (a b : Cmp) : Cmp.le a b = true ∨ Cmp.le b a = true := by
  have := Bnd.lt_tri a.b b.b
  simp only [Cmp.le, Bool.or_eq_true, Bool.and_eq_true, beq_iff_eq, decide_eq_true_eq]
  rcases this with h | h | h
  · exact Or.inl (Or.inl h)
  · rw [h]; simp; omega
  · exact Or.inr (Or.inl h)

theorem Cmp.le_trans' {a b c : Cmp} (h1 : Cmp.le a b = true) (h2 : Cmp.le b c = true) :
    Cmp.le a c = true := by
  simp only [Cmp.le, Bool.or_eq_true, Bool.and_eq_true, beq_iff_eq, decide_eq_true_eq] at *
  rcases h1 with h1 | ⟨h1, h1'⟩ <;> rcases h2 with h2 | ⟨h2, h2'⟩
  · exact Or.inl (Bnd.lt_trans h1 h2)
  · rw [← h2]; exact Or.inl h1
  · rw [h1]; exact Or.inl h2
  · right; exact ⟨h1.trans h2, by omega⟩

theorem Cmp.le_antisymm' {a b : Cmp} (h1 : Cmp.le a b = true) (h2 : Cmp.le b a = true) : a = b := by
  simp only [Cmp.le, Bool.or_eq_true, Bool.and_eq_true, beq_iff_eq, decide_eq_true_eq] at *
  rcases h1 with h1 | ⟨h1, h1'⟩ <;> rcases h2 with h2 | ⟨h2, h2'⟩
  · have := Bnd.lt_asymm h1; simp_all
  · rw [h2] at h1; simp [Bnd.lt_irrefl] at h1
  · rw [h1] at h2; simp [Bnd.lt_irrefl] at h2
  · cases a; cases b; simp_all; omega

instance : Std.IsLinearOrder Cmp where
  le_refl a := Cmp.le_refl' a
  le_trans _ _ _ h1 h2 := Cmp.le_trans' h1 h2
  le_antisymm _ _ h1 h2 := Cmp.le_antisymm' h1 h2
  le_total a b := Cmp.le_total' a b

instance : Std.LawfulOrderLT Cmp where
  lt_iff a b := by
    show (Cmp.le b a = false) ↔ (Cmp.le a b = true ∧ ¬ Cmp.le b a = true)
    have := Cmp.le_total' a b
    constructor
    · intro h; simp_all
    · intro h; simpa using h.2

theorem Cmp.max_eq (a b : Cmp) : Cmp.max a b = if b ≤ a then a else b := rfl
theorem Cmp.min_eq (a b : Cmp) : Cmp.min a b = if a ≤ b then a else b := rfl

/-! ### Ranges as intervals of comparables -/

/-- The position of a term among the comparables. -/
def pt (x : Text) : Cmp := ⟨.val x, 0⟩

theorem inRange_iff (lo hi : Option Text) (lx hx : Bool) (x : Text) :
    inRange lo hi lx hx x = true ↔ cmpStart lo lx ≤ pt x ∧ pt x ≤ cmpEnd hi hx := by
  simp [inRange, pt, Cmp.le_iff]

/-- Membership of a term in a `TermRange`. -/
def Rng.mem (r : Rng) (x : Text) : Prop := cmpStart r.lo r.lox ≤ pt x ∧ pt x ≤ cmpEnd r.hi r.hix

instance (r : Rng) (x : Text) : Decidable (r.mem x) := by unfold Rng.mem; infer_instance

theorem cmpStart_roundtrip (lo : Option Text) (lx : Bool) :
    cmpStart (cmpStart lo lx).b.toOpt ((cmpStart lo lx).adj == 1) = cmpStart lo lx := by
  cases lo <;> cases lx <;> simp [cmpStart, Bnd.toOpt]

theorem cmpEnd_roundtrip (hi : Option Text) (hx : Bool) :
    cmpEnd (cmpEnd hi hx).b.toOpt ((cmpEnd hi hx).adj == -1) = cmpEnd hi hx := by
  cases hi <;> cases hx <;> simp [cmpEnd, Bnd.toOpt]

theorem Rng.overlaps_iff (a b : Rng) (hf : a.f = b.f) :
    a.overlaps b = true ↔
      let s1 := cmpStart a.lo a.lox
      let s2 := cmpStart b.lo b.lox
      let e1 := cmpEnd a.hi a.hix
      let e2 := cmpEnd b.hi b.hix
      (s2 ≤ s1 ∧ s1 ≤ e2) ∨ (s2 ≤ e1 ∧ e1 ≤ e2) ∨ (s1 ≤ s2 ∧ s2 ≤ e1) ∨ (s1 ≤ e2 ∧ e2 ≤ e1) := by
  simp [Rng.overlaps, hf, Cmp.le_iff, or_assoc]

theorem Rng.overlaps_field {a b : Rng} (h : a.overlaps b = true) : a.f = b.f := by
  unfold Rng.overlaps at h
  split at h
  · simp at h
  · rename_i hne
    simpa using hne

/-- The start and end comparables of `merge`. -/
theorem Rng.merge_bounds (a b : Rng) (i : Bool) :
    let s1 := cmpStart a.lo a.lox
    let s2 := cmpStart b.lo b.lox
    let e1 := cmpEnd a.hi a.hix
    let e2 := cmpEnd b.hi b.hix
    let m := a.merge b i
    (cmpStart m.lo m.lox, cmpEnd m.hi m.hix) =
      (if s2 ≤ s1 ∧ e1 ≤ e2 then (s2, e2)
       else if s1 ≤ s2 ∧ e2 ≤ e1 then (s1, e1)
       else if i then (Cmp.max s1 s2, Cmp.min e1 e2)
       else (Cmp.min s1 s2, Cmp.max e1 e2)) := by
  intro s1 s2 e1 e2 m
  simp only [m, Rng.merge]
  simp only [Bool.and_eq_true, Cmp.le_iff]
  split
  · simp [s2, e2, cmpStart_roundtrip, cmpEnd_roundtrip]
  · split
    · simp [s1, e1, cmpStart_roundtrip, cmpEnd_roundtrip]
    · cases i
      · simp only [Bool.false_eq_true, ↓reduceIte, Cmp.min_eq, Cmp.max_eq]
        split <;> split <;> simp [s1, s2, e1, e2, cmpStart_roundtrip, cmpEnd_roundtrip]
      · simp only [↓reduceIte, Cmp.min_eq, Cmp.max_eq]
        split <;> split <;> simp [s1, s2, e1, e2, cmpStart_roundtrip, cmpEnd_roundtrip]

/-- Under `Or`: the merge of two overlapping ranges contains exactly the terms of their union. -/
theorem Rng.merge_union (a b : Rng) (h : a.overlaps b = true) (x : Text) :
    (a.merge b false).mem x ↔ a.mem x ∨ b.mem x := by
  have hf := Rng.overlaps_field h
  have ho := (Rng.overlaps_iff a b hf).mp h
  have hb := Rng.merge_bounds a b false
  have hs := congrArg Prod.fst hb
  have he := congrArg Prod.snd hb
  unfold Rng.mem
  simp only at hs he
  rw [hs, he]
  simp only [Cmp.min_eq, Cmp.max_eq] at ho ⊢
  split
  · grind
  · split
    · grind
    · simp only [Bool.false_eq_true, ↓reduceIte]
      grind

/-- Under `And`, when neither range contains the other: the merge contains exactly the terms of
    the intersection. -/
theorem Rng.merge_inter (a b : Rng) (x : Text)
    (hn1 : ¬ (cmpStart b.lo b.lox ≤ cmpStart a.lo a.lox ∧ cmpEnd a.hi a.hix ≤ cmpEnd b.hi b.hix))
    (hn2 : ¬ (cmpStart a.lo a.lox ≤ cmpStart b.lo b.lox ∧ cmpEnd b.hi b.hix ≤ cmpEnd a.hi a.hix)) :
    (a.merge b true).mem x ↔ a.mem x ∧ b.mem x := by
  have hb := Rng.merge_bounds a b true
  have hs := congrArg Prod.fst hb
  have he := congrArg Prod.snd hb
  unfold Rng.mem
  simp only at hs he
  rw [hs, he]
  simp only [hn1, hn2, ↓reduceIte, Cmp.min_eq, Cmp.max_eq]
  grind

end WM.Normalize
