import WM.Model.Index
/-! Doc-number arithmetic: `_setup_doc_offsets`, `bisect_right`, `_segment_and_docnum`. -/
namespace WM.Index
open WM.Dict

/-- Reference definition of "which segment holds global number `n`, and where". -/
def locate : List Seg → Nat → Nat × Nat
  | [], n => (0, n)
  | s :: r, n => if n < s.docCountAll then (0, n) else ((locate r (n - s.docCountAll)).1 + 1, (locate r (n - s.docCountAll)).2)

theorem docCountAllSegs_cons (s : Seg) (r : List Seg) :
    docCountAllSegs (s :: r) = s.docCountAll + docCountAllSegs r := by
  simp [docCountAllSegs]

theorem docOffsets_ge (segs : List Seg) (base : Nat) : ∀ x ∈ docOffsets segs base, base ≤ x := by
  induction segs generalizing base with
  | nil => simp [docOffsets]
  | cons s r ih =>
    intro x hx
    simp only [docOffsets, List.mem_cons] at hx
    rcases hx with rfl | hx
    · exact Nat.le_refl _
    · have := ih _ x hx; omega

theorem docOffsets_length (segs : List Seg) (base : Nat) : (docOffsets segs base).length = segs.length := by
  induction segs generalizing base with
  | nil => rfl
  | cons s r ih => simp [docOffsets, ih]

theorem bisectRight_lt_all (xs : List Nat) (n : Nat) (h : ∀ x ∈ xs, n < x) : bisectRight xs n = 0 := by
  cases xs with
  | nil => rfl
  | cons x r =>
    have := h x (by simp)
    have h' : ¬ x ≤ n := by omega
    simp [bisectRight, List.takeWhile, h']

/-- `bisect_right(offsets, n) - 1` is the segment `locate` names, and `n - offsets[i]` the local number. -/
theorem bisect_locate (segs : List Seg) (base n : Nat) (h1 : base ≤ n) (h2 : n < base + docCountAllSegs segs) :
    bisectRight (docOffsets segs base) n = (locate segs (n - base)).1 + 1 ∧
    (docOffsets segs base)[(locate segs (n - base)).1]? = some (n - (locate segs (n - base)).2) ∧
    (locate segs (n - base)).2 ≤ n := by
  induction segs generalizing base with
  | nil => simp [docCountAllSegs] at h2; omega
  | cons s r ih =>
    rw [docCountAllSegs_cons] at h2
    simp only [docOffsets, locate]
    by_cases hlt : n - base < s.docCountAll
    · simp only [hlt, if_true]
      have hz : bisectRight (docOffsets r (base + s.docCountAll)) n = 0 := by
        apply bisectRight_lt_all
        intro x hx
        have := docOffsets_ge r _ x hx
        omega
      refine ⟨?_, ?_, ?_⟩
      · simp only [bisectRight] at hz ⊢
        simp [List.takeWhile, h1, hz]
      · simp; omega
      · omega
    · simp only [hlt, if_false]
      have hb : base + s.docCountAll ≤ n := by omega
      have := ih (base + s.docCountAll) hb (by omega)
      have e : n - (base + s.docCountAll) = n - base - s.docCountAll := by omega
      rw [e] at this
      obtain ⟨a, b, c⟩ := this
      refine ⟨?_, ?_, c⟩
      · simp only [bisectRight] at a ⊢
        simp [List.takeWhile, h1, a]
      · simpa using b

theorem locate_fst_lt (segs : List Seg) (m : Nat) (h : m < docCountAllSegs segs) :
    (locate segs m).1 < segs.length ∧ ∃ s, segs[(locate segs m).1]? = some s ∧ (locate segs m).2 < s.docCountAll := by
  induction segs generalizing m with
  | nil => simp [docCountAllSegs] at h
  | cons s r ih =>
    rw [docCountAllSegs_cons] at h
    simp only [locate]
    by_cases hlt : m < s.docCountAll
    · simp [hlt]
    · simp only [hlt, if_false]
      obtain ⟨a, s', b, c⟩ := ih (m - s.docCountAll) (by omega)
      refine ⟨by simp; omega, s', by simpa using b, c⟩

/-- `_document_segment` + `_segment_and_docnum` agree with `locate` for every valid number. -/
theorem documentSegment_eq (segs : List Seg) (n : Nat) (h : n < docCountAllSegs segs) :
    documentSegment (docOffsets segs 0) n = (locate segs n).1 ∧
    (docOffsets segs 0)[(locate segs n).1]? = some (n - (locate segs n).2) ∧ (locate segs n).2 ≤ n := by
  have hb := bisect_locate segs 0 n (Nat.zero_le _) (by omega)
  simp only [Nat.sub_zero] at hb
  obtain ⟨a, b, c⟩ := hb
  refine ⟨?_, b, c⟩
  unfold documentSegment
  split
  · next hl =>
    have hl' : segs.length = 1 := by simpa [docOffsets_length] using hl
    have := (locate_fst_lt segs n h).1
    omega
  · omega

end WM.Index
