import WM.Lemmas.ReplaceSpec
/-! `MultiMatcher.replace(minquality)`: sub-matchers that cannot reach the threshold are passed over. -/
namespace WM.Matcher

theorem keeps_nil_of_lt' {q v : Rat} {L : Den} (h : BoundedBy v L) (hv : v < q) : ∀ p ∈ L, p.2 ≤ q :=
  fun p hp => Rat.le_trans (h p hp) (Rat.le_of_lt hv)

/-- the loop of `MultiMatcher.replace` -/
theorem multi_replLoop_spec (sc : Shape) (q : Rat) : ∀ (n : Nat) (m : Multi (St sc)) (ch : Bool),
    W0 Unit01 (.multi sc) m → m.segs.length - m.cur < n →
    ∃ m' ch', Multi.replLoop (ops sc) q n m ch = .ok (m', ch') ∧ W0 Unit01 (.multi sc) m' ∧
      Keeps q (Multi.den (den sc) m') (Multi.den (den sc) m) ∧ ((ch' = ch ∧ m' = m) ∨ ch' = true)
  | 0, m, _, _, hn => by omega
  | n + 1, m, ch, h, hn => by
    unfold Multi.replLoop
    cases hs : m.segs[m.cur]? with
    | none => exact ⟨m, ch, rfl, h, Keeps.refl _ _, Or.inl ⟨rfl, rfl⟩⟩
    | some s =>
      have h' : Multi.WF (ops sc) (den sc) (full sc) (W0 Unit01 sc) m := h
      have hmem : s ∈ m.segs := List.mem_of_getElem? hs
      obtain ⟨mq, h1, h2⟩ := (QT sc).max s.1 (h'.child s hmem)
      simp only [h1, bind, Except.bind]
      by_cases hq : mq < q
      · simp only [hq, ↓reduceIte]
        let m1 : Multi (St sc) := { m with cur := m.cur + 1 }
        obtain ⟨g1, g2, -, g4, g5, -⟩ := Multi.nextMatcher_spec (QT sc).cur0 (m := m1) h'.child
        have hw : W0 Unit01 (.multi sc) (Multi.nextMatcher (ops sc) m1) :=
          (⟨by rw [g4]; exact h'.child, by rw [g4]; exact h'.sub, by rw [g4]; exact h'.asc, g2⟩ :
            Multi.WF (ops sc) (den sc) (full sc) (W0 Unit01 sc) _)
        have hlt := (List.getElem?_eq_some_iff.1 hs).1
        obtain ⟨m', ch', k1, k2, k3, k4⟩ := multi_replLoop_spec sc q n (Multi.nextMatcher (ops sc) m1) true hw
          (by rw [g4]; show m.segs.length - _ < n; have : m1.cur = m.cur + 1 := rfl; omega)
        refine ⟨m', ch', k1, k2, k3.trans ?_, Or.inr ?_⟩
        · rw [g1, Multi.den_of_get hs]
          exact keeps_append_left (keeps_nil_of_lt' (boundedBy_shift h2) hq)
        · rcases k4 with ⟨k4, -⟩ | k4
          · exact k4
          · exact k4
      · simp only [hq, ↓reduceIte]
        exact ⟨m, ch, rfl, h, Keeps.refl _ _, Or.inl ⟨rfl, rfl⟩⟩

theorem replace_multi_spec (sc : Shape) : ReplSpec (.multi sc) (replace (.multi sc)) := by
  intro m q h
  show ∃ out, (do let (m', ch) ← Multi.replaceCore (ops sc) m q
                  if !Multi.isActive m' then nullRepl else pure (ch, (⟨.multi sc, m'⟩ : Any))) = _ ∧ _
  have core : ∃ m' ch', Multi.replaceCore (ops sc) m q = .ok (m', ch') ∧ W0 Unit01 (.multi sc) m' ∧
      Keeps q (Multi.den (den sc) m') (Multi.den (den sc) m) ∧ (q = 0 → m' = m) ∧ (ch' = false → m' = m) := by
    unfold Multi.replaceCore
    by_cases hq : q = 0
    · subst hq
      exact ⟨m, false, rfl, h, Keeps.refl _ _, fun _ => rfl, fun _ => rfl⟩
    · have : (q != 0) = true := by simpa using hq
      simp only [this, ↓reduceIte]
      obtain ⟨m', ch', k1, k2, k3, k4⟩ := multi_replLoop_spec sc q (m.segs.length - m.cur + 1) m false h (by omega)
      refine ⟨m', ch', k1, k2, k3, fun h0 => absurd h0 hq, ?_⟩
      intro hf
      rcases k4 with ⟨-, k4⟩ | k4
      · exact k4
      · rw [hf] at k4; cases k4
  obtain ⟨m', ch', c1, c2, c3, c4, c5⟩ := core
  simp only [c1, bind, Except.bind]
  by_cases ha : Multi.isActive m' = true
  · simp only [ha, Bool.not_true, Bool.false_eq_true, ↓reduceIte]
    refine ⟨(ch', ⟨.multi sc, m'⟩), rfl, ⟨c2, c3, ?_, ?_⟩⟩
    · intro hq; show Multi.den (den sc) m' = Multi.den (den sc) m; rw [c4 hq]
    · intro hf; show (⟨.multi sc, m'⟩ : Any) = _; rw [c5 hf]
  · simp only [ha, Bool.not_false, ↓reduceIte]
    have hnil : Multi.den (den sc) m' = [] :=
      ((QT (.multi sc)).cur0.inactive c2).1 (by show Multi.isActive m' = false; simpa using ha)
    refine ⟨_, rfl, ReplOK.null ?_ ?_⟩
    · show Keeps q [] (Multi.den (den sc) m)
      rw [← hnil]; exact c3
    · intro hq; show Multi.den (den sc) m = []; rw [← c4 hq]; exact hnil

end WM.Matcher
