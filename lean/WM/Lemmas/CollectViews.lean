import WM.Lemmas.CollectTop
/-! Helper lemmas for C14: the key order, sorting views, dictionaries. -/
namespace WM.Collect
open WM.Rank

theorem keyLe_refl : ∀ a : Key, keyLe a a = true
  | [] => rfl
  | x :: xs => by simp [keyLe, keyLe_refl xs]

theorem keyLe_total : ∀ a b : Key, keyLe a b = true ∨ keyLe b a = true
  | [], _ => Or.inl rfl
  | _ :: _, [] => Or.inr rfl
  | x :: xs, y :: ys => by
    have ih := keyLe_total xs ys
    simp only [keyLe, Bool.or_eq_true, Bool.and_eq_true, decide_eq_true_eq, beq_iff_eq]
    grind

theorem keyLe_trans : ∀ a b c : Key, keyLe a b = true → keyLe b c = true → keyLe a c = true
  | [], _, _ => fun _ _ => rfl
  | _ :: _, [], _ => fun h _ => by simp [keyLe] at h
  | _ :: _, _ :: _, [] => fun _ h => by simp [keyLe] at h
  | x :: xs, y :: ys, z :: zs => by
    have ih := keyLe_trans xs ys zs
    simp only [keyLe, Bool.or_eq_true, Bool.and_eq_true, decide_eq_true_eq, beq_iff_eq]
    grind

theorem keyLe_antisymm : ∀ a b : Key, keyLe a b = true → keyLe b a = true → a = b
  | [], [] => fun _ _ => rfl
  | [], _ :: _ => fun _ h => by simp [keyLe] at h
  | _ :: _, [] => fun h _ => by simp [keyLe] at h
  | x :: xs, y :: ys => by
    have ih := keyLe_antisymm xs ys
    simp only [keyLe, Bool.or_eq_true, Bool.and_eq_true, decide_eq_true_eq, beq_iff_eq]
    grind

theorem kdLe_total (a b : Key × Nat) : (kdLe a b || kdLe b a) = true := by
  have := keyLe_total a.1 b.1
  simp only [kdLe, Bool.or_eq_true, Bool.and_eq_true, Bool.not_eq_true', decide_eq_true_eq]
  cases h1 : keyLe a.1 b.1 <;> cases h2 : keyLe b.1 a.1 <;> simp_all <;> omega

theorem kdLe_trans (a b c : Key × Nat) : kdLe a b = true → kdLe b c = true → kdLe a c = true := by
  have t1 := keyLe_trans a.1 b.1 c.1
  have t2 := keyLe_trans c.1 b.1 a.1
  have t3 := keyLe_trans b.1 c.1 a.1
  have t4 := keyLe_trans c.1 a.1 b.1
  have t5 := keyLe_trans b.1 a.1 c.1
  simp only [kdLe, Bool.or_eq_true, Bool.and_eq_true, Bool.not_eq_true', decide_eq_true_eq]
  cases h1 : keyLe a.1 b.1 <;> cases h2 : keyLe b.1 a.1 <;> cases h3 : keyLe b.1 c.1 <;>
    cases h4 : keyLe c.1 b.1 <;> cases h5 : keyLe a.1 c.1 <;> cases h6 : keyLe c.1 a.1 <;>
    simp_all <;> omega

theorem kdLe_antisymm (a b : Key × Nat) : kdLe a b = true → kdLe b a = true → a = b := by
  have t1 := keyLe_antisymm a.1 b.1
  obtain ⟨ak, ad⟩ := a
  obtain ⟨bk, bd⟩ := b
  simp only [kdLe, Bool.or_eq_true, Bool.and_eq_true, Bool.not_eq_true', decide_eq_true_eq] at *
  cases h1 : keyLe ak bk <;> cases h2 : keyLe bk ak <;> simp_all
  intro h3 h4
  omega

/-- The ascending view: hits in `(key, docnum)` order. -/
def ascending (key : Nat → Key) (docs : List Nat) : List (Key × Nat) :=
  (docs.map fun d => (key d, d)).mergeSort kdLe

theorem ascending_perm (key : Nat → Key) (docs : List Nat) :
    (ascending key docs).Perm (docs.map fun d => (key d, d)) := List.mergeSort_perm _ _

theorem ascending_sorted (key : Nat → Key) (docs : List Nat) :
    (ascending key docs).Pairwise (fun a b => kdLe a b = true) :=
  List.pairwise_mergeSort kdLe_trans kdLe_total _

/-- A descending stable sort of pairwise different items is the reversed ascending sort. -/
theorem mergeSort_flip (items : List (Key × Nat)) :
    items.mergeSort (fun a b => kdLe b a) = (items.mergeSort kdLe).reverse := by
  apply List.Perm.eq_of_pairwise (le := fun a b => kdLe b a = true)
  · intro a b _ _ h1 h2; exact kdLe_antisymm a b h2 h1
  · exact List.pairwise_mergeSort (le := fun a b => kdLe b a)
      (fun a b c h1 h2 => kdLe_trans c b a h2 h1) (fun a b => by
        have := kdLe_total b a; simpa [Bool.or_comm] using this) _
  · rw [List.pairwise_reverse]
    exact List.pairwise_mergeSort kdLe_trans kdLe_total _
  · exact (List.mergeSort_perm _ _).trans
      ((List.mergeSort_perm items kdLe).symm.trans (List.reverse_perm _).symm)

/-! ### insertion-ordered dictionaries -/

theorem dictGet_nil {α : Type} (n : Int) (dflt : α) : dictGet n dflt [] = dflt := rfl

theorem dictGet_cons {α : Type} (n k : Int) (v dflt : α) (m : List (Int × α)) :
    dictGet n dflt ((k, v) :: m) = if k == n then v else dictGet n dflt m := by
  simp only [dictGet, List.find?_cons]
  cases h : (k == n) <;> simp

theorem dictGet_update_same {α : Type} (n : Int) (dflt : α) (f : α → α) (m : List (Int × α)) :
    dictGet n dflt (dictUpdate n dflt f m) = f (dictGet n dflt m) := by
  induction m with
  | nil => simp [dictUpdate, dictGet_cons, dictGet_nil]
  | cons kv rest ih =>
    obtain ⟨k, v⟩ := kv
    simp only [dictUpdate]
    by_cases h : (k == n) = true
    · simp [h, dictGet_cons]
    · rw [if_neg h, dictGet_cons, dictGet_cons, if_neg h, if_neg h]; exact ih

theorem dictGet_update_other {α : Type} (n n' : Int) (dflt dflt' : α) (f : α → α) (m : List (Int × α))
    (hne : n' ≠ n) : dictGet n' dflt' (dictUpdate n dflt f m) = dictGet n' dflt' m := by
  induction m with
  | nil =>
    have : (n == n') = false := by simpa using (Ne.symm hne)
    simp [dictUpdate, dictGet_cons, dictGet_nil, this]
  | cons kv rest ih =>
    obtain ⟨k, v⟩ := kv
    simp only [dictUpdate]
    by_cases h : (k == n) = true
    · have hk : k = n := by simpa using h
      have : (k == n') = false := by subst hk; simpa using (Ne.symm hne)
      simp [h, dictGet_cons, this]
    · rw [if_neg h, dictGet_cons, dictGet_cons, ih]

/-- One document added to the groups named `names`. -/
theorem mem_addNames (d : Nat) (names : List Int) (m : List (Int × List Nat)) (v : Int) (x : Nat) :
    x ∈ dictGet v [] (names.foldl (fun m n => dictUpdate n [] (fun l => l ++ [d]) m) m) ↔
      x ∈ dictGet v [] m ∨ (x = d ∧ v ∈ names) := by
  induction names generalizing m with
  | nil => simp
  | cons n ns ih =>
    simp only [List.foldl_cons]
    rw [ih]
    by_cases h : v = n
    · subst h
      rw [dictGet_update_same]
      simp only [List.mem_append, List.mem_cons, List.not_mem_nil, or_false, true_or, and_true]
      constructor
      · rintro ((h | h) | h)
        · exact Or.inl h
        · exact Or.inr h
        · exact Or.inr h.1
      · rintro (h | h)
        · exact Or.inl (Or.inl h)
        · exact Or.inl (Or.inr h)
    · rw [dictGet_update_other _ _ _ _ _ _ h]
      simp only [List.mem_cons, h, false_or]

theorem mem_facetUnordered_aux (names : Nat → List Int) (docs : List Nat) (m : List (Int × List Nat))
    (v : Int) (x : Nat) :
    x ∈ dictGet v [] (docs.foldl (fun m d => (names d).foldl (fun m n => dictUpdate n [] (fun l => l ++ [d]) m) m) m) ↔
      x ∈ dictGet v [] m ∨ (x ∈ docs ∧ v ∈ names x) := by
  induction docs generalizing m with
  | nil => simp
  | cons d ds ih =>
    simp only [List.foldl_cons]
    rw [ih, mem_addNames]
    simp only [List.mem_cons]
    constructor
    · rintro ((h | ⟨rfl, h⟩) | ⟨h1, h2⟩)
      · exact Or.inl h
      · exact Or.inr ⟨Or.inl rfl, h⟩
      · exact Or.inr ⟨Or.inr h1, h2⟩
    · rintro (h | ⟨rfl | h1, h2⟩)
      · exact Or.inl (Or.inl h)
      · exact Or.inl (Or.inr ⟨rfl, h2⟩)
      · exact Or.inr ⟨h1, h2⟩

/-- The count map counts the entries of the unordered map (same fold, lengths). -/
theorem facetCount_aux (names : Nat → List Int) (docs : List Nat)
    (mc : List (Int × Nat)) (ml : List (Int × List Nat))
    (h : ∀ v, dictGet v 0 mc = (dictGet v [] ml).length) (v : Int) :
    dictGet v 0 (docs.foldl (fun m d => (names d).foldl (fun m n => dictUpdate n 0 (· + 1) m) m) mc) =
      (dictGet v [] (docs.foldl (fun m d => (names d).foldl (fun m n => dictUpdate n [] (fun l => l ++ [d]) m) m) ml)).length := by
  induction docs generalizing mc ml with
  | nil => exact h v
  | cons d ds ih =>
    simp only [List.foldl_cons]
    apply ih
    intro v'
    generalize names d = ns
    induction ns generalizing mc ml with
    | nil => exact h v'
    | cons n ns ih2 =>
      simp only [List.foldl_cons]
      apply ih2
      intro v''
      by_cases hv : v'' = n
      · subst hv
        rw [dictGet_update_same, dictGet_update_same, h]
        simp
      · rw [dictGet_update_other _ _ _ _ _ _ hv, dictGet_update_other _ _ _ _ _ _ hv]
        exact h v''


/-! ### `OrderedList` and `Best` group maps -/

theorem dictGet_map {α β : Type} (g : α → β) (v : Int) (dflt : α) (m : List (Int × α)) :
    dictGet v (g dflt) (m.map fun p => (p.1, g p.2)) = g (dictGet v dflt m) := by
  induction m with
  | nil => rfl
  | cons kv rest ih =>
    obtain ⟨k, x⟩ := kv
    simp only [List.map_cons, dictGet_cons]
    split
    · rfl
    · exact ih

/-- The raw `OrderedList` map holds, per group, `(sortkey, doc)` of the members in collection order. -/
theorem facetOrdered_aux (names : Nat → List Int) (skey : Nat → Key) (docs : List Nat)
    (mo : List (Int × List (Key × Nat))) (mu : List (Int × List Nat))
    (h : ∀ v, dictGet v [] mo = (dictGet v [] mu).map fun d => (skey d, d)) (v : Int) :
    dictGet v [] (docs.foldl (fun m d => facetAddOrdered (names d) (skey d) d m) mo) =
      (dictGet v [] (docs.foldl (fun m d => (names d).foldl (fun m n => dictUpdate n [] (fun l => l ++ [d]) m) m) mu)).map
        fun d => (skey d, d) := by
  induction docs generalizing mo mu with
  | nil => exact h v
  | cons d ds ih =>
    simp only [List.foldl_cons]
    apply ih
    intro v'
    unfold facetAddOrdered
    generalize names d = ns
    induction ns generalizing mo mu with
    | nil => exact h v'
    | cons n ns ih2 =>
      simp only [List.foldl_cons]
      apply ih2
      intro v''
      by_cases hv : v'' = n
      · subst hv
        rw [dictGet_update_same, dictGet_update_same, h]
        simp
      · rw [dictGet_update_other _ _ _ _ _ _ hv, dictGet_update_other _ _ _ _ _ _ hv]
        exact h v''

/-- Lookup without a default (`name in dict`). -/
def dictFind {α : Type} (name : Int) (m : List (Int × α)) : Option α :=
  (m.find? (fun p => p.1 == name)).map (·.2)

theorem dictGet_eq_find {α : Type} (n : Int) (dflt : α) (m : List (Int × α)) :
    dictGet n dflt m = (dictFind n m).getD dflt := by
  unfold dictGet dictFind
  cases m.find? (fun p => p.1 == n) <;> rfl

theorem dictFind_cons {α : Type} (n k : Int) (v : α) (m : List (Int × α)) :
    dictFind n ((k, v) :: m) = if k == n then some v else dictFind n m := by
  simp only [dictFind, List.find?_cons]
  cases h : (k == n) <;> simp

theorem dictFind_update_same {α : Type} (n : Int) (dflt : α) (f : α → α) (m : List (Int × α)) :
    dictFind n (dictUpdate n dflt f m) = some (f ((dictFind n m).getD dflt)) := by
  induction m with
  | nil => simp [dictUpdate, dictFind_cons, dictFind]
  | cons kv rest ih =>
    obtain ⟨k, v⟩ := kv
    simp only [dictUpdate]
    by_cases h : (k == n) = true
    · simp [h, dictFind_cons]
    · rw [if_neg h, dictFind_cons, dictFind_cons, if_neg h, if_neg h]; exact ih

theorem dictFind_update_other {α : Type} (n n' : Int) (dflt : α) (f : α → α) (m : List (Int × α))
    (hne : n' ≠ n) : dictFind n' (dictUpdate n dflt f m) = dictFind n' m := by
  induction m with
  | nil =>
    have : (n == n') = false := by simpa using (Ne.symm hne)
    simp [dictUpdate, dictFind_cons, this, dictFind]
  | cons kv rest ih =>
    obtain ⟨k, v⟩ := kv
    simp only [dictUpdate]
    by_cases h : (k == n) = true
    · have hk : k = n := by simpa using h
      have : (k == n') = false := by subst hk; simpa using (Ne.symm hne)
      simp [h, dictFind_cons, this]
    · rw [if_neg h, dictFind_cons, dictFind_cons, ih]

/-- `b = (skey d, d)` for the first member `d` of `members` whose key is minimal: every earlier
    member has a strictly greater key, every later one a key at least as great. -/
def FirstMin (skey : Nat → Key) (members : List Nat) (b : Key × Nat) : Prop :=
  b.1 = skey b.2 ∧ ∃ pre post, members = pre ++ b.2 :: post ∧
    (∀ d ∈ pre, keyLe (skey d) b.1 = false) ∧ (∀ d ∈ post, keyLe b.1 (skey d) = true)

/-- `Best.add` keeps `FirstMin`. -/
theorem FirstMin.step {skey : Nat → Key} {members : List Nat} {b : Key × Nat} (h : FirstMin skey members b)
    (d : Nat) :
    FirstMin skey (members ++ [d])
      (if keyLe (skey d) b.1 && !keyLe b.1 (skey d) then (skey d, d) else b) := by
  obtain ⟨hb, pre, post, hm, hpre, hpost⟩ := h
  by_cases hc : (keyLe (skey d) b.1 && !keyLe b.1 (skey d)) = true
  · rw [if_pos hc]
    simp only [Bool.and_eq_true, Bool.not_eq_true'] at hc
    refine ⟨rfl, members, [], by simp, ?_, by simp⟩
    intro x hx
    simp only
    cases hxd : keyLe (skey x) (skey d) with
    | false => rfl
    | true =>
      exfalso
      rw [hm] at hx
      rcases List.mem_append.mp hx with hx | hx
      · have := keyLe_trans _ _ _ hxd hc.1
        rw [hpre x hx] at this; cases this
      · rcases List.mem_cons.mp hx with hx | hx
        · subst hx; rw [← hb, hc.2] at hxd; cases hxd
        · have := keyLe_trans _ _ _ (hpost x hx) hxd
          rw [hc.2] at this; cases this
  · rw [if_neg hc]
    refine ⟨hb, pre, post ++ [d], by rw [hm]; simp, hpre, ?_⟩
    intro x hx
    rcases List.mem_append.mp hx with hx | hx
    · exact hpost x hx
    · have : x = d := by simpa using hx
      subst this
      rcases keyLe_total b.1 (skey x) with h | h
      · exact h
      · simp only [Bool.and_eq_true, Bool.not_eq_true', not_and, Bool.not_eq_false] at hc
        exact hc h

/-- The `Best` map against the `UnorderedList` map: same groups, and the value of a group is the
    first minimum of its members. -/
theorem facetBest_aux (names : Nat → List Int) (skey : Nat → Key) (docs : List Nat)
    (mb : List (Int × (Key × Nat))) (mu : List (Int × List Nat))
    (h : ∀ v, (dictFind v mu = none → dictFind v mb = none) ∧
      (∀ members, dictFind v mu = some members → members ≠ [] ∧ ∃ b, dictFind v mb = some b ∧ FirstMin skey members b))
    (v : Int) :
    (dictFind v (docs.foldl (fun m d => (names d).foldl (fun m n => dictUpdate n [] (fun l => l ++ [d]) m) m) mu) = none →
      dictFind v (docs.foldl (fun m d => (names d).foldl (fun m n =>
        dictUpdate n (skey d, d) (fun cur => if keyLe (skey d) cur.1 && !keyLe cur.1 (skey d) then (skey d, d) else cur) m) m) mb) = none) ∧
    (∀ members, dictFind v (docs.foldl (fun m d => (names d).foldl (fun m n => dictUpdate n [] (fun l => l ++ [d]) m) m) mu) = some members →
      members ≠ [] ∧ ∃ b, dictFind v (docs.foldl (fun m d => (names d).foldl (fun m n =>
        dictUpdate n (skey d, d) (fun cur => if keyLe (skey d) cur.1 && !keyLe cur.1 (skey d) then (skey d, d) else cur) m) m) mb) = some b ∧
        FirstMin skey members b) := by
  induction docs generalizing mb mu with
  | nil => exact h v
  | cons d ds ih =>
    simp only [List.foldl_cons]
    apply ih
    intro v'
    generalize names d = ns
    induction ns generalizing mb mu with
    | nil => exact h v'
    | cons n ns ih2 =>
      simp only [List.foldl_cons]
      apply ih2
      intro v''
      by_cases hv : v'' = n
      · subst hv
        rw [dictFind_update_same, dictFind_update_same]
        refine ⟨fun hn => (by cases hn), ?_⟩
        intro members hmem
        have hmem' : members = (dictFind v'' mu).getD [] ++ [d] := by
          simpa using hmem.symm
        subst hmem'
        refine ⟨by simp, _, rfl, ?_⟩
        cases hfu : dictFind v'' mu with
        | none =>
          rw [(h v'').1 hfu]
          simp only [Option.getD_none, List.nil_append, keyLe_refl, Bool.not_true, Bool.and_false,
            Bool.false_eq_true, if_false]
          exact ⟨rfl, [], [], rfl, by simp, by simp⟩
        | some ms =>
          obtain ⟨_, b, hb, hfm⟩ := (h v'').2 ms hfu
          rw [hb]
          simp only [Option.getD_some]
          exact hfm.step d
      · rw [dictFind_update_other _ _ _ _ _ hv, dictFind_update_other _ _ _ _ _ hv]
        exact h v''

theorem pair_sublist_of_mem {α : Type} {l : List α} {a b : α} (ha : a ∈ l) (hb : b ∈ l) (hab : a ≠ b) :
    [a, b].Sublist l ∨ [b, a].Sublist l := by
  obtain ⟨s, t, rfl⟩ := List.append_of_mem ha
  rcases List.mem_append.mp hb with h | h
  · right
    exact (List.singleton_sublist.mpr h).append (List.singleton_sublist.mpr (List.mem_cons_self))
  · left
    have ht : b ∈ t := by
      rcases List.mem_cons.mp h with h | h
      · exact absurd h.symm hab
      · exact h
    exact ((List.singleton_sublist.mpr ht).cons_cons a).trans (List.sublist_append_right s _)

end WM.Collect
