import WM.Model.FSReader
import WM.Lemmas.FSReader
/-! A reader whose constructor opens *every* file of its segments (the W3 codec after
`fix: a reader of a loose segment opens its column and vector files when it is built`): it satisfies
`EagerHandles` and `ReaderOK` whenever the TOC it was built from is readable. -/
namespace WM.FS

def allFiles : Name → Bool := fun _ => true

theorem freshReader_leaves (eager : Name → Bool) (fs : FS) (t : Toc) :
    (freshReader eager fs t).leaves = t.segs.map (freshSeg eager fs t.schema t.gen) := by
  unfold freshReader
  cases t.segs with
  | nil => rfl
  | cons a l => cases l <;> rfl

theorem lookupHandle_filterMap (fs : FS) (l : List Name) (f : Name) (hf : f ∈ l)
    (hb : ∀ g ∈ l, (fs.dir g).isSome) :
    lookupHandle (l.filterMap fun g => (fs.dir g).map fun i => (g, i)) f = fs.dir f := by
  induction l with
  | nil => cases hf
  | cons g rest ih =>
    have hg := hb g (List.mem_cons_self ..)
    obtain ⟨i, hi⟩ := Option.isSome_iff_exists.1 hg
    simp only [List.filterMap_cons, hi, Option.map_some]
    simp only [lookupHandle]
    by_cases hgf : g = f
    · subst hgf; simp [hi]
    · rw [if_neg hgf]
      rcases List.mem_cons.1 hf with h | h
      · exact absurd h.symm hgf
      · exact ih h (fun x hx => hb x (List.mem_cons_of_mem _ hx))

theorem filter_allFiles (l : List Name) : l.filter allFiles = l := by
  simp [allFiles]

/-- every file of the TOC is bound when the TOC is readable -/
theorem bound_of_readable {fs : FS} {t : Toc} (hr : readable fs t = true) :
    ∀ s ∈ t.segs, ∀ f ∈ s.files, (fs.dir f).isSome := fun s hs f hf =>
  bound_of_isComplete ((readable_iff fs t).1 hr f (mem_toc_files hs hf))

theorem eagerHandles_fresh (fs : FS) (t : Toc) (hr : readable fs t = true) :
    EagerHandles (freshReader allFiles fs t) = true := by
  unfold EagerHandles
  rw [freshReader_leaves]
  simp only [List.all_eq_true, List.mem_map]
  rintro sr ⟨s, hs, rfl⟩ f hf
  simp only [freshSeg] at hf ⊢
  rw [filter_allFiles, lookupHandle_filterMap fs s.files f hf (bound_of_readable hr s hs)]
  exact bound_of_readable hr s hs f hf

theorem readerOK_fresh {fs : FS} (hwf : WF fs) (t : Toc) (hr : readable fs t = true) :
    ReaderOK fs (freshReader allFiles fs t) := by
  intro sr hsr p hp
  rw [freshReader_leaves] at hsr
  obtain ⟨s, hs, rfl⟩ := List.mem_map.1 hsr
  simp only [freshSeg, filter_allFiles, List.mem_filterMap] at hp
  obtain ⟨f, hf, hfp⟩ := hp
  cases hd : fs.dir f with
  | none => rw [hd] at hfp; cases hfp
  | some i =>
    rw [hd] at hfp
    simp only [Option.map_some, Option.some.injEq] at hfp
    subst hfp
    refine ⟨hwf.range f i hd, ?_⟩
    have hc := (readable_iff fs t).1 hr f (mem_toc_files hs hf)
    obtain ⟨j, hj, hst⟩ := (isComplete_iff fs f).1 hc
    rw [hd] at hj
    cases hj
    simp [hst]

end WM.FS
