import WM.Model.Parser
import WM.Spec.Parser
import WM.Lemmas.ParserTotal
import WM.Lemmas.ParserOps
import WM.Lemmas.ParserPrec
import WM.Lemmas.ParserFields
import WM.Lemmas.ParserGroups
/-! Marker elimination: every filter only rearranges nodes or creates text/range/group nodes, and
each marker kind is removed by its filter. -/
namespace WM.Parser

mutual
  /-- `p` holds of the node and of every node below it -/
  def Node.allNodes (p : Node → Bool) : Node → Bool
    | .group k ns b => p (.group k ns b) && allNodesL p ns
    | n => p n
  def allNodesL (p : Node → Bool) : List Node → Bool
    | [] => true
    | n :: ns => n.allNodes p && allNodesL p ns
end

/-- node predicates that hold of every node a filter can create or modify -/
structure Stable (q : Node → Bool) : Prop where
  text : ∀ k t f b, q (.text k t f b) = true
  range : ∀ s e sx ex f, q (.range s e sx ex f) = true
  /-- on a group node `q` may only look at the group's class -/
  group : ∀ k ns b, q (.group k ns b) = q (.group k [] 1)

theorem allNodes_group {q : Node → Bool} (hq : Stable q) (k : GK) (ns : List Node) (b : Rat) :
    (Node.group k ns b).allNodes q = (q (.group k [] 1) && allNodesL q ns) := by
  simp only [Node.allNodes]; rw [hq.group]

theorem allNodesL_iff {q : Node → Bool} {l : List Node} :
    allNodesL q l = true ↔ ∀ n ∈ l, n.allNodes q = true := by
  induction l with
  | nil => simp [allNodesL]
  | cons a t ih => simp [allNodesL, ih]

theorem allNodesL_append {q : Node → Bool} (a b : List Node) :
    allNodesL q (a ++ b) = (allNodesL q a && allNodesL q b) := by
  induction a with
  | nil => simp [allNodesL]
  | cons x t ih => simp [allNodesL, ih, Bool.and_assoc]

theorem allNodes_leaf {q : Node → Bool} {n : Node} (h : n.isGroup = false) : n.allNodes q = q n := by
  cases n <;> simp_all [Node.isGroup, Node.allNodes]

theorem allNodes_self {p : Node → Bool} {n : Node} (h : n.allNodes p = true) : p n = true := by
  cases n <;> simp_all [Node.allNodes]

theorem allNodes_toWord {q : Node → Bool} (hq : Stable q) (o : Str) : (toWord o).allNodes q = true := by
  simp [toWord, Node.allNodes, hq.text]

/-- recursion scheme for total tree functions -/
theorem Node.ind {P : Node → Prop} (leaf : ∀ n, n.isGroup = false → P n)
    (group : ∀ k ns b, (∀ x ∈ ns, P x) → P (.group k ns b)) : ∀ n, P n := by
  intro n
  induction hsz : n.size using Nat.strongRecOn generalizing n with
  | _ sz ih =>
    cases n with
    | group k ns b =>
      apply group
      intro x hx
      have := size_mem hx
      exact ih x.size (by subst hsz; simp only [Node.size]; omega) x rfl
    | _ => exact leaf _ rfl

/-! ### remove_whitespace -/

theorem rmWs_group' (k : GK) (ns : List Node) (b : Rat) :
    rmWs (.group k ns b) = .group k ((ns.filter (fun n => !n.isWs)).map rmWs) b := by rw [rmWs]

theorem rmWs_leaf {n : Node} (h : n.isGroup = false) : rmWs n = n := by
  cases n
  case group => simp [Node.isGroup] at h
  all_goals
    rw [rmWs]
    intro k ns b h; cases h

theorem rmWs_pres {q : Node → Bool} (hq : Stable q) (n : Node) : n.allNodes q = true → (rmWs n).allNodes q = true := by
  induction n using Node.ind with
  | leaf n h => rw [rmWs_leaf h]; exact id
  | group k ns b ih =>
    intro hn
    rw [allNodes_group hq, Bool.and_eq_true] at hn
    obtain ⟨hk, hn⟩ := hn
    rw [allNodesL_iff] at hn
    rw [rmWs_group', allNodes_group hq, Bool.and_eq_true]
    refine ⟨hk, ?_⟩
    rw [allNodesL_iff]
    intro x hx
    simp only [List.mem_map, List.mem_filter] at hx
    obtain ⟨y, ⟨hy, _⟩, rfl⟩ := hx
    exact ih y hy (hn y hy)

/-- no whitespace node is left (below a node that is not itself whitespace) -/
theorem rmWs_elim (n : Node) : n.isWs = false → (rmWs n).allNodes (fun x => !x.isWs) = true := by
  induction n using Node.ind with
  | leaf n h =>
    intro hw
    rw [rmWs_leaf h, allNodes_leaf h]
    simp [hw]
  | group k ns b ih =>
    intro _
    rw [rmWs_group']
    simp only [Node.allNodes, Node.isWs, Bool.not_false, Bool.true_and]
    rw [allNodesL_iff]
    intro x hx
    simp only [List.mem_map, List.mem_filter] at hx
    obtain ⟨y, ⟨hy, hyw⟩, rfl⟩ := hx
    exact ih y hy (by cases y <;> simp_all [Node.isWs])

/-! ### do_boost, clean_boost -/

def Node.isBst : Node → Bool
  | .bst .. => true
  | _ => false

theorem setBoost_allNodes {q : Node → Bool} (hq : Stable q) (b : Rat) (n : Node) (h : n.allNodes q = true) :
    (setBoost b n).allNodes q = true := by
  cases n <;> simp_all [setBoost, Node.allNodes, hq.text]
  split <;> simp_all [Node.allNodes, hq.group]
  all_goals (rw [hq.group] at h ⊢; simp_all)

theorem doBoostStep_pres {q : Node → Bool} (hq : Stable q) (acc : List Node) (n : Node)
    (ha : allNodesL q acc = true) (hn : n.isBst = false → n.allNodes q = true) :
    allNodesL q (doBoostStep acc n) = true := by
  unfold doBoostStep
  split
  · next o b =>
    split
    · next p hp =>
      split
      · rw [allNodesL_append]
        have hd : acc = acc.dropLast ++ [p] := dropLast_append_getLast hp
        rw [hd, allNodesL_append] at ha
        simp only [Bool.and_eq_true] at ha ⊢
        refine ⟨ha.1, ?_⟩
        simp only [allNodesL, Bool.and_true] at ha ⊢
        exact setBoost_allNodes hq b p ha.2
      · rw [allNodesL_append]; simp [ha, allNodesL, allNodes_toWord hq]
    · rw [allNodesL_append]; simp [ha, allNodesL, allNodes_toWord hq]
  · next hnb =>
    rw [allNodesL_append]
    have : n.isBst = false := by cases n <;> simp_all [Node.isBst]
    simp [ha, allNodesL, hn this]

theorem doBoost_leaf {n : Node} (h : n.isGroup = false) : doBoost n = n := by
  cases n
  case group => simp [Node.isGroup] at h
  all_goals
    rw [doBoost]
    intro k ns b h; cases h

/-- a left fold whose step keeps the accumulator good keeps it good -/
theorem foldl_allNodesL {q : Node → Bool} (f : List Node → Node → List Node) (ns : List Node)
    (h : ∀ acc x, x ∈ ns → allNodesL q acc = true → allNodesL q (f acc x) = true)
    (acc : List Node) (ha : allNodesL q acc = true) : allNodesL q (ns.foldl f acc) = true := by
  induction ns generalizing acc with
  | nil => exact ha
  | cons x rest ih =>
    simp only [List.foldl_cons]
    exact ih (fun acc y hy => h acc y (by simp [hy])) _ (h acc x (by simp) ha)

theorem doBoost_pres {q : Node → Bool} (hq : Stable q) (n : Node) : n.allNodes q = true → (doBoost n).allNodes q = true := by
  induction n using Node.ind with
  | leaf n h => rw [doBoost_leaf h]; exact id
  | group k ns b ih =>
    intro hn
    rw [allNodes_group hq, Bool.and_eq_true] at hn
    obtain ⟨hk, hn⟩ := hn
    rw [allNodesL_iff] at hn
    rw [doBoost, allNodes_group hq, Bool.and_eq_true]
    refine ⟨hk, ?_⟩
    apply foldl_allNodesL _ ns _ [] rfl
    intro acc x hx ha
    cases hg : x.isGroup
    · have : ∀ (k : GK) (ns : List Node) (b : Rat), x = .group k ns b → False := by
        intro k ns b he; subst he; simp [Node.isGroup] at hg
      split
      · next k' ns' b' => exact absurd rfl (this k' ns' b')
      · exact doBoostStep_pres hq acc x ha (fun _ => hn x hx)
    · cases x <;> simp [Node.isGroup] at hg
      simp only
      rw [allNodesL_append]
      simp [ha, allNodesL, ih _ hx (hn _ hx)]

theorem stable_notBst : Stable (fun x => !x.isBst) := ⟨by intros; rfl, by intros; rfl, by intros; rfl⟩

/-- no boost node is left (below a node that is not itself one) -/
theorem doBoost_elim (n : Node) : n.isBst = false → (doBoost n).allNodes (fun x => !x.isBst) = true := by
  induction n using Node.ind with
  | leaf n h => intro hb; rw [doBoost_leaf h, allNodes_leaf h]; simp [hb]
  | group k ns b ih =>
    intro _
    rw [doBoost, allNodes_group stable_notBst, Bool.and_eq_true]
    refine ⟨rfl, ?_⟩
    apply foldl_allNodesL _ ns _ [] rfl
    intro acc x hx ha
    cases hg : x.isGroup
    · have : ∀ (k : GK) (ns : List Node) (b : Rat), x = .group k ns b → False := by
        intro k ns b he; subst he; simp [Node.isGroup] at hg
      split
      · next k' ns' b' => exact absurd rfl (this k' ns' b')
      · exact doBoostStep_pres stable_notBst acc x ha (fun hb => by rw [allNodes_leaf hg]; simp [hb])
    · cases x <;> simp [Node.isGroup] at hg
      simp only
      rw [allNodesL_append]
      simp [ha, allNodesL, ih _ hx rfl]

theorem cleanBoostL_pres {q : Node → Bool} (hq : Stable q) (prev : Option Node) (ns : List Node)
    (h : allNodesL q ns = true) : allNodesL q (cleanBoostL prev ns) = true := by
  induction ns generalizing prev with
  | nil => rfl
  | cons n rest ih =>
    simp only [allNodesL, Bool.and_eq_true] at h
    simp only [cleanBoostL, allNodesL, Bool.and_eq_true]
    refine ⟨?_, ih _ h.2⟩
    split
    · split
      · exact allNodes_toWord hq _
      · split
        · exact h.1
        · exact allNodes_toWord hq _
    · exact h.1

theorem cleanBoost_pres {q : Node → Bool} (hq : Stable q) (n : Node) (h : n.allNodes q = true) :
    (cleanBoost n).allNodes q = true := by
  cases n <;> simp_all [cleanBoost]
  rw [allNodes_group hq, Bool.and_eq_true] at h ⊢
  exact ⟨h.1, cleanBoostL_pres hq none _ h.2⟩


/-! ### do_groups -/

theorem allNodesL_flatten {q : Node → Bool} (ls : List (List Node)) (h : ∀ l ∈ ls, allNodesL q l = true) :
    allNodesL q ls.flatten = true := by
  induction ls with
  | nil => rfl
  | cons a t ih =>
    rw [List.flatten_cons, allNodesL_append, h a (by simp), ih (fun l hl => h l (by simp [hl]))]
    rfl

theorem doGroupsLoop_pres {q : Node → Bool} (hq : Stable q) (gk : GK) (hgk : q (.group gk [] 1) = true)
    (ns cur : List Node) (below : List (List Node))
    (hns : ∀ n ∈ ns, n.isBracket = true ∨ n.allNodes q = true)
    (hcur : allNodesL q cur = true) (hbelow : ∀ l ∈ below, allNodesL q l = true) :
    allNodesL q (doGroupsLoop gk ns cur below).1 = true ∧
    ∀ l ∈ (doGroupsLoop gk ns cur below).2, allNodesL q l = true := by
  induction ns generalizing cur below with
  | nil => rw [doGroupsLoop_nil]; exact ⟨hcur, hbelow⟩
  | cons n rest ih =>
    have hrest : ∀ m ∈ rest, m.isBracket = true ∨ m.allNodes q = true := fun m hm => hns m (by simp [hm])
    cases hb : n.isBracket
    · rw [doGroupsLoop_other gk n hb]
      apply ih _ _ hrest
      · rw [allNodesL_append]
        have := hns n (by simp)
        simp [hb] at this
        simp [hcur, allNodesL, this]
      · exact hbelow
    · cases n <;> simp [Node.isBracket] at hb
      · rw [doGroupsLoop_opn]
        refine ih _ _ hrest rfl ?_
        intro l hl
        simp only [List.mem_cons] at hl
        rcases hl with rfl | hl
        · exact hcur
        · exact hbelow l hl
      · cases below with
        | nil =>
          rw [doGroupsLoop]
          exact ih _ _ hrest hcur hbelow
        | cons b bs =>
          rw [doGroupsLoop_cls]
          apply ih _ _ hrest
          · rw [allNodesL_append]
            simp [hbelow b (by simp), allNodesL, allNodes_group hq, hcur, hgk]
          · exact fun l hl => hbelow l (by simp [hl])

/-- after `do_groups` every node satisfies `q` — in particular no bracket is left when `q`
    excludes brackets -/
theorem doGroups_pres {q : Node → Bool} (hq : Stable q) (gk : GK) (hgk : q (.group gk [] 1) = true)
    (ns : List Node)
    (hns : ∀ n ∈ ns, n.isBracket = true ∨ n.allNodes q = true) : (doGroups gk ns).allNodes q = true := by
  have := doGroupsLoop_pres hq gk hgk ns [] [] hns rfl (by simp)
  unfold doGroups
  generalize doGroupsLoop gk ns [] [] = r at this
  obtain ⟨cur, below⟩ := r
  simp only at this ⊢
  have htop : allNodesL q ((cur :: below).reverse).flatten = true := by
    apply allNodesL_flatten
    intro l hl
    simp only [List.mem_reverse, List.mem_cons] at hl
    rcases hl with rfl | hl
    · exact this.1
    · exact this.2 l hl
  split
  · next k ns' b heq =>
    rw [heq] at htop
    simp only [allNodesL, Bool.and_true, allNodes_group hq] at htop
    rw [allNodes_group hq]; exact htop
  · rw [allNodes_group hq, Bool.and_eq_true]; exact ⟨hgk, htop⟩

/-! ### do_wildcards -/

theorem allNodesL_eraseIdx {q : Node → Bool} (l : List Node) (i : Nat) (h : allNodesL q l = true) :
    allNodesL q (l.eraseIdx i) = true := by
  rw [allNodesL_iff] at h ⊢
  exact fun n hn => h n (List.mem_of_mem_eraseIdx hn)

theorem allNodesL_set {q : Node → Bool} (l : List Node) (i : Nat) (v : Node) (h : allNodesL q l = true)
    (hv : v.allNodes q = true) : allNodesL q (l.set i v) = true := by
  rw [allNodesL_iff] at h ⊢
  intro n hn
  rcases List.mem_or_eq_of_mem_set hn with h1 | h1
  · exact h n h1
  · subst h1; exact hv

theorem pyDel_pres {q : Node → Bool} {l l' : List Node} {i : Int} (hd : pyDel l i = .ok l')
    (h : allNodesL q l = true) : allNodesL q l' = true := by
  unfold pyDel at hd
  split at hd
  · injection hd with hd; subst hd; exact allNodesL_eraseIdx l _ h
  · cases hd

theorem wildNext_pres {q : Node → Bool} (hq : Stable q) {group g1 : List Node} {i : Nat} {t t1 : Str}
    {f : Option Str} {b : Rat} (h : wildNext group i t f b = .ok (g1, t1)) (hg : allNodesL q group = true) :
    allNodesL q g1 = true := by
  unfold wildNext at h
  split at h
  · split at h
    · cases h
    · split at h
      · cases h
      · next g hd =>
        simp only [Except.ok.injEq, Prod.mk.injEq] at h
        rw [← h.1]
        exact allNodesL_set _ _ _ (pyDel_pres hd hg) (by simp [Node.allNodes, hq.text])
    · simp only [Except.ok.injEq, Prod.mk.injEq] at h; rw [← h.1]; exact hg
  · simp only [Except.ok.injEq, Prod.mk.injEq] at h; rw [← h.1]; exact hg

theorem wildStep_pres {q : Node → Bool} (hq : Stable q) {group g' : List Node} {i i' : Nat}
    (h : wildStep group i = .ok (g', i')) (hg : allNodesL q group = true) : allNodesL q g' = true := by
  unfold wildStep at h
  split at h
  · cases h
  · split at h
    · cases h
    · next g1 t1 hn =>
      have h1 := wildNext_pres hq hn hg
      split at h
      · split at h
        · cases h
        · split at h
          · cases h
          · next g2 hd =>
            simp only [Except.ok.injEq, Prod.mk.injEq] at h
            rw [← h.1]
            exact allNodesL_set _ _ _ (pyDel_pres hd h1) (by simp [Node.allNodes, hq.text])
        · simp only [Except.ok.injEq, Prod.mk.injEq] at h; rw [← h.1]; exact h1
      · simp only [Except.ok.injEq, Prod.mk.injEq] at h; rw [← h.1]; exact h1
  · simp only [Except.ok.injEq, Prod.mk.injEq] at h; rw [← h.1]; exact hg

theorem wildLoop_pres {q : Node → Bool} (hq : Stable q) (group : List Node) (i : Nat) {r : List Node}
    (h : wildLoop group i = .ok r) (hg : allNodesL q group = true) : allNodesL q r = true := by
  fun_induction wildLoop group i with
  | case1 group i hi e hs => cases h
  | case2 group i hi g1 i1 hs ih => exact ih h (wildStep_pres hq hs hg)
  | case3 group i hi => injection h with h; subst h; exact hg

theorem toPrefix_pres {q : Node → Bool} (hq : Stable q) (n : Node) (h : n.allNodes q = true) :
    (toPrefix n).allNodes q = true := by
  unfold toPrefix
  split
  · split
    · split <;> simp [Node.allNodes, hq.text]
    · exact h
  · exact h

theorem doWildcards_pres {q : Node → Bool} (hq : Stable q) (n : Node) :
    ∀ r, doWildcards n = .ok r → n.allNodes q = true → r.allNodes q = true := by
  induction n using Node.ind with
  | leaf n h => intro r hr; rw [doWildcards_nongroup h] at hr; injection hr with hr; subst hr; exact id
  | group k ns b ih =>
    intro r hr hn
    rw [allNodes_group hq, Bool.and_eq_true] at hn
    obtain ⟨hk, hn⟩ := hn
    rw [allNodesL_iff] at hn
    rw [doWildcards] at hr
    simp only [bind, Except.bind] at hr
    split at hr
    · cases hr
    · next ns1 h1 =>
      split at hr
      · cases hr
      · next ns2 h2 =>
        simp only [pure, Except.pure, Except.ok.injEq] at hr
        subst hr
        rw [allNodes_group hq, Bool.and_eq_true]
        refine ⟨hk, ?_⟩
        rw [allNodesL_iff]
        have hns1 : allNodesL q ns1 = true := by
          rw [allNodesL_iff]
          intro y hy
          obtain ⟨x, hx, hfx⟩ := mapM_mem h1 hy
          exact ih x hx y hfx (hn x hx)
        have hns2 := wildLoop_pres hq ns1 0 h2 hns1
        rw [allNodesL_iff] at hns2
        intro y hy
        simp only [List.mem_map] at hy
        obtain ⟨x, hx, rfl⟩ := hy
        exact toPrefix_pres hq x (hns2 x hx)


/-! ### do_fieldnames -/

theorem setFieldname_group (name : Str) (ov : Bool) (k : GK) (ns : List Node) (b : Rat) :
    setFieldname name ov (.group k ns b) = .group k (ns.map (setFieldname name ov)) b := by rw [setFieldname]

/-- `set_fieldname(name, override=False)` changes no node's kind -/
theorem setFieldname_pres {q : Node → Bool} (hq : Stable q) (name : Str) (n : Node) :
    n.allNodes q = true → (setFieldname name false n).allNodes q = true := by
  induction n using Node.ind with
  | leaf n h =>
    intro hn
    cases n <;> simp [Node.isGroup] at h <;> rw [setFieldname] <;> simp_all [Node.allNodes, hq.text, hq.range]
  | group k ns b ih =>
    intro hn
    rw [allNodes_group hq, Bool.and_eq_true] at hn
    obtain ⟨hk, hn⟩ := hn
    rw [allNodesL_iff] at hn
    rw [setFieldname_group, allNodes_group hq, Bool.and_eq_true]
    refine ⟨hk, ?_⟩
    rw [allNodesL_iff]
    intro y hy
    simp only [List.mem_map] at hy
    obtain ⟨x, hx, rfl⟩ := hy
    exact ih x hx (hn x hx)

theorem fnToWord_pres {q : Node → Bool} (hq : Stable q) (n : Node) (h : n.isFname = true ∨ n.allNodes q = true) :
    (fnToWord n).allNodes q = true := by
  cases n <;> simp_all [fnToWord, Node.isFname, allNodes_toWord hq]

theorem fnRev_pres {q : Node → Bool} (hq : Stable q) (l : List Node)
    (h : ∀ y ∈ l, y.isFname = true ∨ y.allNodes q = true) : allNodesL q (fnRev l) = true := by
  induction hn : l.length using Nat.strongRecOn generalizing l with
  | _ n ih =>
    cases l with
    | nil => simp [fnRev, allNodesL]
    | cons a rest =>
      rw [fnRev_cons]
      have ha := fnToWord_pres hq a (h a (by simp))
      have hrest : ∀ y ∈ rest, y.isFname = true ∨ y.allNodes q = true := fun y hy => h y (by simp [hy])
      have ihr := ih rest.length (by subst hn; simp) rest hrest rfl
      split
      · next name o prevs' =>
        split
        · simp only [allNodesL, Bool.and_eq_true]
          exact ⟨setFieldname_pres hq name _ ha,
            ih prevs'.length (by subst hn; simp; omega) prevs' (fun y hy => hrest y (by simp [hy])) rfl⟩
        · simp only [allNodesL, Bool.and_eq_true]; exact ⟨ha, ihr⟩
      · simp only [allNodesL, Bool.and_eq_true]; exact ⟨ha, ihr⟩

theorem fnStage1_pres {q : Node → Bool} (hq : Stable q) (c : Cfg) (prev : Option Str) (l : List Node)
    (h : ∀ y ∈ l, y.isFname = true ∨ y.allNodes q = true) :
    ∀ y ∈ fnStage1 c prev l, y.isFname = true ∨ y.allNodes q = true := by
  induction l generalizing prev with
  | nil =>
    intro y hy
    cases prev <;> simp [fnStage1] at hy
    subst hy; exact Or.inr (allNodes_toWord hq _)
  | cons n rest ih =>
    have hrest : ∀ y ∈ rest, y.isFname = true ∨ y.allNodes q = true := fun y hy => h y (by simp [hy])
    have hn := h n (by simp)
    intro y hy
    simp only [fnStage1] at hy
    split at hy
    · exact ih _ hrest y hy
    · split at hy
      · split at hy
        · simp only [List.mem_cons] at hy
          rcases hy with rfl | hy
          · exact Or.inr (by simp [Node.allNodes, hq.text])
          · exact ih _ hrest y hy
        · simp only [List.mem_cons] at hy
          rcases hy with rfl | rfl | hy
          · exact Or.inr (allNodes_toWord hq _)
          · exact hn
          · exact ih _ hrest y hy
      · simp only [List.mem_cons] at hy
        rcases hy with rfl | hy
        · exact hn
        · exact ih _ hrest y hy

theorem fieldsOut_of_eq {c : Cfg} {n r : Node} (h : doFieldnames c n = .ok r) : fieldsOut c n = r := by
  simp [fieldsOut, h]

theorem stable_notFname : Stable (fun x => !x.isFname) := ⟨by intros; rfl, by intros; rfl, by intros; rfl⟩

/-- `q ∧ not a field prefix` -/
def andNotFname (q : Node → Bool) : Node → Bool := fun x => q x && !x.isFname

theorem stable_andNotFname {q : Node → Bool} (hq : Stable q) : Stable (andNotFname q) :=
  ⟨by intros; simp [andNotFname, hq.text, Node.isFname], by intros; simp [andNotFname, hq.range, Node.isFname],
   by intro k ns b; simp only [andNotFname, Node.isFname]; rw [hq.group]⟩

/-- `do_fieldnames` keeps every stable property and leaves no field prefix behind -/
theorem fieldsOut_pres {q : Node → Bool} (hq : Stable q) (c : Cfg) (n : Node) :
    n.allNodes q = true → n.isFname = true ∨ (fieldsOut c n).allNodes (andNotFname q) = true := by
  induction n using Node.ind with
  | leaf n h =>
    intro hn
    rw [fieldsOut_nongroup c h]
    cases hf : n.isFname
    · right
      rw [allNodes_leaf h] at hn ⊢
      simp [andNotFname, hn, hf]
    · exact Or.inl rfl
  | group k ns b ih =>
    intro hn
    right
    rw [allNodes_group hq, Bool.and_eq_true] at hn
    obtain ⟨hk, hn⟩ := hn
    rw [allNodesL_iff] at hn
    have hq' := stable_andNotFname hq
    have := doFieldnames_group c k ns b
    rw [fieldsOut_of_eq this]
    rw [allNodes_group hq', Bool.and_eq_true]
    refine ⟨by simp [andNotFname, hk, Node.isFname], ?_⟩
    unfold fieldsScan
    rw [allNodesL_iff]
    intro y hy
    have hfr := fnRev_pres hq' ((stage1 c (ns.map (fieldsOut c))).reverse) (by
      intro z hz
      rw [List.mem_reverse] at hz
      have hall : ∀ w ∈ ns.map (fieldsOut c), w.isFname = true ∨ w.allNodes (andNotFname q) = true := by
        intro w hw
        simp only [List.mem_map] at hw
        obtain ⟨x, hx, rfl⟩ := hw
        rcases ih x hx (hn x hx) with h1 | h1
        · left
          cases hg : x.isGroup
          · rw [fieldsOut_nongroup c hg]; exact h1
          · cases x <;> simp_all [Node.isGroup, Node.isFname]
        · exact Or.inr h1
      unfold stage1 at hz
      split at hz
      · exact fnStage1_pres hq' c none _ hall z hz
      · exact hall z hz)
    rw [allNodesL_iff] at hfr
    exact hfr y (List.mem_reverse.1 hy)


/-! ### do_operators -/

/-- a binary group has at most two operands (`hasBoost` is False exactly for `BinaryGroup`s) -/
def binOK : Node → Bool
  | .group k ns _ => k.hasBoost || decide (ns.length ≤ 2)
  | _ => true

/-- predicates that hold of text/range nodes, and of a group whenever it is not a binary group
    or has at most two members -/
structure GStable (q : Node → Bool) : Prop where
  text : ∀ k t f b, q (.text k t f b) = true
  range : ∀ s e sx ex f, q (.range s e sx ex f) = true
  group : ∀ k ns b, (k.hasBoost = true ∨ ns.length ≤ 2) → q (.group k ns b) = true

theorem Stable.toG {q : Node → Bool} (h : Stable q) (hall : ∀ k, q (.group k [] 1) = true) : GStable q :=
  ⟨h.text, h.range, fun k ns b _ => by rw [h.group]; exact hall k⟩
theorem gstable_binOK : GStable binOK :=
  ⟨by intros; rfl, by intros; rfl, by intro k ns b h; rcases h with h | h <;> simp [binOK, h]⟩

theorem merging_hasBoost {g : GK} (h : g.merging = true) : g.hasBoost = true := by
  cases g <;> simp_all [GK.merging, GK.hasBoost]

theorem allNodes_group_of {q : Node → Bool} (k : GK) (ns : List Node) (b : Rat)
    (hg : q (.group k ns b) = true) (hns : allNodesL q ns = true) : (Node.group k ns b).allNodes q = true := by
  simp [Node.allNodes, hg, hns]

theorem allNodes_group_children {q : Node → Bool} {k : GK} {ns : List Node} {b : Rat}
    (h : (Node.group k ns b).allNodes q = true) : allNodesL q ns = true := by
  simp only [Node.allNodes, Bool.and_eq_true] at h; exact h.2

theorem combineL_pres {q : Node → Bool} (hq : GStable q) (g : GK) (left y : Node)
    (hl : left.allNodes q = true) (hy : y.allNodes q = true) : (combineL g left y).allNodes q = true := by
  unfold combineL
  split
  · next ns b h =>
    split at h
    · next hm =>
      have := groupOf?_some h
      subst this
      apply allNodes_group_of _ _ _ (hq.group _ _ _ (Or.inl (merging_hasBoost hm)))
      rw [allNodesL_append]
      simp [allNodes_group_children hl, allNodesL, hy]
    · cases h
  · apply allNodes_group_of _ _ _ (hq.group _ _ _ (Or.inr (by simp)))
    simp [allNodesL, hl, hy]

theorem single_group_pres {q : Node → Bool} (hq : GStable q) (g : GK) (y : Node) (hy : y.allNodes q = true) :
    (Node.group g [y] 1).allNodes q = true :=
  allNodes_group_of _ _ _ (hq.group _ _ _ (Or.inr (by simp))) (by simp [allNodesL, hy])

theorem allNodesL_dropLast {q : Node → Bool} {l : List Node} (h : allNodesL q l = true) :
    allNodesL q l.dropLast = true := by
  rw [allNodesL_iff] at h ⊢
  exact fun n hn => h n (mem_dropLast hn)

theorem allNodesL_getLast {q : Node → Bool} {l : List Node} {a : Node} (h : allNodesL q l = true)
    (ha : l.getLast? = some a) : a.allNodes q = true := by
  rw [allNodesL_iff] at h
  exact h a (List.mem_of_getLast? ha)

theorem allNodesL_snoc {q : Node → Bool} {l : List Node} {a : Node} (h : allNodesL q l = true)
    (ha : a.allNodes q = true) : allNodesL q (l ++ [a]) = true := by
  rw [allNodesL_append]; simp [h, allNodesL, ha]

theorem allNodesL_cons {q : Node → Bool} {l : List Node} {a : Node} :
    allNodesL q (a :: l) = true ↔ a.allNodes q = true ∧ allNodesL q l = true := by
  simp [allNodesL]

/-- the scan only regroups nodes -/
theorem passZ_pres {q : Node → Bool} (hq : GStable q) (o : OpCfg) (done rest : List Node)
    (hd : allNodesL q done = true) (hr : allNodesL q rest = true) : allNodesL q (passZ o done rest) = true := by
  fun_induction passZ o done rest with
  | case1 done => exact hd
  | case2 done y hy hinf => exact hd
  | case3 done y hy hpre => exact hd
  | case4 done y hy hpost left hl =>
    exact allNodesL_snoc (allNodesL_dropLast hd) (single_group_pres hq _ _ (allNodesL_getLast hd hl))
  | case5 done y hy hpost hl => exact hd
  | case6 done y hy => exact allNodesL_snoc hd (allNodesL_cons.1 hr).1
  | case7 done y z rest hy hinf left hl ih =>
    have h1 := allNodesL_cons.1 hr
    have h2 := allNodesL_cons.1 h1.2
    exact ih (allNodesL_snoc (allNodesL_dropLast hd) (combineL_pres hq _ _ _ (allNodesL_getLast hd hl) h2.1)) h2.2
  | case8 done y z rest hy hinf hl ih => exact ih hd (allNodesL_cons.1 hr).2
  | case9 done y z rest hy hpre ih =>
    have h1 := allNodesL_cons.1 hr
    have h2 := allNodesL_cons.1 h1.2
    exact ih (allNodesL_snoc hd (single_group_pres hq _ _ h2.1)) h2.2
  | case10 done y z rest hy hpost left hl ih =>
    exact ih (allNodesL_snoc (allNodesL_dropLast hd) (single_group_pres hq _ _ (allNodesL_getLast hd hl)))
      (allNodesL_cons.1 hr).2
  | case11 done y z rest hy hpost hl ih => exact ih hd (allNodesL_cons.1 hr).2
  | case12 done y z rest hy ih => exact ih (allNodesL_snoc hd (allNodesL_cons.1 hr).1) (allNodesL_cons.1 hr).2

theorem combineL_notOp (o : OpCfg) (g : GK) (a b : Node) : (combineL g a b).isOpOf o = false := by
  have := combineL_isGroup g a b
  cases h : combineL g a b <;> simp_all [Node.isGroup, Node.isOpOf]

/-- after the scan for a tagger no operator of that tagger is left in the list -/
theorem passZ_noop (o : OpCfg) (done rest : List Node) (hd : ∀ d ∈ done, d.isOpOf o = false) :
    ∀ x ∈ passZ o done rest, x.isOpOf o = false := by
  have snoc : ∀ (l : List Node) (a : Node), (∀ d ∈ l, d.isOpOf o = false) → a.isOpOf o = false →
      ∀ d ∈ l ++ [a], d.isOpOf o = false := by
    intro l a hl ha d hd
    simp only [List.mem_append, List.mem_singleton] at hd
    rcases hd with h | h
    · exact hl d h
    · subst h; exact ha
  have dl : ∀ (l : List Node), (∀ d ∈ l, d.isOpOf o = false) → ∀ d ∈ l.dropLast, d.isOpOf o = false :=
    fun l hl d hd => hl d (mem_dropLast hd)
  fun_induction passZ o done rest with
  | case1 done => exact hd
  | case2 done y hy hinf => exact hd
  | case3 done y hy hpre => exact hd
  | case4 done y hy hpost left hl => exact snoc _ _ (dl _ hd) rfl
  | case5 done y hy hpost hl => exact hd
  | case6 done y hy => exact snoc _ _ hd (by simpa using hy)
  | case7 done y z rest hy hinf left hl ih => exact ih (snoc _ _ (dl _ hd) (combineL_notOp o _ _ _))
  | case8 done y z rest hy hinf hl ih => exact ih hd
  | case9 done y z rest hy hpre ih => exact ih (snoc _ _ hd rfl)
  | case10 done y z rest hy hpost left hl ih => exact ih (snoc _ _ (dl _ hd) rfl)
  | case11 done y z rest hy hpost hl ih => exact ih hd
  | case12 done y z rest hy ih => exact ih (snoc _ _ hd (by simpa using hy))

theorem passZ_length (o : OpCfg) (done rest : List Node) :
    (passZ o done rest).length ≤ done.length + rest.length := by
  fun_induction passZ o done rest with
  | case1 done => simp
  | case2 done y hy hinf => simp
  | case3 done y hy hpre => simp
  | case4 done y hy hpost left hl => simp
  | case5 done y hy hpost hl => simp
  | case6 done y hy => simp
  | case7 done y z rest hy hinf left hl ih => simp at ih ⊢; omega
  | case8 done y z rest hy hinf hl ih => simp at ih ⊢; omega
  | case9 done y z rest hy hpre ih => simp at ih ⊢; omega
  | case10 done y z rest hy hpost left hl ih => simp at ih ⊢; omega
  | case11 done y z rest hy hpost hl ih => simp at ih ⊢; omega
  | case12 done y z rest hy ih => simp at ih ⊢; omega


theorem passesZ_nil (l : List Node) : passesZ [] l = l := rfl
theorem passesZ_cons (o : OpCfg) (ops : List OpCfg) (l : List Node) :
    passesZ (o :: ops) l = passesZ ops (passZ o [] l) := rfl

theorem passesZ_pres {q : Node → Bool} (hq : GStable q) (ops : List OpCfg) (l : List Node)
    (h : allNodesL q l = true) : allNodesL q (passesZ ops l) = true := by
  induction ops generalizing l with
  | nil => exact h
  | cons o ops ih => rw [passesZ_cons]; exact ih _ (passZ_pres hq o [] l rfl h)

theorem passesZ_length (ops : List OpCfg) (l : List Node) : (passesZ ops l).length ≤ l.length := by
  induction ops generalizing l with
  | nil => exact Nat.le_refl _
  | cons o ops ih =>
    rw [passesZ_cons]
    have := passZ_length o [] l
    have := ih (passZ o [] l)
    simp at *; omega

theorem passesZ_keeps_noop (o : OpCfg) (ops : List OpCfg) (l : List Node) (h : ∀ x ∈ l, x.isOpOf o = false) :
    ∀ x ∈ passesZ ops l, x.isOpOf o = false := by
  induction ops generalizing l with
  | nil => exact h
  | cons o' ops ih =>
    rw [passesZ_cons]
    apply ih
    intro x hx
    rcases passZ_mem o' [] l x hx with h1 | h1 | h1
    · cases h1
    · exact h x h1
    · cases x <;> simp_all [Node.isGroup, Node.isOpOf]

theorem passesZ_noop (ops : List OpCfg) (l : List Node) :
    ∀ o ∈ ops, ∀ x ∈ passesZ ops l, x.isOpOf o = false := by
  induction ops generalizing l with
  | nil => intro o ho; cases ho
  | cons o' ops ih =>
    intro o ho
    rw [passesZ_cons]
    simp only [List.mem_cons] at ho
    rcases ho with rfl | ho
    · exact passesZ_keeps_noop o ops _ (passZ_noop o [] l (by simp))
    · exact ih _ o ho

/-- every operator node is one of the default operators and left-associative -/
def opOK : Node → Bool
  | .op t g la _ => la && defaultOps.any (fun o => o.t == t && o.g == g)
  | _ => true

theorem stable_opOK : Stable opOK := ⟨by intros; rfl, by intros; rfl, by intros; rfl⟩

theorem opOK_laOK {x : Node} (h : opOK x = true) : x.laOK = true := by
  cases x <;> simp_all [opOK, Node.laOK]

theorem opOK_noop_notOp {x : Node} (h : opOK x = true) (hn : ∀ o ∈ defaultOps, x.isOpOf o = false) :
    x.isOp = false := by
  cases x <;> simp_all [Node.isOp]
  rename_i t g la txt
  simp only [opOK, Bool.and_eq_true, List.any_eq_true] at h
  obtain ⟨_, o, ho, heq⟩ := h
  have := hn o ho
  simp only [Node.isOpOf] at this
  simp only [Bool.and_eq_true, beq_iff_eq] at heq
  simp [heq.1, heq.2] at this

/-- `q` and not an operator -/
def andNotOp (q : Node → Bool) : Node → Bool := fun x => q x && !x.isOp

/-- `do_operators` with the default taggers keeps every stable property, leaves no operator node
    and builds binary groups with at most two operands. -/
theorem opsOut_clean {q : Node → Bool} (hq : Stable q) (hall : ∀ k, q (.group k [] 1) = true) (n : Node) :
    n.allNodes q = true → n.allNodes opOK = true → n.allNodes binOK = true → n.isOp = false →
    (opsOut defaultOps n).allNodes (andNotOp q) = true ∧ (opsOut defaultOps n).allNodes binOK = true := by
  induction hsz : n.size using Nat.strongRecOn generalizing n with
  | _ sz ih =>
    intro h1 h2 h3 h4
    cases hg : n.isGroup
    · rw [opsOut_of_eq (doOperators_nongroup defaultOps hg)]
      rw [allNodes_leaf hg] at h1 ⊢
      exact ⟨by simp [andNotOp, h1, h4], h3⟩
    · cases n <;> simp [Node.isGroup] at hg
      rename_i k ns b
      have c1 := allNodes_group_children h1
      have c2 := allNodes_group_children h2
      have c3 := allNodes_group_children h3
      have hla : ∀ x ∈ ns, x.laOK = true := by
        intro x hx
        exact opOK_laOK (allNodes_self ((allNodesL_iff.1 c2) x hx))
      have hp : opPasses defaultOps ns = .ok (passesZ defaultOps ns) :=
        opPasses_eq_passesZ defaultOps
          (by intro o ho; simp [defaultOps] at ho; rcases ho with h | h | h | h | h | h <;> subst h <;> rfl) ns hla
      have hsize := opPasses_size hp
      have hres := doOperators_group defaultOps k ns _ b (opsOut defaultOps) hp
        (fun x _ => doOperators_eq_opsOut _ x)
      rw [opsOut_of_eq hres]
      have p1 := passesZ_pres (hq.toG hall) defaultOps ns c1
      have p2 := passesZ_pres (stable_opOK.toG (fun _ => rfl)) defaultOps ns c2
      have p3 := passesZ_pres gstable_binOK defaultOps ns c3
      have hchild : ∀ x ∈ passesZ defaultOps ns,
          (opsOut defaultOps x).allNodes (andNotOp q) = true ∧ (opsOut defaultOps x).allNodes binOK = true := by
        intro x hx
        have hs := size_mem hx
        apply ih x.size (by subst hsz; simp only [Node.size]; omega) x rfl
          ((allNodesL_iff.1 p1) x hx) ((allNodesL_iff.1 p2) x hx) ((allNodesL_iff.1 p3) x hx)
        exact opOK_noop_notOp (allNodes_self ((allNodesL_iff.1 p2) x hx))
          (fun o ho => passesZ_noop defaultOps ns o ho x hx)
      constructor
      · apply allNodes_group_of
        · simp only [andNotOp, Node.isOp, Bool.not_false, Bool.and_true]; rw [hq.group]; exact hall k
        · rw [allNodesL_iff]
          intro y hy
          simp only [List.mem_map] at hy
          obtain ⟨x, hx, rfl⟩ := hy
          exact (hchild x hx).1
      · apply allNodes_group_of
        · have hb : binOK (.group k ns b) = true := allNodes_self h3
          simp only [binOK, Bool.or_eq_true, decide_eq_true_eq, List.length_map] at hb ⊢
          rcases hb with hb | hb
          · exact Or.inl hb
          · exact Or.inr (by have := passesZ_length defaultOps ns; omega)
        · rw [allNodesL_iff]
          intro y hy
          simp only [List.mem_map] at hy
          obtain ⟨x, hx, rfl⟩ := hy
          exact (hchild x hx).2


/-! ### assembling the default pipeline -/

theorem allNodes_and (p r : Node → Bool) (n : Node) :
    n.allNodes (fun x => p x && r x) = (n.allNodes p && n.allNodes r) := by
  induction n using Node.ind with
  | leaf n h => rw [allNodes_leaf h, allNodes_leaf h, allNodes_leaf h]
  | group k ns b ih =>
    simp only [Node.allNodes]
    have : allNodesL (fun x => p x && r x) ns = (allNodesL p ns && allNodesL r ns) := by
      induction ns with
      | nil => rfl
      | cons a t iht =>
        simp only [allNodesL]
        rw [ih a (by simp), iht (fun x hx => ih x (by simp [hx]))]
        cases a.allNodes p <;> cases a.allNodes r <;> cases allNodesL p t <;> cases allNodesL r t <;> rfl
    rw [this]
    cases p (.group k ns b) <;> cases r (.group k ns b) <;> cases allNodesL p ns <;> cases allNodesL r ns <;> rfl

theorem allNodes_mono {p r : Node → Bool} (h : ∀ x, p x = true → r x = true) (n : Node) :
    n.allNodes p = true → n.allNodes r = true := by
  induction n using Node.ind with
  | leaf n hl => rw [allNodes_leaf hl, allNodes_leaf hl]; exact h n
  | group k ns b ih =>
    simp only [Node.allNodes, Bool.and_eq_true]
    intro hn
    refine ⟨h _ hn.1, ?_⟩
    rw [allNodesL_iff] at hn ⊢
    exact fun x hx => ih x hx (hn.2 x hx)

/-- the node is none of plus / minus / fuzziness / comparison sign and, if an operator, a
    default left-associative one -/
def baseOK : Node → Bool
  | .plus | .minus | .fuzz .. | .gtlt .. => false
  | x => opOK x

/-- no group of a `BinaryGroup` class -/
def noBin : Node → Bool
  | .group k _ _ => k.hasBoost
  | _ => true

theorem stable_baseOK : Stable baseOK := ⟨by intros; rfl, by intros; rfl, by intros; rfl⟩
theorem stable_noBin : Stable noBin := ⟨by intros; rfl, by intros; rfl, by intros; rfl⟩
theorem stable_notWs : Stable (fun x => !x.isWs) := ⟨by intros; rfl, by intros; rfl, by intros; rfl⟩
theorem stable_notBracket : Stable (fun x => !x.isBracket) := ⟨by intros; rfl, by intros; rfl, by intros; rfl⟩

theorem stable_and {p r : Node → Bool} (hp : Stable p) (hr : Stable r) : Stable (fun x => p x && r x) :=
  ⟨by intros; simp [hp.text, hr.text], by intros; simp [hp.range, hr.range],
   by intro k ns b; show (p _ && r _) = (p _ && r _); rw [hp.group, hr.group]⟩

/-- nodes that have a `query()` of their own -/
def Node.hasQuery : Node → Bool
  | .text .. | .range .. | .every | .group .. => true
  | _ => false

theorem all_map_clean (f g : Node → Bool) (l : List Node) (h : ∀ x ∈ l, f x = g.comp id x) :
    (l.map f).all id = (l.map g).all id := by
  induction l with
  | nil => rfl
  | cons a t ih =>
    simp only [List.map_cons, List.all_cons, id]
    rw [h a (by simp), ih (fun x hx => h x (by simp [hx]))]
    rfl

theorem allNodesL_eq_all (q : Node → Bool) (l : List Node) :
    allNodesL q l = (l.map (Node.allNodes q)).all id := by
  induction l with
  | nil => rfl
  | cons a t ih => simp only [allNodesL, List.map_cons, List.all_cons, id, ih]

theorem clean_eq_allNodes (n : Node) : clean n = n.allNodes (fun x => x.hasQuery && binOK x) := by
  induction n using Node.ind with
  | leaf n h =>
    rw [allNodes_leaf h]
    cases n
    case group => simp [Node.isGroup] at h
    all_goals
      rw [clean]
      all_goals first
        | rfl
        | (intros; simp_all)
  | group k ns b ih =>
    rw [clean]
    have : (ns.map clean).all id = allNodesL (fun x => x.hasQuery && binOK x) ns := by
      rw [allNodesL_eq_all]
      exact all_map_clean _ _ ns (fun x hx => ih x hx)
    rw [this]
    simp [Node.allNodes, Node.hasQuery, binOK]

/-! ### do_multifield, do_plusminus -/

theorem doMultifield_group (c : Cfg) (k : GK) (ns : List Node) (b : Rat) :
    doMultifield c (.group k ns b) = .group k (ns.map (doMultifield c)) b := by rw [doMultifield]

theorem doMultifield_leaf (c : Cfg) {n : Node} (h : n.isGroup = false) :
    doMultifield c n = if n.hasFieldname ∧ n.fieldname.isNone then
      .group c.mfGroup (c.mfFields.map fun (fname, boost) => setBoost boost (setFieldname fname false n)) 1
    else n := by
  cases n
  case group => simp [Node.isGroup] at h
  all_goals
    rw [doMultifield]
    intro k ns b h; cases h

theorem doMultifield_pres {q : Node → Bool} (hq : Stable q) (c : Cfg) (hmf : q (.group c.mfGroup [] 1) = true)
    (n : Node) : n.allNodes q = true → (doMultifield c n).allNodes q = true := by
  induction n using Node.ind with
  | leaf n h =>
    intro hn
    rw [doMultifield_leaf c h]
    split
    · rw [allNodes_group hq, Bool.and_eq_true]
      refine ⟨hmf, ?_⟩
      rw [allNodesL_iff]
      intro y hy
      simp only [List.mem_map] at hy
      obtain ⟨⟨fname, boost⟩, _, rfl⟩ := hy
      exact setBoost_allNodes hq _ _ (setFieldname_pres hq _ _ hn)
    · exact hn
  | group k ns b ih =>
    intro hn
    rw [allNodes_group hq, Bool.and_eq_true] at hn
    rw [doMultifield_group, allNodes_group hq, Bool.and_eq_true]
    refine ⟨hn.1, ?_⟩
    rw [allNodesL_iff]
    intro y hy
    simp only [List.mem_map] at hy
    obtain ⟨x, hx, rfl⟩ := hy
    exact ih x hx ((allNodesL_iff.1 hn.2) x hx)

def Node.isPM : Node → Bool
  | .plus | .minus => true
  | _ => false

theorem plusMinusLoop_pres {q : Node → Bool} (l : List Node) (nx : PMNext) (req opt ban : List Node)
    (hl : ∀ n ∈ l, n.isPM = true ∨ n.allNodes q = true)
    (h1 : allNodesL q req = true) (h2 : allNodesL q opt = true) (h3 : allNodesL q ban = true) :
    allNodesL q (plusMinusLoop l nx req opt ban).1 = true ∧
    allNodesL q (plusMinusLoop l nx req opt ban).2.1 = true ∧
    allNodesL q (plusMinusLoop l nx req opt ban).2.2 = true := by
  induction l generalizing nx req opt ban with
  | nil => simp [plusMinusLoop, h1, h2, h3]
  | cons n rest ih =>
    have hrest : ∀ m ∈ rest, m.isPM = true ∨ m.allNodes q = true := fun m hm => hl m (by simp [hm])
    have hn := hl n (by simp)
    cases hp : n.isPM
    · simp [hp] at hn
      cases nx
      · have : plusMinusLoop (n :: rest) .optional req opt ban = plusMinusLoop rest .optional req (opt ++ [n]) ban := by
          cases n <;> simp_all [Node.isPM, plusMinusLoop]
        rw [this]; exact ih _ _ _ _ hrest h1 (allNodesL_snoc h2 hn) h3
      · have : plusMinusLoop (n :: rest) .required req opt ban = plusMinusLoop rest .optional (req ++ [n]) opt ban := by
          cases n <;> simp_all [Node.isPM, plusMinusLoop]
        rw [this]; exact ih _ _ _ _ hrest (allNodesL_snoc h1 hn) h2 h3
      · have : plusMinusLoop (n :: rest) .banned req opt ban = plusMinusLoop rest .optional req opt (ban ++ [n]) := by
          cases n <;> simp_all [Node.isPM, plusMinusLoop]
        rw [this]; exact ih _ _ _ _ hrest h1 h2 (allNodesL_snoc h3 hn)
    · cases n <;> simp [Node.isPM] at hp
      · rw [plusMinusLoop]; exact ih _ _ _ _ hrest h1 h2 h3
      · rw [plusMinusLoop]; exact ih _ _ _ _ hrest h1 h2 h3

theorem doPlusMinus_group (k : GK) (ns : List Node) (b : Rat) :
    doPlusMinus (.group k ns b) =
      match plusMinusLoop (ns.map doPlusMinus) .optional [] [] [] with
      | (req, opt, ban) =>
        if req.isEmpty then
          if ban.isEmpty then .group k opt b
          else .group .andnot [.group k opt b, .group .or ban 1] 1
        else
          if ban.isEmpty then .group .andmaybe [.group .and req 1, .group k opt b] 1
          else .group .andnot [.group .andmaybe [.group .and req 1, .group k opt b] 1, .group .or ban 1] 1 := by
  rw [doPlusMinus]

theorem doPlusMinus_leaf {n : Node} (h : n.isGroup = false) : doPlusMinus n = n := by
  cases n
  case group => simp [Node.isGroup] at h
  all_goals
    rw [doPlusMinus]
    intro k ns b h; cases h

/-- `do_plusminus` (recursive, as repaired) leaves no plus/minus marker and builds binary groups
    with exactly two operands; `q` has to hold of every group class -/
theorem doPlusMinus_pres {q : Node → Bool} (hq : Stable q) (hall : ∀ k, q (.group k [] 1) = true) (n : Node) :
    n.isPM = true ∨ (n.allNodes q = true ∧ n.allNodes noBin = true) →
    n.isPM = true ∨ ((doPlusMinus n).allNodes (fun x => q x && !x.isPM) = true ∧
                     (doPlusMinus n).allNodes binOK = true) := by
  have hq2 : Stable (fun x => q x && !x.isPM) :=
    stable_and hq ⟨by intros; rfl, by intros; rfl, by intros; rfl⟩
  have hall2 : ∀ k, (fun x => q x && !x.isPM) (.group k [] 1) = true := by intro k; simp [hall k, Node.isPM]
  induction n using Node.ind with
  | leaf n h =>
    intro hn
    rw [doPlusMinus_leaf h]
    rcases hn with hn | hn
    · exact Or.inl hn
    · cases hp : n.isPM
      · right
        rw [allNodes_leaf h] at hn ⊢
        refine ⟨by simp [hn.1, hp], ?_⟩
        rw [allNodes_leaf h]
        cases n <;> simp_all [Node.isGroup, binOK]
      · exact Or.inl rfl
  | group k ns b ih =>
    intro hn
    right
    rcases hn with hn | hn
    · simp [Node.isPM] at hn
    obtain ⟨ha, hb⟩ := hn
    have ca := allNodes_group_children ha
    have cb := allNodes_group_children hb
    have hkb : k.hasBoost = true := by have := allNodes_self hb; simpa [noBin] using this
    have hmapped : ∀ y ∈ ns.map doPlusMinus, y.isPM = true ∨
        (y.allNodes (fun x => q x && !x.isPM) = true ∧ y.allNodes binOK = true) := by
      intro y hy
      simp only [List.mem_map] at hy
      obtain ⟨x, hx, rfl⟩ := hy
      rcases ih x hx (Or.inr ⟨(allNodesL_iff.1 ca) x hx, (allNodesL_iff.1 cb) x hx⟩) with h | h
      · left
        cases hg : x.isGroup
        · rw [doPlusMinus_leaf hg]; exact h
        · cases x <;> simp_all [Node.isGroup, Node.isPM]
      · exact Or.inr h
    have l1 := plusMinusLoop_pres (q := fun x => q x && !x.isPM) (ns.map doPlusMinus) .optional [] [] []
      (fun y hy => (hmapped y hy).imp id And.left) rfl rfl rfl
    have l2 := plusMinusLoop_pres (q := binOK) (ns.map doPlusMinus) .optional [] [] []
      (fun y hy => (hmapped y hy).imp id And.right) rfl rfl rfl
    rw [doPlusMinus_group]
    generalize plusMinusLoop (ns.map doPlusMinus) .optional [] [] [] = r at l1 l2
    obtain ⟨req, opt, ban⟩ := r
    simp only at l1 l2 ⊢
    have gq : ∀ (k' : GK) (l : List Node) (b' : Rat), allNodesL (fun x => q x && !x.isPM) l = true →
        (Node.group k' l b').allNodes (fun x => q x && !x.isPM) = true := by
      intro k' l b' hl
      rw [allNodes_group hq2, Bool.and_eq_true]; exact ⟨hall2 k', hl⟩
    have gb : ∀ (k' : GK) (l : List Node) (b' : Rat), (k'.hasBoost = true ∨ l.length ≤ 2) →
        allNodesL binOK l = true → (Node.group k' l b').allNodes binOK = true := by
      intro k' l b' hk hl
      exact allNodes_group_of _ _ _ (gstable_binOK.group _ _ _ hk) hl
    have two : ∀ (a c : Node), allNodesL (fun x => q x && !x.isPM) [a, c] =
        (a.allNodes (fun x => q x && !x.isPM) && c.allNodes (fun x => q x && !x.isPM)) := by
      intro a c; simp [allNodesL]
    have twob : ∀ (a c : Node), allNodesL binOK [a, c] = (a.allNodes binOK && c.allNodes binOK) := by
      intro a c; simp [allNodesL]
    have o1 := gq k opt b l1.2.1
    have o2 := gb k opt b (Or.inl hkb) l2.2.1
    have r1 := gq .and req 1 l1.1
    have r2 := gb .and req 1 (Or.inl rfl) l2.1
    have n1 := gq .or ban 1 l1.2.2
    have n2 := gb .or ban 1 (Or.inl rfl) l2.2.2
    split
    · split
      · exact ⟨o1, o2⟩
      · exact ⟨gq _ _ _ (by rw [two, o1, n1]; rfl), gb _ _ _ (Or.inr (by simp)) (by rw [twob, o2, n2]; rfl)⟩
    · have m1 := gq .andmaybe [.group .and req 1, .group k opt b] 1 (by rw [two, r1, o1]; rfl)
      have m2 := gb .andmaybe [.group .and req 1, .group k opt b] 1 (Or.inr (by simp)) (by rw [twob, r2, o2]; rfl)
      split
      · exact ⟨m1, m2⟩
      · exact ⟨gq _ _ _ (by rw [two, m1, n1]; rfl), gb _ _ _ (Or.inr (by simp)) (by rw [twob, m2, n2]; rfl)⟩

end WM.Parser
