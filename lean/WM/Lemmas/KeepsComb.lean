import WM.Lemmas.Quality
/-! How `Keeps` (the contract of quality skipping) propagates through the node combinators. -/
namespace WM.Matcher

theorem nonneg_lookup {L : Den} (h : NonNegDen L) {d : Nat} {r : Rat} (hl : lookup L d = some r) : 0 ≤ r :=
  h (d, r) (lookup_some_mem hl)

theorem bounded_lookup {L : Den} {q : Rat} (h : BoundedBy q L) {d : Nat} {r : Rat} (hl : lookup L d = some r) :
    r ≤ q := h (d, r) (lookup_some_mem hl)

theorem nonNeg_of_lookup {L : Den} (hL : Asc L) (h : ∀ d r, lookup L d = some r → 0 ≤ r) : NonNegDen L :=
  fun p hp => h p.1 p.2 (mem_lookup hL hp)

theorem bounded_of_lookup {L : Den} {q : Rat} (hL : Asc L) (h : ∀ d r, lookup L d = some r → r ≤ q) :
    BoundedBy q L := fun p hp => h p.1 p.2 (mem_lookup hL hp)

/-- the two pointwise halves of `Keeps` -/
theorem Keeps.fwd {q : Rat} {L' L : Den} (k : Keeps q L' L) (h' : Asc L') (h : Asc L) {d : Nat} {r : Rat}
    (hq : q < r) (hl : lookup L d = some r) : lookup L' d = some r :=
  (((keeps_iff h' h).1 k).1 d r hq).2 hl

theorem Keeps.domp {q : Rat} {L' L : Den} (k : Keeps q L' L) (h' : Asc L') (h : Asc L) {d : Nat} {r' : Rat}
    (hl : lookup L' d = some r') : ∃ r, lookup L d = some r ∧ r' ≤ r :=
  ((keeps_iff h' h).1 k).2 d r' hl

/-- `Keeps` does not depend on the threshold for what is absent: absent stays absent -/
theorem Keeps.none {q : Rat} {L' L : Den} (k : Keeps q L' L) (h' : Asc L') (h : Asc L) {d : Nat}
    (hl : lookup L d = none) : lookup L' d = none := by
  cases h1 : lookup L' d with
  | none => rfl
  | some r' =>
    obtain ⟨r, hr, -⟩ := k.domp h' h h1
    rw [hl] at hr; cases hr

/-! ### additive union -/

theorem nonNeg_unionAdd {A B : Den} (hA : Asc A) (hB : Asc B) (nA : NonNegDen A) (nB : NonNegDen B) :
    NonNegDen (unionWith (· + ·) A B) := by
  apply nonNeg_of_lookup (asc_unionWith _ hA hB)
  intro d r hl
  rw [lookup_unionWith _ hA hB] at hl
  cases ha : lookup A d with
  | none =>
    rw [ha] at hl
    cases hb : lookup B d with
    | none => rw [hb] at hl; cases hl
    | some rb => rw [hb] at hl; cases hl; exact nonneg_lookup nB hb
  | some ra =>
    rw [ha] at hl
    have h1 := nonneg_lookup nA ha
    cases hb : lookup B d with
    | none => rw [hb] at hl; cases hl; exact h1
    | some rb =>
      rw [hb] at hl; cases hl
      have h2 := nonneg_lookup nB hb
      show 0 ≤ ra + rb
      grind

theorem bounded_unionAdd {A B : Den} {qa qb : Rat} (hA : Asc A) (hB : Asc B) (bA : BoundedBy qa A)
    (bB : BoundedBy qb B) (h0a : 0 ≤ qa) (h0b : 0 ≤ qb) : BoundedBy (qa + qb) (unionWith (· + ·) A B) := by
  apply bounded_of_lookup (asc_unionWith _ hA hB)
  intro d r hl
  rw [lookup_unionWith _ hA hB] at hl
  cases ha : lookup A d with
  | none =>
    rw [ha] at hl
    cases hb : lookup B d with
    | none => rw [hb] at hl; cases hl
    | some rb => rw [hb] at hl; cases hl; have := bounded_lookup bB hb; grind
  | some ra =>
    rw [ha] at hl
    have h1 := bounded_lookup bA ha
    cases hb : lookup B d with
    | none => rw [hb] at hl; cases hl; grind
    | some rb =>
      rw [hb] at hl; cases hl
      have h2 := bounded_lookup bB hb
      show ra + rb ≤ qa + qb
      grind

/-- `UnionMatcher.skip_to_quality`: side `a` skipped below `qa`, side `b` below `qb` -/
theorem keeps_unionAdd {q qa qb : Rat} {A A' B B' : Den} (hA : Asc A) (hA' : Asc A') (hB : Asc B) (hB' : Asc B')
    (nA : NonNegDen A) (nB : NonNegDen B) (KA : Keeps qa A' A) (KB : Keeps qb B' B)
    (H1 : ∀ e ∈ B, qa ≤ q - e.2) (H2 : ∀ e ∈ A', qb ≤ q - e.2) (H3 : qa ≤ q) (H4 : qb ≤ q) :
    Keeps q (unionWith (· + ·) A' B') (unionWith (· + ·) A B) := by
  apply keeps_of_pointwise (asc_unionWith _ hA' hB') (asc_unionWith _ hA hB)
  · intro d r hq hl
    rw [lookup_unionWith _ hA hB] at hl
    rw [lookup_unionWith _ hA' hB']
    cases ha : lookup A d with
    | none =>
      rw [ha] at hl
      rw [KA.none hA' hA ha]
      cases hb : lookup B d with
      | none => rw [hb] at hl; cases hl
      | some rb =>
        rw [hb] at hl; cases hl
        rw [KB.fwd hB' hB (by grind) hb]; rfl
    | some ra =>
      rw [ha] at hl
      cases hb : lookup B d with
      | none =>
        rw [hb] at hl; cases hl
        rw [KA.fwd hA' hA (by grind) ha, KB.none hB' hB hb]; rfl
      | some rb =>
        rw [hb] at hl; cases hl
        have hq' : q < ra + rb := hq
        have h1 := H1 (d, rb) (lookup_some_mem hb)
        have ka := KA.fwd hA' hA (show qa < ra by simp only at h1; grind) ha
        have h2 := H2 (d, ra) (lookup_some_mem ka)
        have kb := KB.fwd hB' hB (show qb < rb by simp only at h2; grind) hb
        rw [ka, kb]; rfl
  · intro d r' hl
    rw [lookup_unionWith _ hA' hB'] at hl
    rw [lookup_unionWith _ hA hB]
    cases ha' : lookup A' d with
    | none =>
      rw [ha'] at hl
      cases hb' : lookup B' d with
      | none => rw [hb'] at hl; cases hl
      | some rb' =>
        rw [hb'] at hl; cases hl
        obtain ⟨rb, hb, hle⟩ := KB.domp hB' hB hb'
        rw [hb]
        cases ha : lookup A d with
        | none => exact ⟨rb, rfl, hle⟩
        | some ra =>
          have := nonneg_lookup nA ha
          exact ⟨ra + rb, rfl, by grind⟩
    | some ra' =>
      rw [ha'] at hl
      obtain ⟨ra, ha, hlea⟩ := KA.domp hA' hA ha'
      rw [ha]
      cases hb' : lookup B' d with
      | none =>
        rw [hb'] at hl; cases hl
        cases hb : lookup B d with
        | none => exact ⟨ra, rfl, hlea⟩
        | some rb =>
          have := nonneg_lookup nB hb
          exact ⟨ra + rb, rfl, by grind⟩
      | some rb' =>
        rw [hb'] at hl; cases hl
        obtain ⟨rb, hb, hleb⟩ := KB.domp hB' hB hb'
        rw [hb]
        exact ⟨ra + rb, rfl, by show ra' + rb' ≤ ra + rb; grind⟩

/-! ### maximum union (DisjunctionMax) -/

theorem nonNeg_unionMax {A B : Den} (hA : Asc A) (hB : Asc B) (nA : NonNegDen A) (nB : NonNegDen B) :
    NonNegDen (unionWith max A B) := by
  apply nonNeg_of_lookup (asc_unionWith _ hA hB)
  intro d r hl
  rw [lookup_unionWith _ hA hB] at hl
  cases ha : lookup A d with
  | none =>
    rw [ha] at hl
    cases hb : lookup B d with
    | none => rw [hb] at hl; cases hl
    | some rb => rw [hb] at hl; cases hl; exact nonneg_lookup nB hb
  | some ra =>
    rw [ha] at hl
    have h1 := nonneg_lookup nA ha
    cases hb : lookup B d with
    | none => rw [hb] at hl; cases hl; exact h1
    | some rb =>
      rw [hb] at hl; cases hl
      show 0 ≤ max ra rb
      grind

theorem bounded_unionMax {A B : Den} {qa qb : Rat} (hA : Asc A) (hB : Asc B) (bA : BoundedBy qa A)
    (bB : BoundedBy qb B) : BoundedBy (max qa qb) (unionWith max A B) := by
  apply bounded_of_lookup (asc_unionWith _ hA hB)
  intro d r hl
  rw [lookup_unionWith _ hA hB] at hl
  cases ha : lookup A d with
  | none =>
    rw [ha] at hl
    cases hb : lookup B d with
    | none => rw [hb] at hl; cases hl
    | some rb => rw [hb] at hl; cases hl; have := bounded_lookup bB hb; grind
  | some ra =>
    rw [ha] at hl
    have h1 := bounded_lookup bA ha
    cases hb : lookup B d with
    | none => rw [hb] at hl; cases hl; grind
    | some rb =>
      rw [hb] at hl; cases hl
      have h2 := bounded_lookup bB hb
      show max ra rb ≤ max qa qb
      grind

/-- `DisjunctionMaxMatcher.skip_to_quality`: both sides skipped below the same `q` -/
theorem keeps_unionMax {q : Rat} {A A' B B' : Den} (hA : Asc A) (hA' : Asc A') (hB : Asc B) (hB' : Asc B')
    (KA : Keeps q A' A) (KB : Keeps q B' B) : Keeps q (unionWith max A' B') (unionWith max A B) := by
  apply keeps_of_pointwise (asc_unionWith _ hA' hB') (asc_unionWith _ hA hB)
  · intro d r hq hl
    rw [lookup_unionWith _ hA hB] at hl
    rw [lookup_unionWith _ hA' hB']
    cases ha : lookup A d with
    | none =>
      rw [ha] at hl
      rw [KA.none hA' hA ha]
      cases hb : lookup B d with
      | none => rw [hb] at hl; cases hl
      | some rb => rw [hb] at hl; cases hl; rw [KB.fwd hB' hB hq hb]; rfl
    | some ra =>
      rw [ha] at hl
      cases hb : lookup B d with
      | none => rw [hb] at hl; cases hl; rw [KA.fwd hA' hA hq ha, KB.none hB' hB hb]; rfl
      | some rb =>
        rw [hb] at hl; cases hl
        have hq' : q < max ra rb := hq
        -- the larger score is kept as is; the smaller one can only shrink or vanish
        by_cases hab : rb ≤ ra
        · have ka := KA.fwd hA' hA (show q < ra by grind) ha
          rw [ka]
          cases hb' : lookup B' d with
          | none => show some ra = some (max ra rb); congr 1; grind
          | some rb' =>
            obtain ⟨rb0, hb0, hle⟩ := KB.domp hB' hB hb'
            rw [hb] at hb0; cases hb0
            show some (max ra rb') = some (max ra rb); congr 1; grind
        · have kb := KB.fwd hB' hB (show q < rb by grind) hb
          rw [kb]
          cases ha' : lookup A' d with
          | none => show some rb = some (max ra rb); congr 1; grind
          | some ra' =>
            obtain ⟨ra0, ha0, hle⟩ := KA.domp hA' hA ha'
            rw [ha] at ha0; cases ha0
            show some (max ra' rb) = some (max ra rb); congr 1; grind
  · intro d r' hl
    rw [lookup_unionWith _ hA' hB'] at hl
    rw [lookup_unionWith _ hA hB]
    cases ha' : lookup A' d with
    | none =>
      rw [ha'] at hl
      cases hb' : lookup B' d with
      | none => rw [hb'] at hl; cases hl
      | some rb' =>
        rw [hb'] at hl; cases hl
        obtain ⟨rb, hb, hle⟩ := KB.domp hB' hB hb'
        rw [hb]
        cases ha : lookup A d with
        | none => exact ⟨rb, rfl, hle⟩
        | some ra => exact ⟨max ra rb, rfl, by grind⟩
    | some ra' =>
      rw [ha'] at hl
      obtain ⟨ra, ha, hlea⟩ := KA.domp hA' hA ha'
      rw [ha]
      cases hb' : lookup B' d with
      | none =>
        rw [hb'] at hl; cases hl
        cases hb : lookup B d with
        | none => exact ⟨ra, rfl, hlea⟩
        | some rb => exact ⟨max ra rb, rfl, by grind⟩
      | some rb' =>
        rw [hb'] at hl; cases hl
        obtain ⟨rb, hb, hleb⟩ := KB.domp hB' hB hb'
        rw [hb]
        exact ⟨max ra rb, rfl, by show max ra' rb' ≤ max ra rb; grind⟩

/-! ### intersection (additive and "first operand") -/

theorem lookup_interWith_some (f) {A : Den} (B : Den) (hA : Asc A) {d : Nat} {r : Rat}
    (h : lookup (interWith f A B) d = some r) :
    ∃ ra rb, lookup A d = some ra ∧ lookup B d = some rb ∧ r = f ra rb := by
  rw [lookup_interWith f B hA] at h
  cases ha : lookup A d with
  | none => rw [ha] at h; cases h
  | some ra =>
    cases hb : lookup B d with
    | none => rw [ha, hb] at h; cases h
    | some rb => rw [ha, hb] at h; cases h; exact ⟨ra, rb, rfl, rfl, rfl⟩

theorem nonNeg_interWith (f : Rat → Rat → Rat) {A B : Den} (hA : Asc A) (nA : NonNegDen A) (nB : NonNegDen B)
    (hf : ∀ a b, 0 ≤ a → 0 ≤ b → 0 ≤ f a b) : NonNegDen (interWith f A B) := by
  apply nonNeg_of_lookup (asc_interWith f B hA)
  intro d r hl
  obtain ⟨ra, rb, ha, hb, rfl⟩ := lookup_interWith_some f B hA hl
  exact hf _ _ (nonneg_lookup nA ha) (nonneg_lookup nB hb)

/-- one side of an additive intersection skipped below `qa`, everything of the other side at most `q - qa` -/
theorem keeps_interAdd_left {q qa : Rat} {A A' B : Den} (hA : Asc A) (hA' : Asc A') (KA : Keeps qa A' A)
    (H1 : ∀ e ∈ B, qa ≤ q - e.2) : Keeps q (interWith (· + ·) A' B) (interWith (· + ·) A B) := by
  apply keeps_of_pointwise (asc_interWith _ _ hA') (asc_interWith _ _ hA)
  · intro d r hq hl
    obtain ⟨ra, rb, ha, hb, rfl⟩ := lookup_interWith_some _ B hA hl
    have h1 := H1 (d, rb) (lookup_some_mem hb)
    have hq' : q < ra + rb := hq
    have ka := KA.fwd hA' hA (show qa < ra by simp only at h1; grind) ha
    rw [lookup_interWith _ B hA', ka, hb]
  · intro d r' hl
    obtain ⟨ra', rb, ha', hb, rfl⟩ := lookup_interWith_some _ B hA' hl
    obtain ⟨ra, ha, hle⟩ := KA.domp hA' hA ha'
    exact ⟨ra + rb, by rw [lookup_interWith _ B hA, ha, hb], by show ra' + rb ≤ ra + rb; grind⟩

theorem keeps_interAdd_right {q qb : Rat} {A B B' : Den} (hA : Asc A) (hB : Asc B) (hB' : Asc B')
    (KB : Keeps qb B' B) (H1 : ∀ e ∈ A, qb ≤ q - e.2) :
    Keeps q (interWith (· + ·) A B') (interWith (· + ·) A B) := by
  apply keeps_of_pointwise (asc_interWith _ _ hA) (asc_interWith _ _ hA)
  · intro d r hq hl
    obtain ⟨ra, rb, ha, hb, rfl⟩ := lookup_interWith_some _ B hA hl
    have h1 := H1 (d, ra) (lookup_some_mem ha)
    have hq' : q < ra + rb := hq
    have kb := KB.fwd hB' hB (show qb < rb by simp only at h1; grind) hb
    rw [lookup_interWith _ B' hA, ha, kb]
  · intro d r' hl
    obtain ⟨ra, rb', ha, hb', rfl⟩ := lookup_interWith_some _ B' hA hl
    obtain ⟨rb, hb, hle⟩ := KB.domp hB' hB hb'
    exact ⟨ra + rb, by rw [lookup_interWith _ B hA, ha, hb], by show ra + rb' ≤ ra + rb; grind⟩

/-- `RequireMatcher`: only the first operand scores -/
theorem keeps_interFst_left {q : Rat} {A A' B : Den} (hA : Asc A) (hA' : Asc A') (KA : Keeps q A' A) :
    Keeps q (interWith (fun s _ => s) A' B) (interWith (fun s _ => s) A B) := by
  apply keeps_of_pointwise (asc_interWith _ _ hA') (asc_interWith _ _ hA)
  · intro d r hq hl
    obtain ⟨ra, rb, ha, hb, rfl⟩ := lookup_interWith_some _ B hA hl
    rw [lookup_interWith _ B hA', KA.fwd hA' hA hq ha, hb]
  · intro d r' hl
    obtain ⟨ra', rb, ha', hb, rfl⟩ := lookup_interWith_some _ B hA' hl
    obtain ⟨ra, ha, hle⟩ := KA.domp hA' hA ha'
    exact ⟨ra, by rw [lookup_interWith _ B hA, ha, hb], hle⟩

theorem bounded_interAdd {A B : Den} {qa qb : Rat} (hA : Asc A) (bA : BoundedBy qa A) (bB : BoundedBy qb B) :
    BoundedBy (qa + qb) (interWith (· + ·) A B) := by
  apply bounded_of_lookup (asc_interWith _ _ hA)
  intro d r hl
  obtain ⟨ra, rb, ha, hb, rfl⟩ := lookup_interWith_some _ B hA hl
  have := bounded_lookup bA ha
  have := bounded_lookup bB hb
  show ra + rb ≤ qa + qb
  grind

theorem bounded_interFst {A B : Den} {qa : Rat} (hA : Asc A) (bA : BoundedBy qa A) :
    BoundedBy qa (interWith (fun s _ => s) A B) := by
  apply bounded_of_lookup (asc_interWith _ _ hA)
  intro d r hl
  obtain ⟨ra, rb, ha, hb, rfl⟩ := lookup_interWith_some _ B hA hl
  exact bounded_lookup bA ha

/-! ### difference (AndNot) -/

theorem diff_subset (A B : Den) : ∀ p ∈ diff A B, p ∈ A := fun p hp => (List.mem_filter.1 hp).1

theorem keeps_diff_left {q : Rat} {A A' B : Den} (hA : Asc A) (hA' : Asc A') (KA : Keeps q A' A) :
    Keeps q (diff A' B) (diff A B) := by
  apply keeps_of_pointwise (asc_diff _ hA') (asc_diff _ hA)
  · intro d r hq hl
    rw [lookup_diff _ hA] at hl
    rw [lookup_diff _ hA']
    by_cases hb : (lookup B d).isNone = true
    · rw [if_pos hb] at hl ⊢; exact KA.fwd hA' hA hq hl
    · rw [if_neg hb] at hl; cases hl
  · intro d r' hl
    rw [lookup_diff _ hA'] at hl
    rw [lookup_diff _ hA]
    by_cases hb : (lookup B d).isNone = true
    · rw [if_pos hb] at hl ⊢; exact KA.domp hA' hA hl
    · rw [if_neg hb] at hl; cases hl

/-! ### left join (AndMaybe) -/

theorem nonNeg_leftJoin {A B : Den} (hA : Asc A) (nA : NonNegDen A) (nB : NonNegDen B) : NonNegDen (leftJoin A B) := by
  apply nonNeg_of_lookup (asc_leftJoin _ hA)
  intro d r hl
  rw [lookup_leftJoin] at hl
  cases ha : lookup A d with
  | none => rw [ha] at hl; cases hl
  | some ra =>
    rw [ha] at hl
    have h1 := nonneg_lookup nA ha
    cases hb : lookup B d with
    | none => rw [hb] at hl; cases hl; exact h1
    | some rb =>
      rw [hb] at hl; cases hl
      have := nonneg_lookup nB hb
      show 0 ≤ ra + rb
      grind

theorem bounded_leftJoin {A B : Den} {qa qb : Rat} (bA : BoundedBy qa A) (bB : BoundedBy qb B) (h0 : 0 ≤ qb) :
    BoundedBy (qa + qb) (leftJoin A B) := by
  intro p hp
  obtain ⟨e, he, rfl⟩ := List.mem_map.1 hp
  have h1 := bA e he
  cases hb : lookup B e.1 with
  | none => show e.2 ≤ qa + qb; grind
  | some rb =>
    have := bounded_lookup bB hb
    show e.2 + rb ≤ qa + qb
    grind

theorem keeps_leftJoin_left {q qa : Rat} {A A' B : Den} (hA : Asc A) (hA' : Asc A') (KA : Keeps qa A' A)
    (H1 : ∀ e ∈ B, qa ≤ q - e.2) (H3 : qa ≤ q) : Keeps q (leftJoin A' B) (leftJoin A B) := by
  apply keeps_of_pointwise (asc_leftJoin _ hA') (asc_leftJoin _ hA)
  · intro d r hq hl
    rw [lookup_leftJoin] at hl ⊢
    cases ha : lookup A d with
    | none => rw [ha] at hl; cases hl
    | some ra =>
      rw [ha] at hl
      cases hb : lookup B d with
      | none =>
        rw [hb] at hl; cases hl
        rw [KA.fwd hA' hA (by grind) ha]; rfl
      | some rb =>
        rw [hb] at hl; cases hl
        have h1 := H1 (d, rb) (lookup_some_mem hb)
        have hq' : q < ra + rb := hq
        rw [KA.fwd hA' hA (show qa < ra by simp only at h1; grind) ha]; rfl
  · intro d r' hl
    rw [lookup_leftJoin] at hl ⊢
    cases ha' : lookup A' d with
    | none => rw [ha'] at hl; cases hl
    | some ra' =>
      rw [ha'] at hl
      obtain ⟨ra, ha, hle⟩ := KA.domp hA' hA ha'
      rw [ha]
      cases hb : lookup B d with
      | none => rw [hb] at hl; cases hl; exact ⟨ra, rfl, hle⟩
      | some rb => rw [hb] at hl; cases hl; exact ⟨ra + rb, rfl, by show ra' + rb ≤ ra + rb; grind⟩

theorem keeps_leftJoin_right {q qb : Rat} {A B B' : Den} (hA : Asc A) (hB : Asc B) (hB' : Asc B') (nB : NonNegDen B)
    (KB : Keeps qb B' B) (H1 : ∀ e ∈ A, qb ≤ q - e.2) : Keeps q (leftJoin A B') (leftJoin A B) := by
  apply keeps_of_pointwise (asc_leftJoin _ hA) (asc_leftJoin _ hA)
  · intro d r hq hl
    rw [lookup_leftJoin] at hl ⊢
    cases ha : lookup A d with
    | none => rw [ha] at hl; cases hl
    | some ra =>
      rw [ha] at hl
      cases hb : lookup B d with
      | none => rw [hb] at hl; cases hl; rw [KB.none hB' hB hb]; rfl
      | some rb =>
        rw [hb] at hl; cases hl
        have h1 := H1 (d, ra) (lookup_some_mem ha)
        have hq' : q < ra + rb := hq
        rw [KB.fwd hB' hB (show qb < rb by simp only at h1; grind) hb]; rfl
  · intro d r' hl
    rw [lookup_leftJoin] at hl ⊢
    cases ha : lookup A d with
    | none => rw [ha] at hl; cases hl
    | some ra =>
      rw [ha] at hl
      cases hb' : lookup B' d with
      | none =>
        rw [hb'] at hl; cases hl
        cases hb : lookup B d with
        | none => exact ⟨ra, rfl, Rat.le_refl⟩
        | some rb => have := nonneg_lookup nB hb; exact ⟨ra + rb, rfl, by grind⟩
      | some rb' =>
        rw [hb'] at hl; cases hl
        obtain ⟨rb, hb, hle⟩ := KB.domp hB' hB hb'
        rw [hb]
        exact ⟨ra + rb, rfl, by show ra + rb' ≤ ra + rb; grind⟩

/-! ### boost, filter, constant score -/

theorem keeps_map_key {q q' : Rat} {C C' : Den} (g : Rat → Rat) (hC : Asc C) (hC' : Asc C') (K : Keeps q' C' C)
    (hmono : ∀ a b, a ≤ b → g a ≤ g b) (hthr : ∀ r, q < g r → q' < r) :
    Keeps q (C'.map fun p => (p.1, g p.2)) (C.map fun p => (p.1, g p.2)) := by
  apply keeps_of_pointwise (asc_map_key _ hC') (asc_map_key _ hC)
  · intro d r hq hl
    rw [lookup_map_key (fun p => g p.2)] at hl ⊢
    cases hc : lookup C d with
    | none => rw [hc] at hl; cases hl
    | some rc =>
      rw [hc] at hl; cases hl
      rw [K.fwd hC' hC (hthr rc hq) hc]; rfl
  · intro d r' hl
    rw [lookup_map_key (fun p => g p.2)] at hl ⊢
    cases hc' : lookup C' d with
    | none => rw [hc'] at hl; cases hl
    | some rc' =>
      rw [hc'] at hl; cases hl
      obtain ⟨rc, hc, hle⟩ := K.domp hC' hC hc'
      rw [hc]
      exact ⟨g rc, rfl, hmono _ _ hle⟩

theorem keeps_keepIds {q : Rat} {C C' : Den} (S : List Nat) (excl : Bool) (hC : Asc C) (hC' : Asc C')
    (K : Keeps q C' C) : Keeps q (keepIds S excl C') (keepIds S excl C) := by
  apply keeps_of_pointwise (asc_keepIds _ _ hC') (asc_keepIds _ _ hC)
  · intro d r hq hl
    rw [lookup_keepIds _ _ hC] at hl
    rw [lookup_keepIds _ _ hC']
    by_cases hb : ((S.contains d) != excl) = true
    · rw [if_pos hb] at hl ⊢; exact K.fwd hC' hC hq hl
    · rw [if_neg hb] at hl; cases hl
  · intro d r' hl
    rw [lookup_keepIds _ _ hC'] at hl
    rw [lookup_keepIds _ _ hC]
    by_cases hb : ((S.contains d) != excl) = true
    · rw [if_pos hb] at hl ⊢; exact K.domp hC' hC hl
    · rw [if_neg hb] at hl; cases hl

end WM.Matcher
