import WM.Model.MatcherMulti
import WM.Lemmas.Faithful
/-! `MultiMatcher` over faithful sub-matchers is a faithful cursor over the concatenation of their shifted lists. -/
namespace WM.Matcher

theorem shift_eq_nil (o : Nat) (L : Den) : shift o L = [] ↔ L = [] := by simp [shift]

theorem shift_cons (o x : Nat) (r : Rat) (L : Den) : shift o ((x, r) :: L) = (x + o, r) :: shift o L := rfl

/-- every id of `L'` is an id of `L` -/
def IdSub (L' L : Den) : Prop := ∀ p ∈ L', ∃ r, (p.1, r) ∈ L

theorem IdSub.refl (L : Den) : IdSub L L := fun p hp => ⟨p.2, hp⟩

theorem IdSub.of_sublist {L' L : Den} (h : L'.Sublist L) : IdSub L' L := fun p hp => ⟨p.2, h.subset hp⟩

theorem IdSub.trans {L₁ L₂ L₃ : Den} (h₁ : IdSub L₁ L₂) (h₂ : IdSub L₂ L₃) : IdSub L₁ L₃ := fun p hp => by
  obtain ⟨r, hr⟩ := h₁ p hp
  exact h₂ (p.1, r) hr

theorem IdSub.of_dominated {L' L : Den} (h : Dominated L' L) : IdSub L' L := fun p hp => by
  obtain ⟨r, hr, -⟩ := h p hp
  exact ⟨r, hr⟩

theorem IdSub.shift {o : Nat} {L' L : Den} (h : IdSub L' L) : IdSub (shift o L') (shift o L) := fun p hp => by
  obtain ⟨p', hp', rfl⟩ := List.mem_map.1 hp
  obtain ⟨r, hr⟩ := h p' hp'
  exact ⟨r, List.mem_map.2 ⟨(p'.1, r), hr, rfl⟩⟩

theorem IdSub.append {A' A B' B : Den} (h₁ : IdSub A' A) (h₂ : IdSub B' B) : IdSub (A' ++ B') (A ++ B) := fun p hp => by
  rcases List.mem_append.1 hp with hp | hp
  · obtain ⟨r, hr⟩ := h₁ p hp
    exact ⟨r, List.mem_append_left _ hr⟩
  · obtain ⟨r, hr⟩ := h₂ p hp
    exact ⟨r, List.mem_append_right _ hr⟩

theorem asc_append {L M : Den} : Asc (L ++ M) ↔ Asc L ∧ Asc M ∧ ∀ a ∈ L, ∀ b ∈ M, a.1 < b.1 :=
  List.pairwise_append

theorem asc_shift {o : Nat} {L : Den} (h : Asc L) : Asc (shift o L) := by
  unfold Asc shift
  rw [List.pairwise_map]
  exact h.imp (by intro a b hab; exact Nat.add_lt_add_right hab o)

/-- `skip_to(t)` commutes with the shift (`t` not below the offset) -/
theorem shift_dropBelow (o t : Nat) (h : o ≤ t) (L : Den) : shift o (dropBelow (t - o) L) = dropBelow t (shift o L) := by
  induction L with
  | nil => rfl
  | cons p L ih =>
    obtain ⟨x, r⟩ := p
    rw [shift_cons, dropBelow_cons, dropBelow_cons]
    by_cases hx : x < t - o
    · have : x + o < t := by omega
      simp only [hx, this, ↓reduceIte]; exact ih
    · have : ¬ x + o < t := by omega
      simp only [hx, this, ↓reduceIte]; rfl

theorem dropBelow_append_of_ne_nil {t : Nat} {L M : Den} (h : dropBelow t L ≠ []) :
    dropBelow t (L ++ M) = dropBelow t L ++ M := by
  induction L with
  | nil => exact absurd rfl h
  | cons p L ih =>
    obtain ⟨x, r⟩ := p
    rw [List.cons_append, dropBelow_cons, dropBelow_cons]
    by_cases hx : x < t
    · simp only [hx, ↓reduceIte]
      apply ih
      rw [dropBelow_cons] at h; simpa [hx] using h
    · simp only [hx, ↓reduceIte]; rfl

theorem dropBelow_append_of_nil {t : Nat} {L M : Den} (h : dropBelow t L = []) :
    dropBelow t (L ++ M) = dropBelow t M := by
  induction L with
  | nil => rfl
  | cons p L ih =>
    obtain ⟨x, r⟩ := p
    rw [List.cons_append, dropBelow_cons]
    rw [dropBelow_cons] at h
    by_cases hx : x < t
    · simp only [hx, ↓reduceIte] at h ⊢; exact ih h
    · simp [hx] at h

namespace Multi
variable {α : Type} {A : Ops α} {dA fA : α → Den} {WA : α → Prop}

/-! ### lists of sub-matchers -/

theorem denOf_append (d : α → Den) (l₁ l₂ : List (α × Nat)) : denOf d (l₁ ++ l₂) = denOf d l₁ ++ denOf d l₂ := by
  induction l₁ with
  | nil => rfl
  | cons s ss ih => simp [denOf, ih]

theorem denOf_idSub {d f : α → Den} {l : List (α × Nat)} (h : ∀ s ∈ l, IdSub (d s.1) (f s.1)) :
    IdSub (denOf d l) (denOf f l) := by
  induction l with
  | nil => exact IdSub.refl _
  | cons s ss ih =>
    exact IdSub.append (h s List.mem_cons_self).shift (ih fun s' hs' => h s' (List.mem_cons_of_mem _ hs'))

/-- ascending sub-lists whose ids are ids of an ascending concatenation ascend when concatenated -/
theorem asc_denOf {d f : α → Den} {l : List (α × Nat)} (hd : ∀ s ∈ l, Asc (d s.1)) (h : ∀ s ∈ l, IdSub (d s.1) (f s.1))
    (hf : Asc (denOf f l)) : Asc (denOf d l) := by
  induction l with
  | nil => exact List.Pairwise.nil
  | cons s ss ih =>
    have hs' : ∀ s' ∈ ss, IdSub (d s'.1) (f s'.1) := fun s' hs' => h s' (List.mem_cons_of_mem _ hs')
    obtain ⟨-, f2, f3⟩ := asc_append.1 hf
    refine asc_append.2 ⟨asc_shift (hd s List.mem_cons_self), ih (fun s' hs' => hd s' (List.mem_cons_of_mem _ hs')) hs' f2, ?_⟩
    intro a ha b hb
    obtain ⟨ra, hra⟩ := (h s List.mem_cons_self).shift a ha
    obtain ⟨rb, hrb⟩ := denOf_idSub hs' b hb
    exact f3 (a.1, ra) hra (b.1, rb) hrb

theorem denOf_drop_sublist (d : α → Den) (l : List (α × Nat)) (n : Nat) : (denOf d (l.drop n)).Sublist (denOf d l) := by
  conv => rhs; rw [← List.take_append_drop n l, denOf_append]
  exact List.sublist_append_right _ _

/-- replacing the `n`-th sub-matcher by one with the same value of `f` -/
theorem denOf_set {f : α → Den} {l : List (α × Nat)} {n : Nat} {s : α × Nat} {c : α}
    (hs : l[n]? = some s) (hf : f c = f s.1) : denOf f (l.set n (c, s.2)) = denOf f l := by
  induction l generalizing n with
  | nil => rfl
  | cons x xs ih =>
    cases n with
    | zero =>
      simp only [List.getElem?_cons_zero, Option.some.injEq] at hs
      subst hs
      simp [denOf, hf]
    | succ n =>
      simp only [List.getElem?_cons_succ] at hs
      simp [denOf, ih hs]

theorem drop_of_get {l : List (α × Nat)} {n : Nat} {s : α × Nat} (hs : l[n]? = some s) :
    l.drop n = s :: l.drop (n + 1) := by
  obtain ⟨hlt, rfl⟩ := List.getElem?_eq_some_iff.1 hs
  exact List.drop_eq_getElem_cons hlt

theorem drop_set_self {l : List (α × Nat)} {n : Nat} {s x : α × Nat} (hs : l[n]? = some s) :
    (l.set n x).drop n = x :: l.drop (n + 1) := by
  obtain ⟨hlt, -⟩ := List.getElem?_eq_some_iff.1 hs
  have h1 : (l.set n x)[n]? = some x := by simp [hlt]
  rw [drop_of_get h1, List.drop_set]
  simp

/-! ### `_next_matcher` -/

section Dead
variable (FA : Faithful A dA fA WA)
include FA

theorem skipDead_spec (l : List (α × Nat)) (h : ∀ s ∈ l, WA s.1) :
    denOf dA (l.drop (skipDead A l)) = denOf dA l ∧
    (∀ s, (l.drop (skipDead A l))[0]? = some s → A.isActive s.1 = true) ∧
    remOf A (l.drop (skipDead A l)) + skipDead A l ≤ remOf A l := by
  induction l with
  | nil => exact ⟨rfl, (by intro s hs; cases hs), Nat.le_refl _⟩
  | cons s ss ih =>
    unfold skipDead
    by_cases ha : A.isActive s.1 = true
    · rw [if_pos ha, List.drop_zero]
      refine ⟨rfl, ?_, Nat.le_refl _⟩
      intro s' hs'
      simp only [List.getElem?_cons_zero, Option.some.injEq] at hs'
      subst hs'; exact ha
    · rw [if_neg ha, List.drop_succ_cons]
      obtain ⟨h1, h2, h3⟩ := ih fun s' hs' => h s' (List.mem_cons_of_mem _ hs')
      have hnil : dA s.1 = [] :=
        (FA.inactive (h s List.mem_cons_self)).1 (by simpa using ha)
      refine ⟨?_, h2, ?_⟩
      · rw [h1]; simp [denOf, hnil, shift]
      · simp only [remOf]; omega

end Dead

/-- well-formedness of a `MultiMatcher`: well-formed sub-matchers whose complete lists, shifted, ascend
    through the segments; `current` stands on a sub-matcher that has postings left -/
structure WF (A : Ops α) (dA fA : α → Den) (WA : α → Prop) (m : Multi α) : Prop where
  child : ∀ s ∈ m.segs, WA s.1
  sub : ∀ s ∈ m.segs, IdSub (dA s.1) (fA s.1)
  asc : Asc (denOf fA m.segs)
  act : ∀ s, m.segs[m.cur]? = some s → A.isActive s.1 = true

theorem den_of_get {m : Multi α} {s : α × Nat} (hs : m.segs[m.cur]? = some s) :
    den dA m = shift s.2 (dA s.1) ++ denOf dA (m.segs.drop (m.cur + 1)) := by
  unfold den; rw [drop_of_get hs]; rfl

theorem den_of_none {m : Multi α} (hs : m.segs[m.cur]? = none) : den dA m = [] := by
  unfold den
  rw [List.getElem?_eq_none_iff] at hs
  rw [List.drop_of_length_le hs]; rfl

section Main
variable (FA : Faithful A dA fA WA)
include FA

theorem asc_den {m : Multi α} (h : WF A dA fA WA m) : Asc (den dA m) :=
  asc_sublist (denOf_drop_sublist dA m.segs m.cur)
    (asc_denOf (fun s hs => FA.asc _ (h.child s hs)) h.sub h.asc)

/-- the current sub-matcher and the head of its list, from the head of the whole list -/
theorem cur_of_den {m : Multi α} (h : WF A dA fA WA m) {x : Nat} {r : Rat} {L : Den} (hd : den dA m = (x, r) :: L) :
    ∃ s x0 L0, m.segs[m.cur]? = some s ∧ dA s.1 = (x0, r) :: L0 ∧ x = x0 + s.2 ∧
      L = shift s.2 L0 ++ denOf dA (m.segs.drop (m.cur + 1)) := by
  cases hs : m.segs[m.cur]? with
  | none => rw [den_of_none hs] at hd; cases hd
  | some s =>
    have hact := h.act s hs
    have hmem : s ∈ m.segs := List.mem_of_getElem? hs
    have hne : dA s.1 ≠ [] := (FA.active s.1 (h.child s hmem)).1 hact
    obtain ⟨x0, r0, L0, h0⟩ := exists_cons_of_ne_nil hne
    rw [den_of_get hs, h0, shift_cons, List.cons_append] at hd
    injection hd with hp hL
    injection hp with hx hr
    subst hr
    exact ⟨s, x0, L0, rfl, h0, hx.symm, hL.symm⟩

/-- `_next_matcher()` keeps the meaning and lands on a live sub-matcher -/
theorem nextMatcher_spec {m : Multi α} (hc : ∀ s ∈ m.segs, WA s.1) :
    den dA (nextMatcher A m) = den dA m ∧
    (∀ s, (nextMatcher A m).segs[(nextMatcher A m).cur]? = some s → A.isActive s.1 = true) ∧
    rem A (nextMatcher A m) ≤ rem A m ∧
    (nextMatcher A m).segs = m.segs ∧ m.cur ≤ (nextMatcher A m).cur ∧
    (rem A (nextMatcher A m) = rem A m → (nextMatcher A m).cur = m.cur) := by
  have hc' : ∀ s ∈ m.segs.drop m.cur, WA s.1 := fun s hs => hc s (List.mem_of_mem_drop hs)
  obtain ⟨h1, h2, h3⟩ := skipDead_spec FA (m.segs.drop m.cur) hc'
  refine ⟨?_, ?_, ?_, rfl, Nat.le_add_right _ _, ?_⟩
  · show denOf dA (m.segs.drop (m.cur + skipDead A (m.segs.drop m.cur))) = _
    rw [← List.drop_drop]; exact h1
  · intro s hs
    apply h2 s
    change m.segs[m.cur + skipDead A (m.segs.drop m.cur)]? = some s at hs
    rw [List.getElem?_drop]; simpa using hs
  · show remOf A (m.segs.drop (m.cur + skipDead A (m.segs.drop m.cur))) ≤ _
    rw [← List.drop_drop]; unfold rem; omega
  · intro he
    change remOf A (m.segs.drop (m.cur + skipDead A (m.segs.drop m.cur))) = remOf A (m.segs.drop m.cur) at he
    rw [← List.drop_drop] at he
    show m.cur + skipDead A (m.segs.drop m.cur) = m.cur
    omega

/-- the state after the current sub-matcher moved to `c` -/
theorem settle_spec {m : Multi α} (h : WF A dA fA WA m) {s : α × Nat} (hs : m.segs[m.cur]? = some s) {c : α}
    (hw : WA c) (hsub : IdSub (dA c) (fA c)) (hf : fA c = fA s.1) :
    WF A dA fA WA (settle A m c s.2) ∧
    den dA (settle A m c s.2) = shift s.2 (dA c) ++ denOf dA (m.segs.drop (m.cur + 1)) ∧
    full fA (settle A m c s.2) = full fA m ∧
    rem A (settle A m c s.2) + A.rem s.1 ≤ rem A m + A.rem c ∧
    (settle A m c s.2).segs.length = m.segs.length ∧ m.cur ≤ (settle A m c s.2).cur ∧
    (A.isActive c = false → m.cur < (settle A m c s.2).cur) := by
  let m' : Multi α := { m with segs := m.segs.set m.cur (c, s.2) }
  have hmem' : ∀ s' ∈ m'.segs, s' = (c, s.2) ∨ s' ∈ m.segs := fun s' hs' => by
    rcases List.mem_or_eq_of_mem_set hs' with h1 | h1
    · exact Or.inr h1
    · exact Or.inl h1
  have hchild : ∀ s' ∈ m'.segs, WA s'.1 := fun s' hs' => by
    rcases hmem' s' hs' with rfl | h1
    · exact hw
    · exact h.child s' h1
  have hsub' : ∀ s' ∈ m'.segs, IdSub (dA s'.1) (fA s'.1) := fun s' hs' => by
    rcases hmem' s' hs' with rfl | h1
    · exact hsub
    · exact h.sub s' h1
  have hfull : denOf fA m'.segs = denOf fA m.segs := denOf_set hs hf
  have hdrop : m'.segs.drop m'.cur = (c, s.2) :: m.segs.drop (m.cur + 1) := drop_set_self hs
  have hden' : den dA m' = shift s.2 (dA c) ++ denOf dA (m.segs.drop (m.cur + 1)) := by
    unfold den; rw [hdrop]; rfl
  have hrem' : rem A m' + A.rem s.1 = rem A m + A.rem c := by
    unfold rem; rw [hdrop, drop_of_get hs]; simp only [remOf]; omega
  have hlen : m'.segs.length = m.segs.length := by simp [m']
  have hget : m'.segs[m'.cur]? = some (c, s.2) := by
    have := congrArg (fun l => l[0]?) hdrop
    simpa [List.getElem?_drop] using this
  unfold settle
  by_cases ha : A.isActive c = true
  · simp only [ha, ↓reduceIte]
    refine ⟨⟨hchild, hsub', by rw [hfull]; exact h.asc, ?_⟩, hden', hfull, Nat.le_of_eq hrem', hlen, Nat.le_refl _, ?_⟩
    · intro s' hs'
      change m'.segs[m'.cur]? = some s' at hs'
      rw [hget] at hs'; cases hs'; exact ha
    · intro hf'; cases hf'
  · simp only [ha, Bool.false_eq_true, ↓reduceIte]
    obtain ⟨g1, g2, g3, g4, g5, g6⟩ := nextMatcher_spec FA (m := m') hchild
    refine ⟨⟨by rw [g4]; exact hchild, by rw [g4]; exact hsub', by rw [g4, hfull]; exact h.asc, g2⟩,
      by rw [g1]; exact hden', by unfold full; rw [g4]; exact hfull,
      (by show rem A (nextMatcher A m') + A.rem s.1 ≤ rem A m + A.rem c; omega), by rw [g4]; exact hlen, g5, ?_⟩
    intro _
    -- the current sub-matcher is exhausted, so `_next_matcher` moves on
    have : skipDead A (m'.segs.drop m'.cur) ≠ 0 := by
      rw [hdrop]; unfold skipDead; simp [ha]
    show m.cur < m'.cur + skipDead A (m'.segs.drop m'.cur)
    have : m'.cur = m.cur := rfl
    omega

theorem skipLoop_spec (t : Nat) : ∀ (n : Nat) (m : Multi α), WF A dA fA WA m → m.segs.length - m.cur < n →
    ∃ m', skipLoop A t n m = .ok m' ∧ WF A dA fA WA m' ∧ den dA m' = dropBelow t (den dA m) ∧
      rem A m' ≤ rem A m ∧ (den dA m' ≠ den dA m → rem A m' < rem A m) ∧ full fA m' = full fA m
  | 0, m, _, hn => by omega
  | n + 1, m, h, hn => by
    unfold skipLoop
    cases hs : m.segs[m.cur]? with
    | none =>
      refine ⟨m, rfl, h, ?_, Nat.le_refl _, fun h0 => absurd rfl h0, rfl⟩
      rw [den_of_none hs]; rfl
    | some s =>
      have hmem : s ∈ m.segs := List.mem_of_getElem? hs
      have hne : dA s.1 ≠ [] := (FA.active s.1 (h.child s hmem)).1 (h.act s hs)
      obtain ⟨x0, r0, L0, h0⟩ := exists_cons_of_ne_nil hne
      have hid := FA.id s.1 x0 r0 L0 (h.child s hmem) h0
      simp only [hid, bind, Except.bind]
      by_cases ht : x0 + s.2 < t
      · simp only [ht, ↓reduceIte]
        obtain ⟨c, c1, c2, c3, c4, c5, c6⟩ := FA.skipTo s.1 (t - s.2) (h.child s hmem) hne
        have hsub : IdSub (dA c) (fA c) := by
          rw [c3, c6]; exact (IdSub.of_sublist (List.dropWhile_sublist _)).trans (h.sub s hmem)
        obtain ⟨g1, g2, g3, g4, g5, g6, g7⟩ := settle_spec FA h hs c2 hsub c6
        have hsh : shift s.2 (dA c) = dropBelow t (shift s.2 (dA s.1)) := by
          rw [c3]; exact shift_dropBelow s.2 t (by omega) _
        simp only [c1]
        by_cases ha : A.isActive c = true
        · simp only [ha, ↓reduceIte]
          have hcne : dA c ≠ [] := (FA.active c c2).1 ha
          have hd' : den dA (settle A m c s.2) = dropBelow t (den dA m) := by
            rw [g2, den_of_get hs, hsh, dropBelow_append_of_ne_nil]
            rw [← hsh]; exact fun h1 => hcne ((shift_eq_nil _ _).1 h1)
          refine ⟨_, rfl, g1, hd', by omega, ?_, g3⟩
          intro hdne
          have : dA c ≠ dA s.1 := by
            intro he
            apply hdne
            rw [g2, he, den_of_get hs]
          have := c5 this
          omega
        · simp only [ha, Bool.false_eq_true, ↓reduceIte]
          have hcnil : dA c = [] := (FA.inactive c2).1 (by simpa using ha)
          have hlt : A.rem c < A.rem s.1 := c5 (by rw [hcnil]; exact fun h1 => hne h1.symm)
          obtain ⟨m', k1, k2, k3, k4, k5, k6⟩ := skipLoop_spec t n (settle A m c s.2) g1
            (by have := g7 (by simpa using ha); have := (List.getElem?_eq_some_iff.1 hs).1; omega)
          refine ⟨m', k1, k2, ?_, by omega, fun _ => by omega, k6.trans g3⟩
          rw [k3, g2, hcnil, den_of_get hs]
          have : dropBelow t (shift s.2 (dA s.1)) = [] := by rw [← hsh, hcnil]; rfl
          rw [dropBelow_append_of_nil this]; rfl
      · simp only [ht, ↓reduceIte]
        refine ⟨m, rfl, h, ?_, Nat.le_refl _, fun h1 => absurd rfl h1, rfl⟩
        rw [den_of_get hs, h0, shift_cons, List.cons_append, dropBelow_of_le_head (by omega)]

theorem resetAll_spec : ∀ l : List (α × Nat), (∀ s ∈ l, WA s.1) →
    ∃ l', resetAll A l = .ok l' ∧ (∀ s ∈ l', WA s.1) ∧ (∀ s ∈ l', dA s.1 = fA s.1) ∧
      denOf dA l' = denOf fA l ∧ denOf fA l' = denOf fA l
  | [], _ => ⟨[], rfl, (by intro s hs; cases hs), (by intro s hs; cases hs), rfl, rfl⟩
  | s :: ss, h => by
    obtain ⟨c, c1, c2, c3, c4⟩ := FA.reset s.1 (h s List.mem_cons_self)
    obtain ⟨l', k1, k2, k3, k4, k5⟩ := resetAll_spec ss fun s' hs' => h s' (List.mem_cons_of_mem _ hs')
    refine ⟨(c, s.2) :: l', by simp [resetAll, c1, k1, bind, Except.bind]; rfl, ?_, ?_, ?_, ?_⟩
    · intro s' hs'
      rcases List.mem_cons.1 hs' with rfl | hs'
      · exact c2
      · exact k2 s' hs'
    · intro s' hs'
      rcases List.mem_cons.1 hs' with rfl | hs'
      · exact c3.trans c4.symm
      · exact k3 s' hs'
    · simp only [denOf, c3, k4]
    · simp only [denOf, c4, k5]

theorem faithful : Faithful (ops A) (den dA) (full fA) (WF A dA fA WA) where
  asc m h := asc_den FA h
  active m h := by
    show isActive m = true ↔ den dA m ≠ []
    constructor
    · intro ha
      have hlt : m.cur < m.segs.length := by simpa [isActive] using ha
      have hs : m.segs[m.cur]? = some m.segs[m.cur] := List.getElem?_eq_getElem hlt
      have hne := (FA.active _ (h.child _ (List.mem_of_getElem? hs))).1 (h.act _ hs)
      rw [den_of_get hs]
      intro h0
      exact hne ((shift_eq_nil _ _).1 (List.append_eq_nil_iff.1 h0).1)
    · intro hne
      cases hs : m.segs[m.cur]? with
      | none => exact absurd (den_of_none hs) hne
      | some s =>
        obtain ⟨hlt, -⟩ := List.getElem?_eq_some_iff.1 hs
        simpa [isActive] using hlt
  id m x r L h hd := by
    obtain ⟨s, x0, L0, hs, h0, hx, -⟩ := cur_of_den FA h hd
    show id A m = .ok x
    unfold id
    simp only [hs, FA.id s.1 x0 r L0 (h.child s (List.mem_of_getElem? hs)) h0, bind, Except.bind, hx]
    rfl
  score m x r L h hd := by
    obtain ⟨s, x0, L0, hs, h0, -, -⟩ := cur_of_den FA h hd
    show score A m = .ok r
    unfold score
    simp only [hs, FA.score s.1 x0 r L0 (h.child s (List.mem_of_getElem? hs)) h0]
  next m x r L h hd := by
    obtain ⟨s, x0, L0, hs, h0, -, hL⟩ := cur_of_den FA h hd
    have hmem : s ∈ m.segs := List.mem_of_getElem? hs
    obtain ⟨c, c1, c2, c3, c4, c5⟩ := FA.next s.1 x0 r L0 (h.child s hmem) h0
    have hsub : IdSub (dA c) (fA c) := by
      rw [c3, c5]
      refine IdSub.trans (IdSub.of_sublist ?_) (h.sub s hmem)
      rw [h0]; exact List.sublist_cons_self _ _
    obtain ⟨g1, g2, g3, g4, -, -, -⟩ := settle_spec FA h hs c2 hsub c5
    refine ⟨settle A m c s.2, ?_, g1, ?_, ?_, g3⟩
    · show next A m = _
      unfold next
      simp only [hs, c1, bind, Except.bind]; rfl
    · rw [g2, c3, hL]
    · show rem A (settle A m c s.2) < rem A m
      omega
  skipTo m t h hne := by
    obtain ⟨x, r, L, hd⟩ := exists_cons_of_ne_nil hne
    obtain ⟨s, x0, L0, hs, h0, hx, -⟩ := cur_of_den FA h hd
    have hid := FA.id s.1 x0 r L0 (h.child s (List.mem_of_getElem? hs)) h0
    show ∃ s', skipTo A m t = .ok s' ∧ _
    unfold skipTo
    simp only [hs, hid, bind, Except.bind]
    by_cases ht : t ≤ x0 + s.2
    · simp only [ht, ↓reduceIte]
      refine ⟨m, rfl, h, ?_, Nat.le_refl _, fun h1 => absurd rfl h1, rfl⟩
      rw [hd, dropBelow_of_le_head (by omega)]
    · simp only [ht, ↓reduceIte]
      exact skipLoop_spec FA t _ m h (by omega)
  reset m h := by
    obtain ⟨l', k1, k2, k3, k4, k5⟩ := resetAll_spec FA m.segs h.child
    obtain ⟨g1, g2, -, g4, -, -⟩ := nextMatcher_spec FA (m := ⟨l', 0⟩) k2
    refine ⟨nextMatcher A ⟨l', 0⟩, ?_, ⟨by rw [g4]; exact k2, ?_, ?_, g2⟩, ?_, ?_⟩
    · show reset A m = _
      unfold reset
      simp only [k1, bind, Except.bind]; rfl
    · rw [g4]; intro s hs; rw [k3 s hs]; exact IdSub.refl _
    · rw [g4]; show Asc (denOf fA l'); rw [k5]; exact h.asc
    · rw [g1]; show denOf dA (l'.drop 0) = _; rw [List.drop_zero]; exact k4
    · show denOf fA (nextMatcher A ⟨l', 0⟩).segs = _; rw [g4]; exact k5

end Main

end Multi

end WM.Matcher
