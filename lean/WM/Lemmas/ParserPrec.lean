import WM.Model.Parser
import WM.Spec.Parser
import WM.Lemmas.ParserTotal
import WM.Lemmas.ParserOps
/-! Precedence: what `do_operators` makes of the node list of a well-formed expression. -/
namespace WM.Parser

/-- the expression after `do_groups` and `remove_whitespace`: brackets have become (unprocessed)
    groups, whitespace is gone -/
def Expr.flat (gk : GK) : Expr → List Node
  | .atom n => [n]
  | .paren items => [.group gk ((items.map (fun e => e.flat gk)).flatten) 1]
  | .not e => opNot :: e.flat gk
  | .op g es => joinWith [opNode g] (es.map (fun e => e.flat gk))
termination_by e => e.size
decreasing_by
  all_goals simp_wf
  all_goals simp only [Expr.size]
  all_goals first
    | omega
    | (rename_i h; have := Expr.size_mem h; omega)

def flatSeq (gk : GK) (items : List Expr) : List Node := (items.map (Expr.flat gk)).flatten

/-- the node the passes of `do_operators` build for an expression at the level where it occurs
    (the contents of parenthesised groups are still unprocessed) -/
def Expr.mid (gk : GK) : Expr → Node
  | .atom n => n
  | .paren items => .group gk (flatSeq gk items) 1
  | .not e => .group .not [e.mid gk] 1
  | .op g es =>
    match es.map (fun e => e.mid gk) with
    | [] => .group g [] 1
    | m :: ms => ms.foldl (combineL g) m
termination_by e => e.size
decreasing_by
  all_goals simp_wf
  all_goals simp only [Expr.size]
  all_goals first
    | omega
    | (rename_i h; have := Expr.size_mem h; omega)

/-- the list after the passes for the levels `≤ j`: every sub-expression of level `≤ j` has
    been collapsed into its node -/
def Expr.flatAt (gk : GK) (j : Nat) : Expr → List Node
  | .atom n => [n]
  | .paren items => [.group gk (flatSeq gk items) 1]
  | .not e => if 1 ≤ j then [.group .not [e.mid gk] 1] else opNot :: e.flatAt gk j
  | .op g es =>
    if g.lvl ≤ j then [(Expr.op g es).mid gk] else joinWith [opNode g] (es.map (fun e => e.flatAt gk j))
termination_by e => e.size
decreasing_by
  all_goals simp_wf
  all_goals simp only [Expr.size]
  all_goals first
    | omega
    | (rename_i h; have := Expr.size_mem h; omega)

/-! ### unfolding facts -/

theorem all_map_id {α} (l : List α) (p : α → Bool) : (l.map p).all id = true ↔ ∀ x ∈ l, p x = true := by
  simp [List.all_eq_true]

theorem wf_atom {n : Node} : (Expr.atom n).wf = n.isLeaf := by rw [Expr.wf]

theorem wf_paren {items : List Expr} :
    (Expr.paren items).wf = true ↔ items ≠ [] ∧ ∀ e ∈ items, e.wf = true := by
  rw [Expr.wf]
  simp only [Bool.and_eq_true, all_map_id, Bool.not_eq_true', List.isEmpty_eq_false_iff]

theorem wf_not {e : Expr} : (Expr.not e).wf = true ↔ e.level = 0 ∧ e.wf = true := by
  rw [Expr.wf]; simp

theorem wf_op {g : GK} {es : List Expr} :
    (Expr.op g es).wf = true ↔ 2 ≤ g.lvl ∧ 2 ≤ es.length ∧ ∀ e ∈ es, e.level < g.lvl ∧ e.wf = true := by
  rw [Expr.wf]
  simp only [Bool.and_eq_true, all_map_id, decide_eq_true_eq, and_assoc]

theorem mid_atom (gk : GK) (n : Node) : (Expr.atom n).mid gk = n := by rw [Expr.mid]
theorem mid_paren (gk : GK) (items : List Expr) :
    (Expr.paren items).mid gk = .group gk (flatSeq gk items) 1 := by rw [Expr.mid]
theorem mid_not (gk : GK) (e : Expr) : (Expr.not e).mid gk = .group .not [e.mid gk] 1 := by rw [Expr.mid]
theorem mid_op_cons (gk : GK) (g : GK) (e : Expr) (es : List Expr) :
    (Expr.op g (e :: es)).mid gk = (es.map (Expr.mid gk)).foldl (combineL g) (e.mid gk) := by
  rw [Expr.mid]; simp

theorem combineL_isGroup (g : GK) (a b : Node) : (combineL g a b).isGroup = true := by
  unfold combineL; split <;> rfl

theorem foldl_combineL_isOp (g : GK) (ms : List Node) (m : Node) (h : m.isOp = false) :
    (ms.foldl (combineL g) m).isOp = false := by
  induction ms generalizing m with
  | nil => exact h
  | cons a t ih =>
    simp only [List.foldl_cons]
    apply ih
    have := combineL_isGroup g m a
    cases hc : combineL g m a <;> simp_all [Node.isGroup, Node.isOp]

theorem isLeaf_isOp {n : Node} (h : n.isLeaf = true) : n.isOp = false := by
  cases n <;> simp_all [Node.isLeaf, Node.isOp]

/-- structural induction on expressions (children of a list-carrying node by membership) -/
theorem Expr.ind {P : Expr → Prop} (atom : ∀ n, P (.atom n))
    (paren : ∀ items, (∀ e ∈ items, P e) → P (.paren items))
    (not : ∀ e, P e → P (.not e))
    (op : ∀ g es, (∀ e ∈ es, P e) → P (.op g es)) : ∀ e, P e := by
  intro e
  induction hsz : e.size using Nat.strongRecOn generalizing e with
  | _ sz ih =>
    cases e with
    | atom n => exact atom n
    | paren items =>
      apply paren
      intro x hx
      have := Expr.size_mem hx
      exact ih x.size (by subst hsz; simp only [Expr.size]; omega) x rfl
    | not e0 =>
      apply not
      exact ih e0.size (by subst hsz; simp only [Expr.size]; omega) e0 rfl
    | op g es =>
      apply op
      intro x hx
      have := Expr.size_mem hx
      exact ih x.size (by subst hsz; simp only [Expr.size]; omega) x rfl

/-- a node built for an expression is never an operator node -/
theorem mid_isOp (gk : GK) (e : Expr) : e.wf = true → (e.mid gk).isOp = false := by
  induction e using Expr.ind with
  | atom n => intro h; rw [mid_atom]; rw [wf_atom] at h; exact isLeaf_isOp h
  | paren items _ => intro _; rw [mid_paren]; rfl
  | not e _ => intro _; rw [mid_not]; rfl
  | op g es ih =>
    intro h
    rw [wf_op] at h
    cases es with
    | nil => simp at h
    | cons e es =>
      rw [mid_op_cons]
      apply foldl_combineL_isOp
      exact ih e (by simp) (h.2.2 e (by simp)).2

theorem isOp_isOpOf {n : Node} (o : OpCfg) (h : n.isOp = false) : n.isOpOf o = false := by
  cases n <;> simp_all [Node.isOp, Node.isOpOf]

/-! ### the scan on single steps -/

theorem passZ_nil (o : OpCfg) (done : List Node) : passZ o done [] = done := by rw [passZ]

theorem passZ_skip (o : OpCfg) (done : List Node) (x : Node) (rest : List Node)
    (hx : x.isOpOf o = false) : passZ o done (x :: rest) = passZ o (done ++ [x]) rest := by
  cases rest with
  | nil =>
    rw [passZ_nil, passZ]
    simp [hx]
  | cons y rest => rw [passZ]; simp [hx]

theorem passZ_inf (o : OpCfg) (d : List Node) (left x y : Node) (rest : List Node)
    (ht : o.t = .inf) (hx : x.isOpOf o = true) :
    passZ o (d ++ [left]) (x :: y :: rest) = passZ o (d ++ [combineL o.g left y]) rest := by
  rw [passZ]
  simp [hx, ht]

theorem passZ_pre (o : OpCfg) (done : List Node) (x y : Node) (rest : List Node)
    (ht : o.t = .pre) (hx : x.isOpOf o = true) :
    passZ o done (x :: y :: rest) = passZ o (done ++ [.group o.g [y] 1]) rest := by
  rw [passZ]
  simp [hx, ht]

/-- a run of nodes that are not operators of this pass moves to the accumulator unchanged -/
theorem passZ_skips (o : OpCfg) (done xs rest : List Node) (h : ∀ x ∈ xs, x.isOpOf o = false) :
    passZ o done (xs ++ rest) = passZ o (done ++ xs) rest := by
  induction xs generalizing done with
  | nil => simp
  | cons x xs ih =>
    rw [List.cons_append, passZ_skip o done x _ (h x (by simp)), ih _ (fun y hy => h y (by simp [hy]))]
    simp

/-! ### one pass over an expression -/

/-- the tagger of `defaultOps` that handles binding level `j` -/
def stageOp (j : Nat) : OpCfg :=
  match j with
  | 1 => ⟨.pre, .not, true⟩
  | 2 => ⟨.inf, .and, true⟩
  | 3 => ⟨.inf, .or, true⟩
  | 4 => ⟨.inf, .andnot, true⟩
  | 5 => ⟨.inf, .andmaybe, true⟩
  | _ => ⟨.inf, .require, true⟩

theorem stageOp_lvl {g : GK} (h : 2 ≤ g.lvl) : stageOp g.lvl = ⟨.inf, g, true⟩ := by
  cases g <;> simp [GK.lvl] at h ⊢ <;> rfl

theorem opNode_isOpOf_stage {g : GK} {j : Nat} (hg : 2 ≤ g.lvl) (hj : 1 ≤ j) (hj6 : j ≤ 6) (hne : g.lvl ≠ j) :
    (opNode g).isOpOf (stageOp j) = false := by
  cases g <;> simp [GK.lvl] at hg hne <;>
    (rcases (by omega : j = 1 ∨ j = 2 ∨ j = 3 ∨ j = 4 ∨ j = 5 ∨ j = 6) with h | h | h | h | h | h <;>
      subst h <;> simp_all [opNode, Node.isOpOf, stageOp])

theorem flatAt_atom (gk : GK) (j : Nat) (n : Node) : (Expr.atom n).flatAt gk j = [n] := by rw [Expr.flatAt]
theorem flatAt_paren (gk : GK) (j : Nat) (items : List Expr) :
    (Expr.paren items).flatAt gk j = [.group gk (flatSeq gk items) 1] := by rw [Expr.flatAt]
theorem flatAt_not (gk : GK) (j : Nat) (e : Expr) :
    (Expr.not e).flatAt gk j = if 1 ≤ j then [.group .not [e.mid gk] 1] else opNot :: e.flatAt gk j := by
  rw [Expr.flatAt]
theorem flatAt_op (gk : GK) (j : Nat) (g : GK) (es : List Expr) :
    (Expr.op g es).flatAt gk j
      = if g.lvl ≤ j then [(Expr.op g es).mid gk] else joinWith [opNode g] (es.map (fun e => e.flatAt gk j)) := by
  rw [Expr.flatAt]

/-- a sub-expression whose level has been handled is a single node -/
theorem flatAt_collapsed (gk : GK) (j : Nat) (e : Expr) (hl : e.level ≤ j) : e.flatAt gk j = [e.mid gk] := by
  cases e with
  | atom n => rw [flatAt_atom, mid_atom]
  | paren items => rw [flatAt_paren, mid_paren]
  | not e => rw [flatAt_not, mid_not]; simp [Expr.level] at hl; simp [hl]
  | op g es => rw [flatAt_op]; simp [Expr.level] at hl; simp [hl]

theorem joinWith_cons2 (sep x y : List Node) (r : List (List Node)) :
    joinWith sep (x :: y :: r) = x ++ sep ++ joinWith sep (y :: r) := by rw [joinWith]

theorem joinWith_single (sep x : List Node) : joinWith sep [x] = x := by rw [joinWith]

/-- if the scan turns `f₁ c` into `f₂ c` for every segment `c` and skips the separator, it turns
    the separated concatenation of the `f₁ c` into that of the `f₂ c` -/
theorem passZ_join {α} (o : OpCfg) (sep : Node) (hsep : sep.isOpOf o = false) (f1 f2 : α → List Node)
    (cs : List α)
    (h : ∀ c ∈ cs, ∀ done rest, passZ o done (f1 c ++ rest) = passZ o (done ++ f2 c) rest)
    (done rest : List Node) :
    passZ o done (joinWith [sep] (cs.map f1) ++ rest) = passZ o (done ++ joinWith [sep] (cs.map f2)) rest := by
  induction cs generalizing done with
  | nil => simp [joinWith]
  | cons c cs ih =>
    cases cs with
    | nil =>
      simp only [List.map_cons, List.map_nil, joinWith_single]
      exact h c (by simp) done rest
    | cons c2 cs =>
      simp only [List.map_cons, joinWith_cons2, List.append_assoc]
      rw [h c (by simp), List.singleton_append, passZ_skip o _ sep _ hsep]
      have := ih (fun x hx => h x (by simp [hx])) (done ++ f2 c ++ [sep])
      simp only [List.map_cons] at this
      rw [this]
      simp

/-- the chain step of an infix pass: `acc OP m₁ OP m₂ …` collapses from the left -/
theorem passZ_chain (o : OpCfg) (ht : o.t = .inf) (sep : Node) (hsep : sep.isOpOf o = true)
    (d : List Node) (acc : Node) (ms rest : List Node) :
    passZ o (d ++ [acc]) ((ms.flatMap fun m => [sep, m]) ++ rest)
      = passZ o (d ++ [ms.foldl (combineL o.g) acc]) rest := by
  induction ms generalizing acc with
  | nil => simp
  | cons m ms ih =>
    simp only [List.flatMap_cons, List.cons_append, List.nil_append, List.foldl_cons]
    rw [passZ_inf o d acc sep m _ ht hsep]
    exact ih _

theorem joinWith_singletons (sep : Node) (m : Node) (ms : List Node) :
    joinWith [sep] ((m :: ms).map fun x => [x]) = m :: (ms.flatMap fun x => [sep, x]) := by
  induction ms generalizing m with
  | nil => simp [joinWith]
  | cons a t ih =>
    simp only [List.map_cons, joinWith_cons2]
    have := ih a
    simp only [List.map_cons] at this
    rw [this]
    simp

theorem stageOp_t_pre : (stageOp 1).t = .pre := rfl
theorem opNot_isOpOf_stage1 : opNot.isOpOf (stageOp 1) = true := rfl

theorem stageOp_inf {j : Nat} (h2 : 2 ≤ j) : (stageOp j).t = .inf := by
  rcases (by omega : j = 2 ∨ j = 3 ∨ j = 4 ∨ j = 5 ∨ 6 ≤ j) with h | h | h | h | h
  · subst h; rfl
  · subst h; rfl
  · subst h; rfl
  · subst h; rfl
  · unfold stageOp
    split <;> first | rfl | omega

theorem mid_wf_isOpOf (gk : GK) (o : OpCfg) (e : Expr) (h : e.wf = true) : (e.mid gk).isOpOf o = false :=
  isOp_isOpOf o (mid_isOp gk e h)

/-- The pass for level `j` collapses exactly the sub-expressions of level `j`. -/
theorem pass_expr (gk : GK) (j : Nat) (hj1 : 1 ≤ j) (hj6 : j ≤ 6) (e : Expr) :
    e.wf = true → ∀ done rest,
      passZ (stageOp j) done (e.flatAt gk (j - 1) ++ rest) = passZ (stageOp j) (done ++ e.flatAt gk j) rest := by
  induction e using Expr.ind with
  | atom n =>
    intro h done rest
    rw [flatAt_atom, flatAt_atom]
    have := mid_wf_isOpOf gk (stageOp j) (.atom n) h
    rw [mid_atom] at this
    exact passZ_skips _ _ _ _ (by simpa using this)
  | paren items _ =>
    intro h done rest
    rw [flatAt_paren, flatAt_paren]
    exact passZ_skips _ _ _ _ (by intro x hx; simp at hx; subst hx; rfl)
  | not e0 _ =>
    intro h done rest
    rw [wf_not] at h
    rw [flatAt_not, flatAt_not]
    by_cases hj : 1 ≤ j - 1
    · have : 1 ≤ j := by omega
      simp only [hj, this, if_true]
      exact passZ_skips _ _ _ _ (by intro x hx; simp at hx; subst hx; rfl)
    · have hj' : j = 1 := by omega
      subst hj'
      simp only [Nat.sub_self, Nat.le_refl, if_true]
      have : ¬ (1 ≤ 0) := by omega
      simp only [this, if_false]
      rw [flatAt_collapsed gk 0 e0 (by omega)]
      simp only [List.cons_append, List.nil_append]
      rw [passZ_pre _ _ _ _ _ stageOp_t_pre opNot_isOpOf_stage1]
      rfl
  | op g es ih =>
    intro h done rest
    rw [wf_op] at h
    obtain ⟨hg, hlen, hch⟩ := h
    rw [flatAt_op, flatAt_op]
    by_cases h1 : g.lvl ≤ j - 1
    · have : g.lvl ≤ j := by omega
      simp only [h1, this, if_true]
      have hm := mid_wf_isOpOf gk (stageOp j) (.op g es) (by rw [wf_op]; exact ⟨hg, hlen, hch⟩)
      exact passZ_skips _ _ _ _ (by intro x hx; simp at hx; subst hx; exact hm)
    · simp only [h1, if_false]
      by_cases h2 : g.lvl ≤ j
      · -- this pass builds the chain
        have hjg : g.lvl = j := by omega
        simp only [h2, if_true]
        have hso : stageOp j = ⟨.inf, g, true⟩ := by rw [← hjg]; exact stageOp_lvl hg
        cases es with
        | nil => simp at hlen
        | cons e1 es =>
          have hcol : ∀ c ∈ e1 :: es, c.flatAt gk (j - 1) = [c.mid gk] := by
            intro c hc
            exact flatAt_collapsed gk (j - 1) c (by have := (hch c hc).1; omega)
          have hmap : (e1 :: es).map (fun e => e.flatAt gk (j - 1)) = ((e1 :: es).map (Expr.mid gk)).map (fun x => [x]) := by
            rw [List.map_map]
            exact List.map_congr_left hcol
          rw [hmap, List.map_cons, joinWith_singletons, mid_op_cons]
          simp only [List.cons_append]
          rw [passZ_skip _ _ _ _ (mid_wf_isOpOf gk _ e1 (hch e1 (by simp)).2)]
          have hsep : (opNode g).isOpOf (stageOp j) = true := by rw [hso]; simp [opNode, Node.isOpOf]
          have ht : (stageOp j).t = .inf := by rw [hso]
          have hgg : (stageOp j).g = g := by rw [hso]
          have := passZ_chain (stageOp j) ht (opNode g) hsep done (e1.mid gk) (es.map (Expr.mid gk)) rest
          rw [hgg] at this
          exact this
      · -- a looser operator: its operands are scanned one after the other
        simp only [h2, if_false]
        have hsep : (opNode g).isOpOf (stageOp j) = false :=
          opNode_isOpOf_stage hg hj1 hj6 (by omega)
        exact passZ_join (stageOp j) (opNode g) hsep (fun e => e.flatAt gk (j - 1)) (fun e => e.flatAt gk j) es
          (fun c hc => ih c hc (hch c hc).2) done rest

/-! ### all passes over a sequence of expressions -/

def flatAtSeq (gk : GK) (j : Nat) (items : List Expr) : List Node := (items.map (Expr.flatAt gk j)).flatten

theorem pass_seq (gk : GK) (j : Nat) (hj1 : 1 ≤ j) (hj6 : j ≤ 6) (items : List Expr)
    (h : ∀ e ∈ items, e.wf = true) (done rest : List Node) :
    passZ (stageOp j) done (flatAtSeq gk (j - 1) items ++ rest)
      = passZ (stageOp j) (done ++ flatAtSeq gk j items) rest := by
  induction items generalizing done with
  | nil => simp [flatAtSeq]
  | cons e es ih =>
    simp only [flatAtSeq, List.map_cons, List.flatten_cons, List.append_assoc]
    rw [pass_expr gk j hj1 hj6 e (h e (by simp))]
    have := ih (fun x hx => h x (by simp [hx])) (done ++ e.flatAt gk j)
    simp only [flatAtSeq] at this
    rw [this]
    simp

theorem flat_atom (gk : GK) (n : Node) : (Expr.atom n).flat gk = [n] := by rw [Expr.flat]
theorem flat_paren (gk : GK) (items : List Expr) :
    (Expr.paren items).flat gk = [.group gk (flatSeq gk items) 1] := by rw [Expr.flat]; rfl
theorem flat_not (gk : GK) (e : Expr) : (Expr.not e).flat gk = opNot :: e.flat gk := by rw [Expr.flat]
theorem flat_op (gk : GK) (g : GK) (es : List Expr) :
    (Expr.op g es).flat gk = joinWith [opNode g] (es.map (fun e => e.flat gk)) := by rw [Expr.flat]

/-- before any pass nothing (beyond atoms and bracket groups) is collapsed -/
theorem flat_eq_flatAt0 (gk : GK) (e : Expr) : e.wf = true → e.flat gk = e.flatAt gk 0 := by
  induction e using Expr.ind with
  | atom n => intro _; rw [flat_atom, flatAt_atom]
  | paren items _ => intro _; rw [flat_paren, flatAt_paren]
  | not e0 ih =>
    intro h
    rw [wf_not] at h
    rw [flat_not, flatAt_not, ih h.2]
    simp
  | op g es ih =>
    intro h
    rw [wf_op] at h
    rw [flat_op, flatAt_op]
    have : ¬ g.lvl ≤ 0 := by omega
    simp only [this, if_false]
    congr 1
    exact List.map_congr_left (fun c hc => ih c hc (h.2.2 c hc).2)

theorem flatSeq_eq (gk : GK) (items : List Expr) (h : ∀ e ∈ items, e.wf = true) :
    flatSeq gk items = flatAtSeq gk 0 items := by
  unfold flatSeq flatAtSeq
  congr 1
  exact List.map_congr_left (fun c hc => flat_eq_flatAt0 gk c (h c hc))

theorem level_le_six (e : Expr) : e.level ≤ 6 := by
  cases e with
  | op g es => cases g <;> simp [Expr.level, GK.lvl]
  | _ => simp [Expr.level]

theorem flatAtSeq_six (gk : GK) (items : List Expr) : flatAtSeq gk 6 items = items.map (Expr.mid gk) := by
  unfold flatAtSeq
  induction items with
  | nil => rfl
  | cons e es ih =>
    simp only [List.map_cons, List.flatten_cons, ih, flatAt_collapsed gk 6 e (level_le_six e)]
    rfl

/-- the scans of all six default taggers, one after the other -/
def passesZ (ops : List OpCfg) (l : List Node) : List Node := ops.foldl (fun acc o => passZ o [] acc) l

theorem defaultOps_eq : defaultOps = [stageOp 1, stageOp 2, stageOp 3, stageOp 4, stageOp 5, stageOp 6] := rfl

theorem pass_seq_tail (gk : GK) (j : Nat) (hj1 : 1 ≤ j) (hj6 : j ≤ 6) (items : List Expr)
    (h : ∀ e ∈ items, e.wf = true) (tail : List Node) (ht : ∀ x ∈ tail, x.isOp = false) :
    passZ (stageOp j) [] (flatAtSeq gk (j - 1) items ++ tail) = flatAtSeq gk j items ++ tail := by
  rw [pass_seq gk j hj1 hj6 items h]
  have := passZ_skips (stageOp j) ([] ++ flatAtSeq gk j items) tail [] (fun x hx => isOp_isOpOf _ (ht x hx))
  simp only [List.append_nil] at this
  rw [this, passZ_nil]
  simp

/-- After all passes a well-formed sequence (followed by nodes that are not operators) has
    become the list of its expressions' nodes. -/
theorem passesZ_seq (gk : GK) (items : List Expr) (h : ∀ e ∈ items, e.wf = true)
    (tail : List Node) (ht : ∀ x ∈ tail, x.isOp = false) :
    passesZ defaultOps (flatSeq gk items ++ tail) = items.map (Expr.mid gk) ++ tail := by
  rw [flatSeq_eq gk items h, defaultOps_eq]
  simp only [passesZ, List.foldl_cons, List.foldl_nil]
  rw [pass_seq_tail gk 1 (by omega) (by omega) items h tail ht,
      pass_seq_tail gk 2 (by omega) (by omega) items h tail ht,
      pass_seq_tail gk 3 (by omega) (by omega) items h tail ht,
      pass_seq_tail gk 4 (by omega) (by omega) items h tail ht,
      pass_seq_tail gk 5 (by omega) (by omega) items h tail ht,
      pass_seq_tail gk 6 (by omega) (by omega) items h tail ht,
      flatAtSeq_six]

/-! ### the index loops compute the scans -/

theorem mem_dropLast {α} {l : List α} {x : α} (h : x ∈ l.dropLast) : x ∈ l := by
  rw [List.dropLast_eq_take] at h
  exact List.mem_of_mem_take h

/-- every node the scan returns was there before or is a newly built group -/
theorem passZ_mem (o : OpCfg) (done rest : List Node) (x : Node) (h : x ∈ passZ o done rest) :
    x ∈ done ∨ x ∈ rest ∨ x.isGroup = true := by
  fun_induction passZ o done rest with
  | case1 done => exact Or.inl h
  | case2 done y hy hinf => exact Or.inl h
  | case3 done y hy hpre => exact Or.inl h
  | case4 done y hy hpost left hl =>
    simp only [List.mem_append, List.mem_singleton] at h
    rcases h with h | h
    · exact Or.inl (mem_dropLast h)
    · subst h; exact Or.inr (Or.inr rfl)
  | case5 done y hy hpost hl => exact Or.inl h
  | case6 done y hy =>
    simp only [List.mem_append, List.mem_singleton] at h
    rcases h with h | h
    · exact Or.inl h
    · subst h; exact Or.inr (Or.inl (by simp))
  | case7 done y z rest hy hinf left hl ih =>
    rcases ih h with h | h | h
    · simp only [List.mem_append, List.mem_singleton] at h
      rcases h with h | h
      · exact Or.inl (mem_dropLast h)
      · subst h; exact Or.inr (Or.inr (combineL_isGroup _ _ _))
    · exact Or.inr (Or.inl (by simp [h]))
    · exact Or.inr (Or.inr h)
  | case8 done y z rest hy hinf hl ih =>
    rcases ih h with h | h | h
    · exact Or.inl h
    · exact Or.inr (Or.inl (by simp at h ⊢; rcases h with h | h <;> simp [h]))
    · exact Or.inr (Or.inr h)
  | case9 done y z rest hy hpre ih =>
    rcases ih h with h | h | h
    · simp only [List.mem_append, List.mem_singleton] at h
      rcases h with h | h
      · exact Or.inl h
      · subst h; exact Or.inr (Or.inr rfl)
    · exact Or.inr (Or.inl (by simp [h]))
    · exact Or.inr (Or.inr h)
  | case10 done y z rest hy hpost left hl ih =>
    rcases ih h with h | h | h
    · simp only [List.mem_append, List.mem_singleton] at h
      rcases h with h | h
      · exact Or.inl (mem_dropLast h)
      · subst h; exact Or.inr (Or.inr rfl)
    · exact Or.inr (Or.inl (by simp at h ⊢; rcases h with h | h <;> simp [h]))
    · exact Or.inr (Or.inr h)
  | case11 done y z rest hy hpost hl ih =>
    rcases ih h with h | h | h
    · exact Or.inl h
    · exact Or.inr (Or.inl (by simp at h ⊢; rcases h with h | h <;> simp [h]))
    · exact Or.inr (Or.inr h)
  | case12 done y z rest hy ih =>
    rcases ih h with h | h | h
    · simp only [List.mem_append, List.mem_singleton] at h
      rcases h with h | h
      · exact Or.inl h
      · subst h; exact Or.inr (Or.inl (by simp))
    · exact Or.inr (Or.inl (by simp at h ⊢; rcases h with h | h <;> simp [h]))
    · exact Or.inr (Or.inr h)

theorem isGroup_laOK {x : Node} (h : x.isGroup = true) : x.laOK = true := by
  cases x <;> simp_all [Node.isGroup, Node.laOK]

/-- For left-associative taggers and operator nodes, `opPasses` (the index loops) is the
    composition of the scans. -/
theorem opPasses_eq_passesZ (ops : List OpCfg) (hops : ∀ o ∈ ops, o.la = true) (l : List Node)
    (hl : ∀ x ∈ l, x.laOK = true) : opPasses ops l = .ok (passesZ ops l) := by
  induction ops generalizing l with
  | nil => rfl
  | cons o ops ih =>
    unfold opPasses
    have h1 : opPass l o = .ok (passZ o [] l) := by
      unfold opPass
      simp only [hops o (by simp), if_true]
      have := opLoopL_eq_passZ o [] l hl
      simpa using this
    rw [h1]
    simp only [passesZ, List.foldl_cons]
    apply ih (fun o' ho' => hops o' (by simp [ho']))
    intro x hx
    rcases passZ_mem o [] l x hx with h | h | h
    · cases h
    · exact hl x h
    · exact isGroup_laOK h

/-! ### the recursive descent -/

theorem mapM_eq_map {β γ} (xs : List β) (G : β → Except Err γ) (g : β → γ)
    (h : ∀ y ∈ xs, G y = .ok (g y)) : xs.mapM G = .ok (xs.map g) := by
  induction xs with
  | nil => rfl
  | cons a t ih =>
    simp [List.mapM_cons, h a (by simp), ih (fun y hy => h y (by simp [hy])), bind, Except.bind, pure, Except.pure]

/-- `do_operators` on a group, given what the passes make of its list and what the descent
    makes of every resulting node -/
theorem doOperators_group (ops : List OpCfg) (k : GK) (ns ns1 : List Node) (b : Rat) (f : Node → Node)
    (hp : opPasses ops ns = .ok ns1) (hf : ∀ x ∈ ns1, doOperators ops x = .ok (f x)) :
    doOperators ops (.group k ns b) = .ok (.group k (ns1.map f) b) := by
  rw [doOperators]
  split
  · next e he => rw [hp] at he; cases he
  · next ns1' he =>
    rw [hp] at he; injection he with he; subst he
    have hm : ns1.attach.mapM (fun (x : { x // x ∈ ns1 }) => match x with | ⟨n, _⟩ => doOperators ops n)
        = .ok (ns1.map f) := by
      have h1 := mapM_eq_map ns1.attach
        (fun (x : { x // x ∈ ns1 }) => match x with | ⟨n, _⟩ => doOperators ops n) (fun x => f x.1)
        (fun y _ => hf y.1 y.2)
      rw [h1]
      congr 1
      have : (fun (x : { x // x ∈ ns1 }) => f x.1) = f ∘ Subtype.val := rfl
      rw [this, ← List.map_map]
      simp
    simp only [hm, bind, Except.bind, pure, Except.pure]

/-- the result of `do_operators` as a total function (it never fails: `doOperators_ok`) -/
def opsOut (ops : List OpCfg) (n : Node) : Node :=
  match doOperators ops n with
  | .ok r => r
  | .error _ => n

theorem doOperators_eq_opsOut (ops : List OpCfg) (n : Node) : doOperators ops n = .ok (opsOut ops n) := by
  obtain ⟨r, hr⟩ := doOperators_ok ops n
  simp [opsOut, hr]

theorem opsOut_of_eq {ops : List OpCfg} {n r : Node} (h : doOperators ops n = .ok r) : opsOut ops n = r := by
  simp [opsOut, h]

theorem mem_joinWith {sep : List Node} {ls : List (List Node)} {x : Node} (h : x ∈ joinWith sep ls) :
    x ∈ sep ∨ ∃ l ∈ ls, x ∈ l := by
  induction ls with
  | nil => simp [joinWith] at h
  | cons a t ih =>
    cases t with
    | nil => rw [joinWith_single] at h; exact Or.inr ⟨a, by simp, h⟩
    | cons b t =>
      rw [joinWith_cons2] at h
      simp only [List.mem_append] at h
      rcases h with (h | h) | h
      · exact Or.inr ⟨a, by simp, h⟩
      · exact Or.inl h
      · rcases ih h with h | ⟨l, hl, hx⟩
        · exact Or.inl h
        · exact Or.inr ⟨l, by simp at hl ⊢; rcases hl with hl | hl <;> simp [hl], hx⟩

theorem isLeaf_laOK {n : Node} (h : n.isLeaf = true) : n.laOK = true := by
  cases n <;> simp_all [Node.isLeaf, Node.laOK]

theorem flat_laOK (gk : GK) (e : Expr) : e.wf = true → ∀ x ∈ e.flat gk, x.laOK = true := by
  induction e using Expr.ind with
  | atom n =>
    intro h x hx
    rw [flat_atom] at hx; simp at hx; subst hx
    rw [wf_atom] at h; exact isLeaf_laOK h
  | paren items _ =>
    intro _ x hx
    rw [flat_paren] at hx; simp at hx; subst hx; rfl
  | not e0 ih =>
    intro h x hx
    rw [wf_not] at h
    rw [flat_not] at hx
    simp only [List.mem_cons] at hx
    rcases hx with hx | hx
    · subst hx; rfl
    · exact ih h.2 x hx
  | op g es ih =>
    intro h x hx
    rw [wf_op] at h
    rw [flat_op] at hx
    rcases mem_joinWith hx with hx | ⟨l, hl, hx⟩
    · simp at hx; subst hx; rfl
    · simp only [List.mem_map] at hl
      obtain ⟨c, hc, rfl⟩ := hl
      exact ih c hc (h.2.2 c hc).2 x hx

theorem isOp_false_laOK {x : Node} (h : x.isOp = false) : x.laOK = true := by
  cases x <;> simp_all [Node.isOp, Node.laOK]

/-- `do_operators` on a group whose list is a well-formed sequence followed by finished nodes -/
theorem doOperators_seq (gk k : GK) (b : Rat) (items : List Expr) (hwf : ∀ e ∈ items, e.wf = true)
    (ih : ∀ e ∈ items, doOperators defaultOps (e.mid gk) = .ok (e.out gk))
    (tail : List Node) (ht : ∀ x ∈ tail, x.isOp = false) :
    doOperators defaultOps (.group k (flatSeq gk items ++ tail) b)
      = .ok (.group k (items.map (Expr.out gk) ++ tail.map (opsOut defaultOps)) b) := by
  have hp : opPasses defaultOps (flatSeq gk items ++ tail) = .ok (items.map (Expr.mid gk) ++ tail) := by
    rw [opPasses_eq_passesZ defaultOps (by intro o ho; simp [defaultOps] at ho; rcases ho with h | h | h | h | h | h <;> subst h <;> rfl),
        passesZ_seq gk items hwf tail ht]
    intro x hx
    simp only [List.mem_append] at hx
    rcases hx with hx | hx
    · simp only [flatSeq, List.mem_flatten, List.mem_map] at hx
      obtain ⟨l, ⟨e, he, rfl⟩, hx⟩ := hx
      exact flat_laOK gk e (hwf e he) x hx
    · exact isOp_false_laOK (ht x hx)
  rw [doOperators_group defaultOps k _ _ b (opsOut defaultOps) hp (fun x _ => doOperators_eq_opsOut _ x)]
  congr 2
  rw [List.map_append, List.map_map]
  congr 1
  exact List.map_congr_left (fun e he => opsOut_of_eq (ih e he))

/-! ### chains -/

theorem groupOf?_group (g k : GK) (ns : List Node) (b : Rat) :
    (Node.group k ns b).groupOf? g = if k = g then some (ns, b) else none := rfl

theorem combineL_merge {g : GK} (hm : g.merging = true) (X : List Node) (b : Rat) (m : Node) :
    combineL g (.group g X b) m = .group g (X ++ [m]) b := by
  simp [combineL, hm, groupOf?_group]

theorem combineL_fresh {g : GK} {a : Node} (h : (if g.merging then a.groupOf? g else none) = none) (m : Node) :
    combineL g a m = .group g [a, m] 1 := by
  simp [combineL, h]

theorem foldl_combineL_merge {g : GK} (hm : g.merging = true) (X : List Node) (b : Rat) (ms : List Node) :
    ms.foldl (combineL g) (.group g X b) = .group g (X ++ ms) b := by
  induction ms generalizing X with
  | nil => simp
  | cons m ms ih => simp only [List.foldl_cons, combineL_merge hm, ih]; simp

theorem foldl_combineL_fresh {g : GK} (hm : g.merging = true) {a : Node} (h : a.groupOf? g = none)
    (m : Node) (ms : List Node) :
    (m :: ms).foldl (combineL g) a = .group g (a :: m :: ms) 1 := by
  simp only [List.foldl_cons]
  rw [combineL_fresh (by simp [h]), foldl_combineL_merge hm]
  simp

theorem combineL_nonmerging {g : GK} (hm : g.merging = false) (a m : Node) :
    combineL g a m = .group g [a, m] 1 := by
  simp [combineL, hm]

/-- kind of group a node is (if any) -/
def Node.kind? : Node → Option GK
  | .group k _ _ => some k
  | _ => none

theorem groupOf?_none_iff (n : Node) (g : GK) : n.groupOf? g = none ↔ n.kind? ≠ some g := by
  cases n <;> simp [Node.groupOf?, Node.kind?]

theorem combineL_kind (g : GK) (a m : Node) : (combineL g a m).kind? = some g := by
  unfold combineL; split <;> rfl

theorem foldl_combineL_kind (g : GK) (a m : Node) (ms : List Node) :
    ((m :: ms).foldl (combineL g) a).kind? = some g := by
  induction ms generalizing a m with
  | nil => simp [combineL_kind]
  | cons m2 ms ih =>
    simp only [List.foldl_cons] at ih ⊢
    exact ih _ _

theorem out_atom (gk : GK) (n : Node) : (Expr.atom n).out gk = n := by rw [Expr.out]
theorem out_paren (gk : GK) (items : List Expr) :
    (Expr.paren items).out gk = .group gk (items.map (Expr.out gk)) 1 := by rw [Expr.out]
theorem out_not (gk : GK) (e : Expr) : (Expr.not e).out gk = .group .not [e.out gk] 1 := by rw [Expr.out]
theorem out_op_cons (gk : GK) (g : GK) (e : Expr) (es : List Expr) :
    (Expr.op g (e :: es)).out gk = (es.map (Expr.out gk)).foldl (combineL g) (e.out gk) := by
  rw [Expr.out]; simp

/-- the built node and the final node are groups of the same kind (or both no group) -/
theorem out_kind (gk : GK) (e : Expr) (h : e.wf = true) : (e.out gk).kind? = (e.mid gk).kind? := by
  cases e with
  | atom n => rw [out_atom, mid_atom]
  | paren items => rw [out_paren, mid_paren]; rfl
  | not e => rw [out_not, mid_not]; rfl
  | op g es =>
    rw [wf_op] at h
    cases es with
    | nil => simp at h
    | cons e1 es =>
      cases es with
      | nil => simp at h
      | cons e2 es =>
        rw [out_op_cons, mid_op_cons]
        simp only [List.map_cons]
        rw [foldl_combineL_kind, foldl_combineL_kind]

/-- the kind of the node built for an expression, by its shape -/
theorem mid_kind (gk : GK) (e : Expr) (h : e.wf = true) :
    (e.mid gk).kind? = match e with
      | .atom _ => none
      | .paren _ => some gk
      | .not _ => some .not
      | .op g _ => some g := by
  cases e with
  | atom n =>
    rw [mid_atom]; rw [wf_atom] at h
    cases n <;> simp_all [Node.isLeaf, Node.kind?]
  | paren items => rw [mid_paren]; rfl
  | not e => rw [mid_not]; rfl
  | op g es =>
    rw [wf_op] at h
    cases es with
    | nil => simp at h
    | cons e1 es =>
      cases es with
      | nil => simp at h
      | cons e2 es =>
        rw [mid_op_cons]
        simp only [List.map_cons]
        rw [foldl_combineL_kind]

/-! ### the node built for an expression is processed into its final form -/

theorem doOperators_tail (k : GK) (b : Rat) (tail : List Node) (ht : ∀ x ∈ tail, x.isOp = false) :
    doOperators defaultOps (.group k tail b) = .ok (.group k (tail.map (opsOut defaultOps)) b) := by
  have := doOperators_seq .and k b [] (by simp) (by simp) tail ht
  simpa [flatSeq] using this

theorem chain_nonmerging {g : GK} (hm : g.merging = false) (acc accOut : Node)
    (hacc : doOperators defaultOps acc = .ok accOut) (hop : acc.isOp = false)
    (ms : List Node) (hms : ∀ m ∈ ms, m.isOp = false) :
    doOperators defaultOps (ms.foldl (combineL g) acc)
      = .ok ((ms.map (opsOut defaultOps)).foldl (combineL g) accOut) := by
  induction ms generalizing acc accOut with
  | nil => simpa using hacc
  | cons m ms ih =>
    simp only [List.foldl_cons, List.map_cons]
    have htl : ∀ x ∈ [acc, m], x.isOp = false := by
      intro x hx
      simp only [List.mem_cons, List.not_mem_nil, or_false] at hx
      rcases hx with h | h
      · subst h; exact hop
      · subst h; exact hms _ (by simp)
    apply ih
    · rw [combineL_nonmerging hm, combineL_nonmerging hm, doOperators_tail g 1 [acc, m] htl]
      simp [opsOut_of_eq hacc]
    · rw [combineL_nonmerging hm]; rfl
    · intro x hx; exact hms x (by simp [hx])

theorem lvl_merging {g : GK} (h : 2 ≤ g.lvl) : g.merging = true ↔ g.lvl ≤ 3 := by
  cases g <;> simp [GK.lvl, GK.merging] at h ⊢

theorem doOperators_mid (gk : GK) (e : Expr) :
    e.wf = true → doOperators defaultOps (e.mid gk) = .ok (e.out gk) := by
  induction hsz : e.size using Nat.strongRecOn generalizing e with
  | _ sz ih =>
    intro hwf
    cases e with
    | atom n =>
      rw [mid_atom, out_atom]
      rw [wf_atom] at hwf
      exact doOperators_nongroup _ (by cases n <;> simp_all [Node.isLeaf, Node.isGroup])
    | paren items =>
      rw [mid_paren, out_paren]
      rw [wf_paren] at hwf
      have := doOperators_seq gk gk 1 items hwf.2
        (fun x hx => ih x.size (by have := Expr.size_mem hx; subst hsz; simp only [Expr.size]; omega) x rfl (hwf.2 x hx))
        [] (by simp)
      simpa using this
    | not e0 =>
      rw [mid_not, out_not]
      rw [wf_not] at hwf
      have h0 := ih e0.size (by subst hsz; simp only [Expr.size]; omega) e0 rfl hwf.2
      rw [doOperators_tail .not 1 [e0.mid gk] (by intro x hx; simp at hx; subst hx; exact mid_isOp gk e0 hwf.2)]
      simp [opsOut_of_eq h0]
    | op g es =>
      have hwf' := hwf
      rw [wf_op] at hwf
      obtain ⟨hg, hlen, hch⟩ := hwf
      cases es with
      | nil => simp at hlen
      | cons e1 es =>
        cases es with
        | nil => simp at hlen
        | cons e2 es =>
          have ihc : ∀ c ∈ e1 :: e2 :: es, doOperators defaultOps (c.mid gk) = .ok (c.out gk) := by
            intro c hc
            exact ih c.size (by have := Expr.size_mem hc; subst hsz; simp only [Expr.size]; omega) c rfl (hch c hc).2
          have hmsop : ∀ m ∈ (e2 :: es).map (Expr.mid gk), m.isOp = false := by
            intro m hm
            simp only [List.mem_map] at hm
            obtain ⟨c, hc, rfl⟩ := hm
            exact mid_isOp gk c (hch c (by simp [hc])).2
          have hmsout : ((e2 :: es).map (Expr.mid gk)).map (opsOut defaultOps) = (e2 :: es).map (Expr.out gk) := by
            rw [List.map_map]
            exact List.map_congr_left (fun c hc => opsOut_of_eq (ihc c (by simp [hc])))
          rw [mid_op_cons, out_op_cons]
          by_cases hm : g.merging = true
          · by_cases hk : (e1.mid gk).kind? = some g
            · -- a parenthesised group of the operator's own class absorbs the other operands
              have hk1 := mid_kind gk e1 (hch e1 (by simp)).2
              rw [hk] at hk1
              cases e1 with
              | atom n => simp at hk1
              | not e0 => simp at hk1; subst hk1; simp [GK.lvl] at hg
              | op g' es' =>
                simp at hk1; subst hk1
                have := (hch (.op g es') (by simp)).1
                simp [Expr.level] at this
              | paren items1 =>
                simp at hk1; subst hk1
                have hw1 := (hch (.paren items1) (by simp)).2
                rw [wf_paren] at hw1
                rw [mid_paren, out_paren, foldl_combineL_merge hm, foldl_combineL_merge hm]
                rw [doOperators_seq g g 1 items1 hw1.2
                  (fun x hx => ih x.size (by
                      have := Expr.size_mem hx
                      subst hsz; simp only [Expr.size, Expr.sizeL]; omega) x rfl (hw1.2 x hx))
                  _ hmsop, hmsout]
            · have hno : (e1.mid gk).groupOf? g = none := (groupOf?_none_iff _ _).2 hk
              have hno' : (e1.out gk).groupOf? g = none := by
                rw [groupOf?_none_iff, out_kind gk e1 (hch e1 (by simp)).2]; exact hk
              simp only [List.map_cons]
              rw [foldl_combineL_fresh hm hno, foldl_combineL_fresh hm hno']
              rw [doOperators_tail g 1 _ (by
                intro x hx
                simp only [List.mem_cons] at hx
                rcases hx with h | h
                · subst h; exact mid_isOp gk e1 (hch e1 (by simp)).2
                · exact hmsop x (by simp only [List.map_cons, List.mem_cons]; exact h))]
              have := hmsout
              simp only [List.map_cons] at this
              simp only [List.map_cons, opsOut_of_eq (ihc e1 (by simp))]
              injection this with h1 h2
              rw [h1, h2]
          · have hm' : g.merging = false := by simpa using hm
            rw [chain_nonmerging hm' (e1.mid gk) (e1.out gk) (ihc e1 (by simp))
              (mid_isOp gk e1 (hch e1 (by simp)).2) _ hmsop, hmsout]

end WM.Parser
