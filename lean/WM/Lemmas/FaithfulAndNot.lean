import WM.Lemmas.FaithfulInter
/-! `AndNotMatcher` is a faithful cursor over `diff`. -/
namespace WM.Matcher

theorem diff_nil_left (B : Den) : diff [] B = [] := rfl

theorem diff_dropBelow_right {A B : Den} {x : Nat} (hA : Asc A) (hB : Asc B)
    (hA' : ∀ p ∈ A, x ≤ p.1) : diff A (dropBelow x B) = diff A B := by
  apply den_ext (asc_diff _ hA) (asc_diff _ hA)
  intro d
  rw [lookup_diff _ hA, lookup_diff _ hA, lookup_dropBelow hB]
  by_cases h : d < x
  · rw [if_pos h, lookup_none_of_ge hA' h]; simp
  · rw [if_neg h]

theorem dropBelow_diff {A B : Den} (hA : Asc A) (hB : Asc B) (t : Nat) :
    diff (dropBelow t A) (dropBelow t B) = dropBelow t (diff A B) := by
  apply den_ext (asc_diff _ (asc_dropBelow t hA)) (asc_dropBelow t (asc_diff _ hA))
  intro d
  rw [lookup_diff _ (asc_dropBelow t hA), lookup_dropBelow hA, lookup_dropBelow hB,
    lookup_dropBelow (asc_diff _ hA), lookup_diff _ hA]
  by_cases h : d < t <;> simp [h]

theorem diff_cons_of_absent {x : Nat} {r : Rat} {La B : Den} (h : lookup B x = none) :
    diff ((x, r) :: La) B = (x, r) :: diff La B := by
  simp [diff, List.filter_cons, h]

theorem diff_cons_of_present {x : Nat} {r s : Rat} {La B : Den} (h : lookup B x = some s) :
    diff ((x, r) :: La) B = diff La B := by
  simp [diff, List.filter_cons, h]

namespace AndNot
variable {α β : Type} {A : Ops α} {B : Ops β} {dA fA : α → Den} {dB fB : β → Den}
  {WA : α → Prop} {WB : β → Prop}

/-- both active ⇒ the negative matcher is strictly ahead of the positive one -/
def Ahead (dA : α → Den) (dB : β → Den) (m : Bin α β) : Prop :=
  ∀ x r La y s Lb, dA m.a = (x, r) :: La → dB m.b = (y, s) :: Lb → x < y

structure Synced (A : Ops α) (B : Ops β) (dA fA : α → Den) (dB fB : β → Den) (WA : α → Prop) (WB : β → Prop)
    (m m' : Bin α β) : Prop where
  wa : WA m'.a
  wb : WB m'.b
  ahead : Ahead dA dB m'
  den_eq : diff (dA m'.a) (dB m'.b) = diff (dA m.a) (dB m.b)
  rem_a : A.rem m'.a ≤ A.rem m.a
  rem_b : B.rem m'.b ≤ B.rem m.b
  same_a : A.rem m'.a = A.rem m.a → dA m'.a = dA m.a
  same_b : B.rem m'.b = B.rem m.b → dB m'.b = dB m.b
  full_a : fA m'.a = fA m.a
  full_b : fB m'.b = fB m.b

theorem ahead_of_nil_left {m : Bin α β} (h : dA m.a = []) : Ahead dA dB m := by
  intro x r La y s Lb h1 _; rw [h] at h1; cases h1

theorem ahead_of_nil_right {m : Bin α β} (h : dB m.b = []) : Ahead dA dB m := by
  intro x r La y s Lb _ h2; rw [h] at h2; cases h2

theorem Synced.refl_of_ahead {m : Bin α β} (wa : WA m.a) (wb : WB m.b) (hal : Ahead dA dB m) :
    Synced A B dA fA dB fB WA WB m m :=
  ⟨wa, wb, hal, rfl, Nat.le_refl _, Nat.le_refl _, fun _ => rfl, fun _ => rfl, rfl, rfl⟩

/-- the loop of `_find_next`: `a` is on `x`, nothing of `b` lies below `x` -/
theorem findLoop_spec (FA : Faithful A dA fA WA) (FB : Faithful B dB fB WB) :
    ∀ (fuel : Nat) (a : α) (b : β) (x : Nat) (ra : Rat) (La : Den),
      WA a → WB b → dA a = (x, ra) :: La → (∀ p ∈ dB b, x ≤ p.1) → A.rem a < fuel →
      ∃ m', findLoop A B fuel a b x = .ok m' ∧ Synced A B dA fA dB fB WA WB ⟨a, b⟩ m' := by
  intro fuel
  induction fuel with
  | zero => intro a b x ra La _ _ _ _ h; omega
  | succ n ih =>
    intro a b x ra La wa wb ha hge hfuel
    have hAa : A.isActive a = true := (FA.active _ wa).2 (by simp [ha])
    have ascA := FA.asc _ wa
    have ascB := FB.asc _ wb
    unfold findLoop
    cases hb : dB b with
    | nil =>
      have hBi : B.isActive b = false := (FB.inactive wb).2 hb
      exact ⟨⟨a, b⟩, by simp [hAa, hBi]; rfl, Synced.refl_of_ahead wa wb (ahead_of_nil_right hb)⟩
    | cons q Lb =>
      obtain ⟨y, rb⟩ := q
      have hBa : B.isActive b = true := (FB.active _ wb).2 (by simp [hb])
      have hxy : x ≤ y := hge (y, rb) (by rw [hb]; exact List.mem_cons_self)
      simp only [hAa, hBa, Bool.and_self, ↓reduceIte, FB.id _ _ _ _ wb hb, bind, Except.bind]
      by_cases heq : x = y
      · subst heq
        simp only [beq_self_eq_true, ↓reduceIte]
        obtain ⟨a', ha1, ha2, ha3, ha4, ha5⟩ := FA.next _ _ _ _ wa ha
        simp only [ha1]
        -- x is excluded: the remaining list is that of (La, b)
        have hdrop : diff (dA a) (dB b) = diff La (dB b) := by
          rw [ha, hb]; exact diff_cons_of_present (lookup_head _ _ _)
        cases hLa : La with
        | nil =>
          have hina : A.isActive a' = false := (FA.inactive ha2).2 (by rw [ha3, hLa])
          refine ⟨⟨a', b⟩, by simp [hina]; rfl, ha2, wb, ahead_of_nil_left (by rw [ha3, hLa]), ?_,
            Nat.le_of_lt ha4, Nat.le_refl _, fun he => by simp only at he; omega, fun _ => rfl, ha5, rfl⟩
          simp only [ha3, hLa, diff_nil_left, hdrop]
        | cons p La' =>
          obtain ⟨x', r'⟩ := p
          have hact' : A.isActive a' = true := (FA.active _ ha2).2 (by rw [ha3, hLa]; simp)
          have hda' : dA a' = (x', r') :: La' := by rw [ha3, hLa]
          obtain ⟨b', hb1, hb2, hb3, hb4, hb5, hb6⟩ := FB.skipTo b x' wb (by simp [hb])
          have hge' : ∀ p ∈ dB b', x' ≤ p.1 := by
            intro p hp
            rw [hb3] at hp
            rcases dropBelow_eq_nil_or ascB x' with h0 | ⟨x2, s2, L2, h0, hle⟩
            · rw [h0] at hp; cases hp
            · have := Faithful.head_le (asc_dropBelow x' ascB) h0 p hp; omega
          obtain ⟨m', hm1, hm2⟩ := ih a' b' x' r' La' ha2 hb2 hda' hge' (by omega)
          have hkeys : ∀ p ∈ dA a', x' ≤ p.1 := Faithful.head_le (FA.asc _ ha2) hda'
          refine ⟨m', by simp [hact', FA.id _ _ _ _ ha2 hda', hb1, hm1], hm2.wa, hm2.wb, hm2.ahead, ?_, ?_, ?_,
            ?_, ?_, by rw [hm2.full_a]; exact ha5, by rw [hm2.full_b]; exact hb6⟩
          · rw [hm2.den_eq, hdrop]; simp only
            rw [hb3, diff_dropBelow_right (FA.asc _ ha2) ascB hkeys, ha3]
          · have := hm2.rem_a; simp only at this ⊢; omega
          · have := hm2.rem_b; simp only at this ⊢; omega
          · intro he; have := hm2.rem_a; simp only at this he; omega
          · intro he
            have r2 := hm2.rem_b
            simp only at r2 he ⊢
            have e1 : B.rem m'.b = B.rem b' := by omega
            have e2 : B.rem b' = B.rem b := by omega
            rw [hm2.same_b e1]
            exact Classical.byContradiction fun hh => by have := hb5 hh; omega
      · have hne : (x == y) = false := by simp [heq]
        simp only [hne, Bool.false_eq_true, ↓reduceIte]
        refine ⟨⟨a, b⟩, rfl, Synced.refl_of_ahead wa wb ?_⟩
        intro x' r' La' y' s' Lb' h1 h2
        simp only at h1 h2
        rw [ha] at h1; rw [hb] at h2; cases h1; cases h2; omega

/-- `_find_next` from any two well-formed sub-matchers -/
theorem findNext_spec (FA : Faithful A dA fA WA) (FB : Faithful B dB fB WB)
    (m : Bin α β) (wa : WA m.a) (wb : WB m.b) :
    ∃ m', findNext A B m = .ok m' ∧ Synced A B dA fA dB fB WA WB m m' := by
  unfold findNext
  cases ha : dA m.a with
  | nil =>
    have := (FA.inactive wa).2 ha
    exact ⟨m, by simp [this]; rfl, Synced.refl_of_ahead wa wb (ahead_of_nil_left ha)⟩
  | cons p La =>
    obtain ⟨x, ra⟩ := p
    have hAa : A.isActive m.a = true := (FA.active _ wa).2 (by simp [ha])
    have ascA := FA.asc _ wa
    have ascB := FB.asc _ wb
    cases hb : dB m.b with
    | nil =>
      have := (FB.inactive wb).2 hb
      exact ⟨m, by simp [this]; rfl, Synced.refl_of_ahead wa wb (ahead_of_nil_right hb)⟩
    | cons q Lb =>
      obtain ⟨y, rb⟩ := q
      have hBa : B.isActive m.b = true := (FB.active _ wb).2 (by simp [hb])
      simp only [hAa, hBa, Bool.and_self, Bool.not_true, Bool.false_eq_true, ↓reduceIte,
        FA.id _ _ _ _ wa ha, FB.id _ _ _ _ wb hb, bind, Except.bind]
      have hkeysA : ∀ p ∈ dA m.a, x ≤ p.1 := Faithful.head_le ascA ha
      by_cases hlt : y < x
      · obtain ⟨b', hb1, hb2, hb3, hb4, hb5, hb6⟩ := FB.skipTo m.b x wb (by simp [hb])
        have hge' : ∀ p ∈ dB b', x ≤ p.1 := by
          intro p hp
          rw [hb3] at hp
          rcases dropBelow_eq_nil_or ascB x with h0 | ⟨x2, s2, L2, h0, hle⟩
          · rw [h0] at hp; cases hp
          · have := Faithful.head_le (asc_dropBelow x ascB) h0 p hp; omega
        obtain ⟨m', hm1, hm2⟩ := findLoop_spec FA FB (A.rem m.a + 1) m.a b' x ra La wa hb2 ha hge' (by omega)
        refine ⟨m', by simp [Ops.skipToIf, hlt, hb1, hm1], hm2.wa, hm2.wb, hm2.ahead, ?_, hm2.rem_a, ?_,
          hm2.same_a, ?_, hm2.full_a, by rw [hm2.full_b]; exact hb6⟩
        · rw [hm2.den_eq]; simp only
          rw [hb3, diff_dropBelow_right ascA ascB hkeysA]
        · have := hm2.rem_b; simp only at this ⊢; omega
        · intro he
          have r2 := hm2.rem_b
          simp only at r2 he ⊢
          have e1 : B.rem m'.b = B.rem b' := by omega
          have e2 : B.rem b' = B.rem m.b := by omega
          rw [hm2.same_b e1]
          exact Classical.byContradiction fun hh => by have := hb5 hh; omega
      · have hge' : ∀ p ∈ dB m.b, x ≤ p.1 := by
          intro p hp
          have := Faithful.head_le ascB hb p hp; omega
        obtain ⟨m', hm1, hm2⟩ := findLoop_spec FA FB (A.rem m.a + 1) m.a m.b x ra La wa wb ha hge' (by omega)
        exact ⟨m', by simp [Ops.skipToIf, hlt, hm1], hm2⟩

theorem findFirst_spec (FA : Faithful A dA fA WA) (FB : Faithful B dB fB WB)
    (m : Bin α β) (wa : WA m.a) (wb : WB m.b) :
    ∃ m', findFirst A B m = .ok m' ∧ Synced A B dA fA dB fB WA WB m m' := by
  unfold findFirst
  by_cases hc : (A.isActive m.a && B.isActive m.b) = true
  · simp only [hc, ↓reduceIte]; exact findNext_spec FA FB m wa wb
  · simp only [hc, Bool.false_eq_true, ↓reduceIte]
    refine ⟨m, rfl, Synced.refl_of_ahead wa wb ?_⟩
    cases ha : dA m.a with
    | nil => exact ahead_of_nil_left ha
    | cons p La =>
      cases hb : dB m.b with
      | nil => exact ahead_of_nil_right hb
      | cons q Lb =>
        exfalso; apply hc
        simp [(FA.active _ wa).2 (by simp [ha]), (FB.active _ wb).2 (by simp [hb])]

/-- head of a well-formed and-not -/
theorem den_cons (FA : Faithful A dA fA WA) (FB : Faithful B dB fB WB) (m : Bin α β)
    (wa : WA m.a) (wb : WB m.b) (hal : Ahead dA dB m) {x : Nat} {r : Rat} {La : Den}
    (ha : dA m.a = (x, r) :: La) : diff (dA m.a) (dB m.b) = (x, r) :: diff La (dB m.b) := by
  rw [ha]
  apply diff_cons_of_absent
  cases hb : dB m.b with
  | nil => rfl
  | cons q Lb =>
    obtain ⟨y, s⟩ := q
    have := hal x r La y s Lb ha hb
    exact lookup_lt_head (hb ▸ FB.asc _ wb) this

theorem faithful (FA : Faithful A dA fA WA) (FB : Faithful B dB fB WB) :
    Faithful (AndNot.ops A B) (fun m => diff (dA m.a) (dB m.b)) (fun m => diff (fA m.a) (fB m.b))
      (fun m => WA m.a ∧ WB m.b ∧ Ahead dA dB m) where
  asc m h := asc_diff _ (FA.asc _ h.1)
  active m h := by
    show A.isActive m.a = true ↔ _
    rw [FA.active _ h.1]
    constructor
    · intro hne
      cases ha : dA m.a with
      | nil => exact absurd ha hne
      | cons p La =>
        obtain ⟨x, r⟩ := p
        have := den_cons FA FB m h.1 h.2.1 h.2.2 ha
        rw [ha] at this; rw [this]; simp
    · intro hne ha; apply hne; simp only [ha, diff_nil_left]
  id m x r L h hd := by
    show A.id m.a = _
    cases ha : dA m.a with
    | nil => rw [ha, diff_nil_left] at hd; cases hd
    | cons p La =>
      obtain ⟨x', r'⟩ := p
      rw [den_cons FA FB m h.1 h.2.1 h.2.2 ha] at hd
      obtain ⟨h4, -⟩ := List.cons.inj hd; cases h4
      exact FA.id _ _ _ _ h.1 ha
  score m x r L h hd := by
    show A.score m.a = _
    cases ha : dA m.a with
    | nil => rw [ha, diff_nil_left] at hd; cases hd
    | cons p La =>
      obtain ⟨x', r'⟩ := p
      rw [den_cons FA FB m h.1 h.2.1 h.2.2 ha] at hd
      obtain ⟨h4, -⟩ := List.cons.inj hd; cases h4
      exact FA.score _ _ _ _ h.1 ha
  next m x r L h hd := by
    show ∃ s' : Bin α β, AndNot.next A B m = _ ∧ _ ∧ _ ∧ A.rem s'.a + B.rem s'.b < A.rem m.a + B.rem m.b ∧ _
    unfold AndNot.next
    cases ha : dA m.a with
    | nil => rw [ha, diff_nil_left] at hd; cases hd
    | cons p La =>
      obtain ⟨x', r'⟩ := p
      rw [den_cons FA FB m h.1 h.2.1 h.2.2 ha] at hd
      obtain ⟨-, hL⟩ := List.cons.inj hd; subst hL
      have hAa : A.isActive m.a = true := (FA.active _ h.1).2 (by simp [ha])
      obtain ⟨a', ha1, ha2, ha3, ha4, ha5⟩ := FA.next _ _ _ _ h.1 ha
      simp only [hAa, Bool.not_true, Bool.false_eq_true, ↓reduceIte, ha1, bind, Except.bind]
      obtain ⟨m', hm1, hm2⟩ := findFirst_spec FA FB ⟨a', m.b⟩ ha2 h.2.1
      refine ⟨m', by rw [← hm1]; rfl, ⟨hm2.wa, hm2.wb, hm2.ahead⟩, ?_, ?_, ?_⟩
      · rw [hm2.den_eq]; simp only [ha3]
      · have := hm2.rem_a; have := hm2.rem_b; simp only at *; omega
      · simp only [hm2.full_a, hm2.full_b, ha5]
  skipTo m t h hne := by
    show ∃ s' : Bin α β, AndNot.skipTo A B m t = _ ∧ _ ∧ _ ∧ A.rem s'.a + B.rem s'.b ≤ A.rem m.a + B.rem m.b ∧
      (_ → A.rem s'.a + B.rem s'.b < A.rem m.a + B.rem m.b) ∧ _
    unfold AndNot.skipTo
    have hda : dA m.a ≠ [] := by intro ha; apply hne; simp only [ha, diff_nil_left]
    obtain ⟨x, r, La, ha⟩ := exists_cons_of_ne_nil hda
    have hAa : A.isActive m.a = true := (FA.active _ h.1).2 hda
    have ascA := FA.asc _ h.1
    have ascB := FB.asc _ h.2.1
    simp only [hAa, Bool.not_true, Bool.false_eq_true, ↓reduceIte, FA.id _ _ _ _ h.1 ha, bind, Except.bind]
    by_cases hlt : t < x
    · refine ⟨m, by simp [hlt]; rfl, h, ?_, Nat.le_refl _, fun hh => absurd rfl hh, rfl⟩
      rw [den_cons FA FB m h.1 h.2.1 h.2.2 ha]
      exact (dropBelow_of_le_head (by omega)).symm
    · simp only [hlt, ↓reduceIte]
      obtain ⟨a', ha1, ha2, ha3, ha4, ha5, ha6⟩ := FA.skipTo m.a t h.1 hda
      simp only [ha1]
      by_cases hb : dB m.b = []
      · have hBi : B.isActive m.b = false := (FB.inactive h.2.1).2 hb
        refine ⟨{ m with a := a' }, by simp [hBi]; rfl, ⟨ha2, h.2.1, ahead_of_nil_right hb⟩, ?_, ?_, ?_, ?_⟩
        · simp only [ha3, hb]
          have := dropBelow_diff ascA (B := []) asc_nil t
          simpa using this
        · simp only; omega
        · intro hne2
          simp only at hne2 ⊢
          have : dA a' ≠ dA m.a := fun hh => hne2 (by rw [hh])
          have := ha5 this; omega
        · simp only [ha6]
      · have hBa : B.isActive m.b = true := (FB.active _ h.2.1).2 hb
        obtain ⟨b', hb1, hb2, hb3, hb4, hb5, hb6⟩ := FB.skipTo m.b t h.2.1 hb
        obtain ⟨m', hm1, hm2⟩ := findNext_spec FA FB ⟨a', b'⟩ ha2 hb2
        refine ⟨m', by simp [hBa, hb1, hm1], ⟨hm2.wa, hm2.wb, hm2.ahead⟩, ?_, ?_, ?_, ?_⟩
        · rw [hm2.den_eq]; simp only [ha3, hb3]; exact dropBelow_diff ascA ascB t
        · have := hm2.rem_a; have := hm2.rem_b; simp only at *; omega
        · intro hne2
          have r1 := hm2.rem_a; have r2 := hm2.rem_b
          simp only at r1 r2 hne2 ⊢
          by_cases e : A.rem m'.a + B.rem m'.b < A.rem m.a + B.rem m.b
          · exact e
          · exfalso
            have e1 : A.rem m'.a = A.rem a' := by omega
            have e2 : B.rem m'.b = B.rem b' := by omega
            have d1 : dA a' = dA m.a := Classical.byContradiction fun hh => by have := ha5 hh; omega
            have d2 : dB b' = dB m.b := Classical.byContradiction fun hh => by have := hb5 hh; omega
            apply hne2
            rw [hm2.same_a e1, hm2.same_b e2]
            simp only [d1, d2]
        · simp only [hm2.full_a, hm2.full_b, ha6, hb6]
  reset m h := by
    show ∃ s' : Bin α β, AndNot.reset A B m = _ ∧ _
    unfold AndNot.reset
    obtain ⟨a', ha1, ha2, ha3, ha4⟩ := FA.reset _ h.1
    obtain ⟨b', hb1, hb2, hb3, hb4⟩ := FB.reset _ h.2.1
    obtain ⟨m', hm1, hm2⟩ := findFirst_spec FA FB ⟨a', b'⟩ ha2 hb2
    refine ⟨m', by simp [ha1, hb1, hm1, bind, Except.bind], ⟨hm2.wa, hm2.wb, hm2.ahead⟩, ?_, ?_⟩
    · rw [hm2.den_eq]; simp only [ha3, hb3]
    · simp only [hm2.full_a, hm2.full_b, ha4, hb4]

/-- the constructor establishes the invariant (C11 `constructors_wf`): this is the lemma that does
    not hold for the `_find_first` of the pinned tree -/
theorem init_spec (FA : Faithful A dA fA WA) (FB : Faithful B dB fB WB) (a : α) (b : β) (wa : WA a)
    (wb : WB b) :
    ∃ m', AndNot.init A B a b = .ok m' ∧ (WA m'.a ∧ WB m'.b ∧ Ahead dA dB m') ∧
      diff (dA m'.a) (dB m'.b) = diff (dA a) (dB b) ∧ diff (fA m'.a) (fB m'.b) = diff (fA a) (fB b) := by
  obtain ⟨m', h1, h2⟩ := findFirst_spec FA FB ⟨a, b⟩ wa wb
  exact ⟨m', h1, ⟨h2.wa, h2.wb, h2.ahead⟩, h2.den_eq, by rw [h2.full_a, h2.full_b]⟩

end AndNot
end WM.Matcher
