import WM.Model.Numeric
/-! Bit-level facts about the masks of `split_ranges`, turned into `/`, `%`, `*` arithmetic. -/
namespace WM.Numeric

theorem mask_eq (step shift : Nat) : ((1 <<< step) - 1) <<< shift = (2 ^ step - 1) * 2 ^ shift := by
  rw [Nat.one_shiftLeft, Nat.shiftLeft_eq]

theorem and_mask (x step shift : Nat) :
    x &&& ((2 ^ step - 1) * 2 ^ shift) = (x / 2 ^ shift % 2 ^ step) * 2 ^ shift := by
  apply Nat.eq_of_testBit_eq
  intro i
  simp only [Nat.testBit_and, Nat.testBit_mul_two_pow, Nat.testBit_two_pow_sub_one,
    Nat.testBit_mod_two_pow, Nat.testBit_div_two_pow]
  by_cases h : shift ≤ i
  · have : i - shift + shift = i := by omega
    simp [h, this, Bool.and_comm]
  · simp [h]

theorem or_low (x shift : Nat) :
    x ||| (2 ^ shift - 1) = x / 2 ^ shift * 2 ^ shift + (2 ^ shift - 1) := by
  have hlt : 2 ^ shift - 1 < 2 ^ shift := by have := Nat.two_pow_pos shift; omega
  rw [← Nat.shiftLeft_eq, Nat.shiftLeft_add_eq_or_of_lt hlt]
  apply Nat.eq_of_testBit_eq
  intro i
  simp only [Nat.testBit_or, Nat.testBit_shiftLeft, Nat.testBit_two_pow_sub_one,
    Nat.testBit_div_two_pow]
  by_cases h : shift ≤ i
  · have : i - shift + shift = i := by omega
    have h2 : ¬ i < shift := by omega
    simp [h, this, h2]
  · have h2 : i < shift := by omega
    simp [h, h2]

theorem testBit_notMask (n mask i : Nat) :
    (notMask n mask).testBit i = (decide (i < n + 1) && !mask.testBit i) := by
  unfold notMask
  show (pyAnd (Int.negSucc mask) _).testBit i = _
  simp only [pyAnd, Nat.one_shiftLeft, Nat.testBit_xor, Nat.testBit_and, Nat.testBit_two_pow_sub_one]
  cases decide (i < n + 1) <;> cases mask.testBit i <;> rfl

theorem and_notMask (n step shift x : Nat) (hx : x < 2 ^ (n + 1)) :
    x &&& notMask n ((2 ^ step - 1) * 2 ^ shift)
      = x / 2 ^ (shift + step) * 2 ^ (shift + step) + x % 2 ^ shift := by
  have hlt : x % 2 ^ shift < 2 ^ (shift + step) :=
    Nat.lt_of_lt_of_le (Nat.mod_lt _ (Nat.two_pow_pos _)) (Nat.pow_le_pow_right (by omega) (by omega))
  rw [← Nat.shiftLeft_eq (x / 2 ^ (shift + step)), Nat.shiftLeft_add_eq_or_of_lt hlt]
  apply Nat.eq_of_testBit_eq
  intro i
  simp only [Nat.testBit_and, testBit_notMask, Nat.testBit_mul_two_pow, Nat.testBit_two_pow_sub_one,
    Nat.testBit_or, Nat.testBit_shiftLeft, Nat.testBit_div_two_pow, Nat.testBit_mod_two_pow]
  by_cases hi : i < n + 1
  · by_cases h1 : shift ≤ i
    · by_cases h2 : shift + step ≤ i
      · have e : i - (shift + step) + (shift + step) = i := by omega
        have h3 : ¬ (i - shift < step) := by omega
        have h4 : ¬ (i < shift) := by omega
        simp [hi, h1, h2, e, h3, h4]
      · have h3 : i - shift < step := by omega
        have h4 : ¬ (i < shift) := by omega
        simp [hi, h1, h2, h3, h4]
    · have h2 : ¬ (shift + step ≤ i) := by omega
      have h4 : i < shift := by omega
      simp [hi, h1, h2, h4]
  · have : x.testBit i = false :=
      Nat.testBit_lt_two_pow (Nat.lt_of_lt_of_le hx (Nat.pow_le_pow_right (by omega) (by omega)))
    have e : i - (shift + step) + (shift + step) = i ∨ ¬ (shift + step ≤ i) := by omega
    rcases e with e | e
    · simp [this, e]
    · simp [this, e]

theorem pyAnd_natCast (x m : Nat) : pyAnd (x : Int) m = x &&& m := rfl

theorem pyAnd_neg_big (n step shift a : Nat) (h : shift + step ≤ n) (ha : a < 2 ^ n) :
    2 ^ n ≤ pyAnd (Int.negSucc a) (notMask n ((2 ^ step - 1) * 2 ^ shift)) := by
  apply Nat.ge_two_pow_of_testBit
  have h1 : a.testBit n = false := Nat.testBit_lt_two_pow ha
  have h2 : ¬ (n - shift < step) := by omega
  simp [pyAnd, testBit_notMask, Nat.testBit_mul_two_pow, h1, h2]

theorem natCast_sub_lt (m k : Nat) (h : m < k) : (m : Int) - (k : Int) = Int.negSucc (k - m - 1) := by
  omega

theorem mul_facts (a c K : Nat) :
    (a < c → a * K + K ≤ c * K) ∧ (c < a → c * K + K ≤ a * K) ∧ (a = c → a * K = c * K) := by
  refine ⟨fun h => ?_, fun h => ?_, fun h => by rw [h]⟩
  · have := Nat.mul_le_mul_right K (Nat.succ_le_of_lt h); rw [Nat.succ_mul] at this; exact this
  · have := Nat.mul_le_mul_right K (Nat.succ_le_of_lt h); rw [Nat.succ_mul] at this; exact this

end WM.Numeric
