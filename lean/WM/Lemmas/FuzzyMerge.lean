import WM.Lemmas.Walk
import WM.Lemmas.LevDP
/-! `MultiReader._merge_terms`, `terms_from`, `expand_prefix`: the merged term list of a
multi-segment reader is the strictly sorted union of the segment term lists, and the early `return`
of `expand_prefix` loses nothing (the terms that start with a prefix are contiguous). -/
namespace WM.Lev

/-- The terms an entry of `current` stands for. -/
def Cur.all (c : Cur) : List (List Nat) := c.1 :: c.2

def curWeight (cur : List Cur) : Nat := (cur.map fun c => c.2.length + 1).sum

theorem sorted_head_le {a : List Nat} {l : List (List Nat)} (hs : SortedLex (a :: l)) (t : List Nat)
    (ht : t ∈ a :: l) : a ≤ t := by
  rcases List.mem_cons.mp ht with rfl | h
  · exact List.le_refl _
  · exact List.le_of_lt ((List.pairwise_cons.mp hs).1 t h)

theorem minTerm_mem (c : Cur) (cs : List Cur) : ∃ x, x ∈ c :: cs ∧ x.1 = minTerm c cs := by
  induction cs generalizing c with
  | nil => exact ⟨c, by simp, rfl⟩
  | cons c' rest ih =>
    obtain ⟨x, hx, hxe⟩ := ih c'
    simp only [minTerm]
    split
    · exact ⟨x, List.mem_cons_of_mem _ hx, hxe⟩
    · exact ⟨c, by simp, rfl⟩

theorem minTerm_le (c : Cur) (cs : List Cur) : ∀ x, x ∈ c :: cs → minTerm c cs ≤ x.1 := by
  induction cs generalizing c with
  | nil => intro x hx; simp at hx; subst hx; exact List.le_refl _
  | cons c' rest ih =>
    intro x hx
    simp only [minTerm]
    rcases List.mem_cons.mp hx with rfl | hx'
    · split
      · rename_i h; exact List.le_of_lt ((lexLt_iff _ _).mp h)
      · exact List.le_refl _
    · have h1 := ih c' x hx'
      split
      · exact h1
      · rename_i h
        have : c.1 ≤ minTerm c' rest := by
          have := (lexLe_iff c.1 (minTerm c' rest)).mp (by simpa [lexLe] using h)
          exact this
        exact List.le_trans this h1

theorem advance_sorted (term : List Nat) (l : List (List Nat)) (hs : SortedLex (term :: l)) :
    advance term l = (match l with | [] => none | t :: r => some (t, r)) := by
  cases l with
  | nil => rfl
  | cons t r =>
    have hlt : term < t := (List.pairwise_cons.mp hs).1 t (by simp)
    have : (t == term) = false := by
      rw [beq_eq_false_iff_ne]
      intro h; subst h; exact List.lt_irrefl _ hlt
    simp [advance, this]

def optWeight : Option Cur → Nat
  | none => 0
  | some c => c.2.length + 1

theorem advance_weight (term : List Nat) (l : List (List Nat)) :
    optWeight (advance term l) ≤ l.length := by
  induction l with
  | nil => simp [advance, optWeight]
  | cons t r ih =>
    simp only [advance]
    by_cases h : (t == term) = true
    · rw [if_pos h]; exact Nat.le_succ_of_le ih
    · rw [if_neg h]; simp [optWeight]

/-- One round of the merge loop, per iterator. -/
def stepCur (term : List Nat) (x : Cur) : Option Cur :=
  if x.1 == term then advance term x.2 else some x

theorem stepCur_weight_le (term : List Nat) (x : Cur) :
    optWeight (stepCur term x) ≤ x.2.length + 1 := by
  unfold stepCur
  by_cases h : (x.1 == term) = true
  · rw [if_pos h]; exact Nat.le_succ_of_le (advance_weight term x.2)
  · rw [if_neg h]; exact Nat.le_refl _

theorem stepCur_weight_lt (term : List Nat) (x : Cur) (h : x.1 = term) :
    optWeight (stepCur term x) < x.2.length + 1 := by
  unfold stepCur
  rw [if_pos (by simp [h])]
  exact Nat.lt_succ_of_le (advance_weight term x.2)

theorem weight_filterMap_le (term : List Nat) (cur : List Cur) :
    curWeight (cur.filterMap (stepCur term)) ≤ curWeight cur := by
  induction cur with
  | nil => simp [curWeight]
  | cons x rest ih =>
    have h1 := stepCur_weight_le term x
    unfold curWeight at ih ⊢
    rw [List.filterMap_cons]
    cases hx : stepCur term x with
    | none => simp only [List.map_cons, List.sum_cons]; omega
    | some c =>
      rw [hx] at h1
      simp only [List.map_cons, List.sum_cons, optWeight] at h1 ⊢
      omega

theorem weight_filterMap_lt (term : List Nat) (cur : List Cur) (h : ∃ x, x ∈ cur ∧ x.1 = term) :
    curWeight (cur.filterMap (stepCur term)) < curWeight cur := by
  induction cur with
  | nil => obtain ⟨x, hx, _⟩ := h; simp at hx
  | cons x rest ih =>
    obtain ⟨y, hy, hye⟩ := h
    have hle := weight_filterMap_le term rest
    have h1 := stepCur_weight_le term x
    unfold curWeight at ih hle ⊢
    rw [List.filterMap_cons]
    rcases List.mem_cons.mp hy with rfl | hy'
    · have h2 := stepCur_weight_lt term y hye
      cases hx : stepCur term y with
      | none => simp only [List.map_cons, List.sum_cons]; omega
      | some c =>
        rw [hx] at h2
        simp only [List.map_cons, List.sum_cons, optWeight] at h2 ⊢
        omega
    · have h3 := ih ⟨y, hy', hye⟩
      cases hx : stepCur term x with
      | none => simp only [List.map_cons, List.sum_cons]; omega
      | some c =>
        rw [hx] at h1
        simp only [List.map_cons, List.sum_cons, optWeight] at h1 ⊢
        omega

/-- What one round does to one sorted iterator whose head is `≥ term`: it loses exactly `term`. -/
theorem stepCur_mem (term : List Nat) (x : Cur) (hs : SortedLex x.all) (hle : term ≤ x.1) (t : List Nat) :
    (∃ c, stepCur term x = some c ∧ t ∈ c.all) ↔ (t ∈ x.all ∧ t ≠ term) := by
  obtain ⟨a, l⟩ := x
  simp only [Cur.all] at hs hle ⊢
  unfold stepCur
  by_cases ha : a = term
  · subst ha
    simp only [beq_self_eq_true, if_true]
    rw [advance_sorted a l hs]
    have hgt : ∀ u, u ∈ l → a < u := (List.pairwise_cons.mp hs).1
    cases l with
    | nil => simp
    | cons u r =>
      simp only [Option.some.injEq, exists_eq_left']
      constructor
      · intro h
        exact ⟨List.mem_cons_of_mem _ h, fun he => by subst he; exact List.lt_irrefl _ (hgt _ h)⟩
      · rintro ⟨h, hne⟩
        rcases List.mem_cons.mp h with rfl | h'
        · exact absurd rfl hne
        · exact h'
  · have : (a == term) = false := by rw [beq_eq_false_iff_ne]; exact ha
    simp only [this, Bool.false_eq_true, if_false, Option.some.injEq, exists_eq_left']
    constructor
    · intro h
      refine ⟨h, fun he => ?_⟩
      subst he
      have h1 : a ≤ t := sorted_head_le hs t h
      exact ha (List.le_antisymm h1 hle)
    · exact fun h => h.1

theorem stepCur_sorted (term : List Nat) (x c : Cur) (hs : SortedLex x.all) (hle : term ≤ x.1)
    (h : stepCur term x = some c) : SortedLex c.all := by
  obtain ⟨a, l⟩ := x
  unfold stepCur at h
  simp only [Cur.all] at hs hle
  by_cases ha : a = term
  · subst ha
    simp only [beq_self_eq_true, if_true] at h
    rw [advance_sorted a l hs] at h
    cases l with
    | nil => cases h
    | cons u r =>
      simp only [Option.some.injEq] at h
      subst h
      exact (List.pairwise_cons.mp hs).2
  · have : (a == term) = false := by rw [beq_eq_false_iff_ne]; exact ha
    simp only [this, Bool.false_eq_true, if_false, Option.some.injEq] at h
    subst h
    exact hs

/-- **The merge loop**: on iterators that are strictly sorted, with enough fuel, the loop ends and
    yields a strictly sorted list whose members are exactly the terms of the iterators. -/
theorem mergeLoop_spec (fuel : Nat) : ∀ (cur : List Cur), (∀ c, c ∈ cur → SortedLex c.all) →
    curWeight cur ≤ fuel →
    ∃ r, mergeLoop fuel cur = .ok r ∧ SortedLex r ∧ ∀ t, t ∈ r ↔ ∃ c, c ∈ cur ∧ t ∈ c.all := by
  induction fuel with
  | zero =>
    intro cur _ hw
    cases cur with
    | nil => exact ⟨[], rfl, List.Pairwise.nil, by simp⟩
    | cons c cs => simp [curWeight] at hw
  | succ fuel ih =>
    intro cur hs hw
    cases cur with
    | nil => exact ⟨[], by simp [mergeLoop], List.Pairwise.nil, by simp⟩
    | cons c cs =>
      obtain ⟨x0, hx0, hx0e⟩ := minTerm_mem c cs
      have hmin := minTerm_le c cs
      generalize hterm : minTerm c cs = term at hx0e hmin
      have hstep : ∀ x, x ∈ c :: cs → ∀ t, (∃ c', stepCur term x = some c' ∧ t ∈ c'.all) ↔
          (t ∈ x.all ∧ t ≠ term) := fun x hx t => stepCur_mem term x (hs x hx) (hmin x hx) t
      have hs' : ∀ c', c' ∈ (c :: cs).filterMap (stepCur term) → SortedLex c'.all := by
        intro c' hc'
        obtain ⟨x, hx, hxe⟩ := List.mem_filterMap.mp hc'
        exact stepCur_sorted term x c' (hs x hx) (hmin x hx) hxe
      have hw' : curWeight ((c :: cs).filterMap (stepCur term)) ≤ fuel := by
        have := weight_filterMap_lt term (c :: cs) ⟨x0, hx0, hx0e⟩
        omega
      obtain ⟨r', hr', hsr', hmem'⟩ := ih _ hs' hw'
      have hmem'' : ∀ t, t ∈ r' ↔ (∃ x, x ∈ c :: cs ∧ t ∈ x.all) ∧ t ≠ term := by
        intro t
        rw [hmem']
        constructor
        · rintro ⟨c', hc', ht⟩
          obtain ⟨x, hx, hxe⟩ := List.mem_filterMap.mp hc'
          have := (hstep x hx t).mp ⟨c', hxe, ht⟩
          exact ⟨⟨x, hx, this.1⟩, this.2⟩
        · rintro ⟨⟨x, hx, ht⟩, hne⟩
          obtain ⟨c', hc'e, htc'⟩ := (hstep x hx t).mpr ⟨ht, hne⟩
          exact ⟨c', List.mem_filterMap.mpr ⟨x, hx, hc'e⟩, htc'⟩
      refine ⟨term :: r', ?_, ?_, ?_⟩
      · show (mergeLoop fuel ((c :: cs).filterMap fun x =>
            if x.1 == minTerm c cs then advance (minTerm c cs) x.2 else some x)).map _ = _
        rw [hterm]
        have : ((c :: cs).filterMap fun x => if x.1 == term then advance term x.2 else some x) =
            (c :: cs).filterMap (stepCur term) := rfl
        rw [this, hr']
        rfl
      · refine List.pairwise_cons.mpr ⟨?_, hsr'⟩
        intro t ht
        obtain ⟨⟨x, hx, htx⟩, hne⟩ := (hmem'' t).mp ht
        have h1 : term ≤ x.1 := hmin x hx
        have h2 : x.1 ≤ t := sorted_head_le (hs x hx) t htx
        have h3 : term ≤ t := List.le_trans h1 h2
        rcases List.le_iff_lt_or_eq.mp h3 with h | h
        · exact h
        · exact absurd h.symm hne
      · intro t
        rw [List.mem_cons, hmem'']
        constructor
        · rintro (rfl | ⟨h, _⟩)
          · exact ⟨x0, hx0, by rw [← hx0e]; simp [Cur.all]⟩
          · exact h
        · intro h
          by_cases he : t = term
          · exact Or.inl he
          · exact Or.inr ⟨h, he⟩

/-- **`MultiReader._merge_terms`** over strictly sorted term iterators never runs out of the
    model's fuel and yields the strictly sorted union. -/
theorem mergeTerms_spec (its : List (List (List Nat))) (hs : ∀ l, l ∈ its → SortedLex l) :
    ∃ m, mergeTerms its = .ok m ∧ SortedLex m ∧ ∀ t, t ∈ m ↔ ∃ l, l ∈ its ∧ t ∈ l := by
  have hcur : ∀ c, c ∈ its.filterMap curHead → c.all ∈ its := by
    intro c hc
    obtain ⟨l, hl, hle⟩ := List.mem_filterMap.mp hc
    cases l with
    | nil => cases hle
    | cons t r => simp only [curHead, Option.some.injEq] at hle; subst hle; exact hl
  have hmemcur : ∀ t, (∃ c, c ∈ its.filterMap curHead ∧ t ∈ c.all) ↔ ∃ l, l ∈ its ∧ t ∈ l := by
    intro t
    constructor
    · rintro ⟨c, hc, ht⟩; exact ⟨c.all, hcur c hc, ht⟩
    · rintro ⟨l, hl, ht⟩
      cases l with
      | nil => cases ht
      | cons a r => exact ⟨(a, r), List.mem_filterMap.mpr ⟨a :: r, hl, rfl⟩, ht⟩
  obtain ⟨r, hr, hsr, hmr⟩ := mergeLoop_spec (curWeight (its.filterMap curHead)) (its.filterMap curHead)
    (fun c hc => hs _ (hcur c hc)) (Nat.le_refl _)
  unfold mergeTerms
  split
  · rename_i t0 r0 heq
    refine ⟨t0 :: r0, rfl, ?_, ?_⟩
    · exact hs _ (hcur (t0, r0) (by rw [heq]; simp))
    · intro t
      rw [← hmemcur t, heq]
      simp [Cur.all]
  · exact ⟨r, hr, hsr, fun t => (hmr t).trans (hmemcur t)⟩

/-! ### `terms_from`, `expand_prefix` -/

theorem mem_dropWhile_sorted (lex : List (List Nat)) (pre t : List Nat) (hs : SortedLex lex) :
    t ∈ termsFrom lex pre ↔ t ∈ lex ∧ pre ≤ t := by
  unfold termsFrom
  induction lex with
  | nil => simp
  | cons a l ih =>
    have hsl : SortedLex l := (List.pairwise_cons.mp hs).2
    rw [List.dropWhile_cons]
    by_cases h : lexLt a pre = true
    · rw [if_pos h, ih hsl]
      have hlt : a < pre := (lexLt_iff _ _).mp h
      constructor
      · rintro ⟨h1, h2⟩; exact ⟨List.mem_cons_of_mem _ h1, h2⟩
      · rintro ⟨h1, h2⟩
        rcases List.mem_cons.mp h1 with rfl | h1'
        · exact absurd hlt (List.not_lt.mpr h2)
        · exact ⟨h1', h2⟩
    · rw [if_neg h]
      have hle : pre ≤ a := List.not_lt.mp (fun hc => h ((lexLt_iff _ _).mpr hc))
      constructor
      · intro h1
        exact ⟨h1, List.le_trans hle (sorted_head_le hs t h1)⟩
      · exact fun h1 => h1.1

theorem termsFrom_sorted (lex : List (List Nat)) (pre : List Nat) (hs : SortedLex lex) :
    SortedLex (termsFrom lex pre) :=
  List.Pairwise.sublist (List.dropWhile_sublist _) hs

theorem le_append_self (pre s : List Nat) : pre ≤ pre ++ s := by
  induction pre with
  | nil => exact List.nil_le _
  | cons x ps ih => rw [List.cons_append, List.cons_le_cons_iff]; exact Or.inr ⟨rfl, ih⟩

/-- The strings that start with `pre` are convex in the lexicographic order. -/
theorem prefix_convex (pre a b : List Nat) (h1 : pre ≤ a) (h2 : a ≤ b) (hb : pre.isPrefixOf b = true) :
    pre.isPrefixOf a = true := by
  induction pre generalizing a b with
  | nil => simp
  | cons x ps ih =>
    cases b with
    | nil => simp at hb
    | cons y bs =>
      simp only [List.isPrefixOf, Bool.and_eq_true, beq_iff_eq] at hb
      obtain ⟨hxy, hps⟩ := hb
      subst hxy
      cases a with
      | nil => exact absurd h1 (List.not_le.mpr (List.nil_lt_cons _ _))
      | cons z as =>
        rw [List.cons_le_cons_iff] at h1 h2
        have hz : z = x := by
          rcases h1 with h | ⟨h, _⟩ <;> rcases h2 with h' | ⟨h', _⟩ <;> omega
        subst hz
        have h1' : ps ≤ as := by rcases h1 with h | ⟨_, h⟩; exact absurd h (Nat.lt_irrefl _); exact h
        have h2' : as ≤ bs := by rcases h2 with h | ⟨_, h⟩; exact absurd h (Nat.lt_irrefl _); exact h
        simp only [List.isPrefixOf, Bool.and_eq_true, beq_iff_eq, true_and]
        exact ih as bs h1' h2' hps

/-- **The early `return` of `expand_prefix` loses nothing**: over a sorted list whose terms are all
    `≥ prefix`, stopping at the first term that does not start with the prefix is filtering. -/
theorem expandPrefixOf_eq (terms : List (List Nat)) (pre : List Nat) (hs : SortedLex terms)
    (hge : ∀ t, t ∈ terms → pre ≤ t) :
    expandPrefixOf terms pre = terms.filter fun t => pre.isPrefixOf t := by
  unfold expandPrefixOf
  induction terms with
  | nil => rfl
  | cons a l ih =>
    have hsl : SortedLex l := (List.pairwise_cons.mp hs).2
    rw [List.takeWhile_cons, List.filter_cons]
    by_cases h : pre.isPrefixOf a = true
    · rw [if_pos h, if_pos h, ih hsl (fun t ht => hge t (List.mem_cons_of_mem _ ht))]
    · rw [if_neg h, if_neg h]
      symm
      rw [List.filter_eq_nil_iff]
      intro t ht hp
      have hat : a < t := (List.pairwise_cons.mp hs).1 t ht
      exact h (prefix_convex pre a t (hge a (by simp)) (List.le_of_lt hat) hp)

/-- Two strictly sorted lists with the same members are equal. -/
theorem sorted_ext : ∀ (a b : List (List Nat)), SortedLex a → SortedLex b → (∀ t, t ∈ a ↔ t ∈ b) → a = b := by
  intro a
  induction a with
  | nil =>
    intro b _ _ h
    cases b with
    | nil => rfl
    | cons y b => exact absurd ((h y).mpr (by simp)) (by simp)
  | cons x a ih =>
    intro b ha hb h
    cases b with
    | nil => exact absurd ((h x).mp (by simp)) (by simp)
    | cons y b =>
      have hxa := (List.pairwise_cons.mp ha).1
      have hyb := (List.pairwise_cons.mp hb).1
      have hxy : x = y := by
        have h1 : y ≤ x := sorted_head_le hb x ((h x).mp (by simp))
        have h2 : x ≤ y := sorted_head_le ha y ((h y).mpr (by simp))
        exact List.le_antisymm h2 h1
      subst hxy
      congr 1
      apply ih b (List.pairwise_cons.mp ha).2 (List.pairwise_cons.mp hb).2
      intro t
      constructor
      · intro ht
        rcases List.mem_cons.mp ((h t).mp (List.mem_cons_of_mem _ ht)) with rfl | h'
        · exact absurd (hxa _ ht) (List.lt_irrefl _)
        · exact h'
      · intro ht
        rcases List.mem_cons.mp ((h t).mpr (List.mem_cons_of_mem _ ht)) with rfl | h'
        · exact absurd (hyb _ ht) (List.lt_irrefl _)
        · exact h'

/-- **`MultiReader.expand_prefix`**: the terms of the merged list that start with the prefix. -/
theorem expandPrefixMulti_spec (segs : List (List (List Nat))) (pre : List Nat)
    (hs : ∀ l, l ∈ segs → SortedLex l) (m : List (List Nat)) (hm : mergeTerms segs = .ok m) :
    expandPrefixMulti segs pre = .ok (m.filter fun t => pre.isPrefixOf t) := by
  obtain ⟨m0, hm0, hsm, hmem⟩ := mergeTerms_spec segs hs
  rw [hm] at hm0
  cases hm0
  have hs' : ∀ l, l ∈ segs.map (fun lex => termsFrom lex pre) → SortedLex l := by
    intro l hl
    obtain ⟨lex, hlex, rfl⟩ := List.mem_map.mp hl
    exact termsFrom_sorted lex pre (hs lex hlex)
  obtain ⟨m', hm', hsm', hmem'⟩ := mergeTerms_spec _ hs'
  have hmem'' : ∀ t, t ∈ m' ↔ t ∈ m ∧ pre ≤ t := by
    intro t
    rw [hmem', hmem]
    constructor
    · rintro ⟨l, hl, ht⟩
      obtain ⟨lex, hlex, rfl⟩ := List.mem_map.mp hl
      have := (mem_dropWhile_sorted lex pre t (hs lex hlex)).mp ht
      exact ⟨⟨lex, hlex, this.1⟩, this.2⟩
    · rintro ⟨⟨lex, hlex, ht⟩, hle⟩
      exact ⟨termsFrom lex pre, List.mem_map.mpr ⟨lex, hlex, rfl⟩,
        (mem_dropWhile_sorted lex pre t (hs lex hlex)).mpr ⟨ht, hle⟩⟩
  unfold expandPrefixMulti termsFromMulti
  rw [hm']
  simp only [Except.map]
  congr 1
  rw [expandPrefixOf_eq m' pre hsm' (fun t ht => ((hmem'' t).mp ht).2)]
  apply sorted_ext
  · exact List.Pairwise.sublist List.filter_sublist hsm'
  · exact List.Pairwise.sublist List.filter_sublist hsm
  · intro t
    rw [List.mem_filter, List.mem_filter, hmem'']
    constructor
    · rintro ⟨⟨h1, _⟩, h2⟩; exact ⟨h1, h2⟩
    · rintro ⟨h1, h2⟩
      refine ⟨⟨h1, ?_⟩, h2⟩
      have hp : pre <+: t := List.isPrefixOf_iff_prefix.mp h2
      obtain ⟨s, rfl⟩ := hp
      exact le_append_self pre s

end WM.Lev
