import WM.Model.NumericDate
import WM.Lemmas.NumericField
import WM.Lemmas.NumericMembership
import Mathlib.Tactic.Ring
/-! Round 3: the calendar (`toordinal` is strictly monotone), datetimes as microsecond counts,
    `_parse_datestring` produces prefix-shaped partial dates, `floor`/`ceil` delimit the period. -/
namespace WM.NumericDate
open WM.Numeric WM.NumericSpec

/-! ### the calendar -/

theorem isLeap_iff (y : Nat) : isLeap y = true ↔ (y % 4 = 0 ∧ (y % 100 ≠ 0 ∨ y % 400 = 0)) := by
  simp [isLeap]

theorem dby_succ (k : Nat) :
    daysBeforeYear (k + 2) = daysBeforeYear (k + 1) + 365 + (if isLeap (k + 1) = true then 1 else 0) := by
  have hl := isLeap_iff (k + 1)
  have f4 : ((k + 1) / 4 = k / 4 + 1 ∧ (k + 1) % 4 = 0) ∨ ((k + 1) / 4 = k / 4 ∧ (k + 1) % 4 ≠ 0) := by
    omega
  have f100 : ((k + 1) / 100 = k / 100 + 1 ∧ (k + 1) % 100 = 0) ∨
      ((k + 1) / 100 = k / 100 ∧ (k + 1) % 100 ≠ 0) := by omega
  have f400 : ((k + 1) / 400 = k / 400 + 1 ∧ (k + 1) % 400 = 0) ∨
      ((k + 1) / 400 = k / 400 ∧ (k + 1) % 400 ≠ 0) := by omega
  have i1 : (k + 1) % 400 = 0 → (k + 1) % 100 = 0 := by omega
  have i2 : (k + 1) % 100 = 0 → (k + 1) % 4 = 0 := by omega
  have i3 : k / 100 ≤ k / 4 := by omega
  unfold daysBeforeYear
  have e : k + 2 - 1 = k + 1 := by omega
  have e' : k + 1 - 1 = k := by omega
  rw [e, e']
  by_cases hlp : isLeap (k + 1) = true
  · rw [if_pos hlp]
    have hh := hl.1 hlp
    generalize (k + 1) / 4 = A at *; generalize (k + 1) / 100 = B at *
    generalize (k + 1) / 400 = C at *; generalize (k + 1) % 4 = m4 at *
    generalize (k + 1) % 100 = m100 at *; generalize (k + 1) % 400 = m400 at *
    generalize k / 4 = a at *; generalize k / 100 = b at *; generalize k / 400 = c at *
    omega
  · rw [if_neg hlp]
    have hh : ¬ ((k + 1) % 4 = 0 ∧ ((k + 1) % 100 ≠ 0 ∨ (k + 1) % 400 = 0)) := fun h => hlp (hl.2 h)
    generalize (k + 1) / 4 = A at *; generalize (k + 1) / 100 = B at *
    generalize (k + 1) / 400 = C at *; generalize (k + 1) % 4 = m4 at *
    generalize (k + 1) % 100 = m100 at *; generalize (k + 1) % 400 = m400 at *
    generalize k / 4 = a at *; generalize k / 100 = b at *; generalize k / 400 = c at *
    omega

theorem dby_mono_add (y d : Nat) (h1 : 1 ≤ y) : daysBeforeYear y ≤ daysBeforeYear (y + d) := by
  induction d with
  | zero => exact Nat.le_refl _
  | succ n ih =>
    obtain ⟨k, hk⟩ : ∃ k, y + n = k + 1 := ⟨y + n - 1, by omega⟩
    have e : y + (n + 1) = k + 2 := by omega
    rw [e, dby_succ, ← hk]; omega

theorem dby_mono (y y' : Nat) (h1 : 1 ≤ y) (h : y ≤ y') : daysBeforeYear y ≤ daysBeforeYear y' := by
  have := dby_mono_add y (y' - y) h1
  have e : y + (y' - y) = y' := by omega
  rwa [e] at this

/-- A year has 365 or 366 days: the next year's January 1st. -/
theorem dby_next (y y' : Nat) (h1 : 1 ≤ y) (h : y < y') :
    daysBeforeYear y + 365 + (if isLeap y = true then 1 else 0) ≤ daysBeforeYear y' := by
  obtain ⟨k, rfl⟩ : ∃ k, y = k + 1 := ⟨y - 1, by omega⟩
  have := dby_mono (k + 2) y' (by omega) (by omega)
  rw [dby_succ] at this
  exact this

theorem dby_9999 : daysBeforeYear 9999 = 3651694 := by decide

theorem month_table : ∀ (leap : Bool) (m m' : Fin 14), 1 ≤ m.val → m.val < m'.val →
    daysBeforeMonth leap m.val + daysInMonth leap m.val ≤ daysBeforeMonth leap m'.val := by
  decide

theorem dbm_next (leap : Bool) (m m' : Nat) (h1 : 1 ≤ m) (h : m < m') (h2 : m' ≤ 13) :
    daysBeforeMonth leap m + daysInMonth leap m ≤ daysBeforeMonth leap m' :=
  month_table leap ⟨m, by omega⟩ ⟨m', by omega⟩ h1 h

theorem dbm_13 (leap : Bool) : daysBeforeMonth leap 13 = 365 + (if leap = true then 1 else 0) := by
  cases leap <;> decide

theorem dim_bounds (leap : Bool) (m : Nat) (h1 : 1 ≤ m) (h2 : m ≤ 12) :
    28 ≤ daysInMonth leap m ∧ daysInMonth leap m ≤ 31 := by
  have : ∀ (leap : Bool) (m : Fin 13), 1 ≤ m.val →
      28 ≤ daysInMonth leap m.val ∧ daysInMonth leap m.val ≤ 31 := by decide
  exact this leap ⟨m, by omega⟩ h1

/-- The date part of the order of datetimes. -/
def dateLt (a b : Civil) : Prop :=
  a.year < b.year ∨ (a.year = b.year ∧ (a.month < b.month ∨ (a.month = b.month ∧ a.day < b.day)))

theorem ord_lt_of_dateLt (a b : Civil) (ha : a.valid) (hb : b.valid) (h : dateLt a b) :
    ordinal a.year a.month a.day < ordinal b.year b.month b.day := by
  obtain ⟨a1, a2, a3, a4, a5, a6, _⟩ := ha
  obtain ⟨b1, b2, b3, b4, b5, b6, _⟩ := hb
  unfold ordinal
  rcases h with h | ⟨h, h' | ⟨h', h''⟩⟩
  · have A := dby_next a.year b.year a1 h
    have B := dbm_next (isLeap a.year) a.month 13 a3 (by omega) (by omega)
    rw [dbm_13] at B
    omega
  · rw [h]
    have B := dbm_next (isLeap b.year) a.month b.month a3 h' (by omega)
    rw [h] at a6
    omega
  · rw [h, h']; omega

theorem ord_lt_iff (a b : Civil) (ha : a.valid) (hb : b.valid) :
    ordinal a.year a.month a.day < ordinal b.year b.month b.day ↔ dateLt a b := by
  constructor
  · intro h
    refine Classical.byContradiction fun hn => ?_
    have : dateLt b a ∨ (a.year = b.year ∧ a.month = b.month ∧ a.day = b.day) := by
      unfold dateLt at *; omega
    rcases this with h2 | ⟨e1, e2, e3⟩
    · have := ord_lt_of_dateLt b a hb ha h2; omega
    · rw [e1, e2, e3] at h; omega
  · exact ord_lt_of_dateLt a b ha hb

theorem ord_bounds (a : Civil) (ha : a.valid) :
    1 ≤ ordinal a.year a.month a.day ∧ ordinal a.year a.month a.day ≤ 3652060 := by
  obtain ⟨a1, a2, a3, a4, a5, a6, _⟩ := ha
  have B := dbm_next (isLeap a.year) a.month 13 a3 (by omega) (by omega)
  rw [dbm_13] at B
  have C := dby_mono a.year 9999 a1 a2
  rw [dby_9999] at C
  unfold ordinal
  constructor
  · omega
  · split at B <;> omega

theorem civilToTD_normal (a : Civil) (ha : a.valid) : (civilToTD a).normal := by
  obtain ⟨_, _, _, _, _, _, a7, a8, a9, a10⟩ := ha
  unfold civilToTD TD.normal
  simp only
  omega

theorem civilToLong_range (a : Civil) (ha : a.valid) :
    0 ≤ civilToLong a ∧ civilToLong a < 315537984000000000 := by
  have hb := ord_bounds a ha
  obtain ⟨_, _, _, _, _, _, a7, a8, a9, a10⟩ := ha
  unfold civilToLong tdToUsecs civilToTD
  simp only
  omega

theorem civilToLong_inDomain (a : Civil) (ha : a.valid) : inDomain 64 true (civilToLong a) := by
  have h := civilToLong_range a ha
  unfold inDomain
  rw [minMaxInt_eq 64 (by decide) true]
  simp only [if_true]
  constructor <;> omega

/-- **`datetime_to_long` is strictly monotone** in the order of datetimes. -/
theorem civilToLong_lt_iff (a b : Civil) (ha : a.valid) (hb : b.valid) :
    civilToLong a < civilToLong b ↔ civilLt a b = true := by
  have ho := ord_lt_iff a b ha hb
  have hoa := ord_bounds a ha
  have hob := ord_bounds b hb
  have hinj : ordinal a.year a.month a.day = ordinal b.year b.month b.day →
      (a.year = b.year ∧ a.month = b.month ∧ a.day = b.day) := by
    intro he
    have h1 := ord_lt_iff a b ha hb
    have h2 := ord_lt_iff b a hb ha
    unfold dateLt at h1 h2
    omega
  have hcongr : (a.year = b.year ∧ a.month = b.month ∧ a.day = b.day) →
      ordinal a.year a.month a.day = ordinal b.year b.month b.day := by
    rintro ⟨e1, e2, e3⟩; rw [e1, e2, e3]
  obtain ⟨_, _, _, _, _, _, a7, a8, a9, a10⟩ := ha
  obtain ⟨_, _, _, _, _, _, b7, b8, b9, b10⟩ := hb
  unfold civilToLong tdToUsecs civilToTD civilLt
  unfold dateLt at ho
  simp only [decide_eq_true_eq]
  generalize ordinal a.year a.month a.day = oa at *
  generalize ordinal b.year b.month b.day = ob at *
  omega

/-! ### `_parse_datestring` -/

theorem bind_ok {α β} (x : Except Err α) (f : α → Except Err β) (b : β)
    (h : (x >>= f) = .ok b) : ∃ a, x = .ok a ∧ f a = .ok b := by
  cases x with
  | error e => simp [bind, Except.bind] at h
  | ok a => exact ⟨a, rfl, h⟩

theorem foldl_digits_lt (cs : List Nat) (h : ∀ c ∈ cs, c < 10) (acc : Nat) :
    cs.foldl (fun a c => 10 * a + c) acc < (acc + 1) * 10 ^ cs.length := by
  induction cs generalizing acc with
  | nil => simp
  | cons c cs ih =>
    have hc : c < 10 := h c (by simp)
    have := ih (fun x hx => h x (by simp [hx])) (10 * acc + c)
    simp only [List.foldl_cons, List.length_cons]
    have e : (acc + 1) * 10 ^ (cs.length + 1) = (10 * acc + 10) * 10 ^ cs.length := by
      rw [Nat.pow_succ]; ring_nf
    rw [e]
    exact Nat.lt_of_lt_of_le this (Nat.mul_le_mul_right _ (by omega))

theorem intOf_lt (cs : List Nat) (v : Nat) (h : intOf cs = some v) : v < 10 ^ cs.length := by
  cases cs with
  | nil => simp [intOf] at h
  | cons c cs =>
    simp only [intOf] at h
    split at h
    · rename_i hall
      injection h with h
      subst h
      have := foldl_digits_lt (c :: cs) (by simpa using hall) 0
      simpa using this
    · cases h

theorem field_ok (cs : List Nat) (k lo hi : Nat) (o : Option Nat) (h : field cs k lo hi = .ok o) :
    (o.isSome ↔ k ≤ cs.length) ∧ ∀ v, o = some v → v < 10 ^ ((cs.take hi).drop lo).length := by
  unfold field at h
  split at h
  · rename_i hk
    split at h
    · rename_i v hv
      injection h with h; subst h
      exact ⟨by simpa using hk, fun w hw => by injection hw with hw; subst hw; exact intOf_lt _ _ hv⟩
    · cases h
  · rename_i hk
    injection h with h; subst h
    exact ⟨by simp; omega, fun v hv => by cases hv⟩

/-- The range checks of `adatetime.__init__` as a predicate. -/
def ADT.fieldsOk (p : ADT) : Prop :=
  (∀ m, p.month = some m → 1 ≤ m ∧ m ≤ 12) ∧ (∀ d, p.day = some d → 1 ≤ d) ∧
  (∀ y m d, p.year = some y → p.month = some m → p.day = some d → d ≤ daysInMonth (isLeap y) m) ∧
  (∀ h, p.hour = some h → h ≤ 23) ∧ (∀ x, p.minute = some x → x ≤ 59) ∧
  (∀ x, p.second = some x → x ≤ 59) ∧ (∀ x, p.micro = some x → x ≤ 999999)

theorem adatetimeInit_some (y mo d h mi s us : Option Nat) (p : ADT)
    (hp : adatetimeInit y mo d h mi s us = some p) : p = ⟨y, mo, d, h, mi, s, us⟩ ∧ p.fieldsOk := by
  unfold adatetimeInit at hp
  by_cases hc : adtBad y mo d h mi s us = true
  · rw [if_pos hc] at hp; cases hp
  · rw [if_neg hc] at hp
    injection hp with hp
    subst hp
    refine ⟨rfl, ?_⟩
    unfold adtBad at hc
    simp only [Bool.or_eq_true, not_or, Bool.not_eq_true] at hc
    obtain ⟨⟨⟨⟨⟨⟨c1, c2⟩, c3⟩, c4⟩, c5⟩, c6⟩, c7⟩ := hc
    refine ⟨?_, ?_, ?_, ?_, ?_, ?_, ?_⟩
    · intro m hm; simp only at hm; subst hm; simp at c1; omega
    · intro m hm; simp only at hm; subst hm; simp at c2; omega
    · intro y' m d' h1 h2 h3; simp only at h1 h2 h3; subst h1 h2 h3; simp at c3; omega
    · intro m hm; simp only at hm; subst hm; simp at c4; omega
    · intro m hm; simp only at hm; subst hm; simp at c5; omega
    · intro m hm; simp only at hm; subst hm; simp at c6; omega
    · intro m hm; simp only at hm; subst hm; simp at c7; omega

/-- What `_parse_datestring` guarantees about a successfully parsed date. -/
def ADT.wf (p : ADT) : Prop :=
  p.prefixShaped ∧ p.fieldsOk ∧ ∃ y, p.year = some y ∧ 1 ≤ y ∧ y ≤ 9999

theorem yearField_ok (cs : List Nat) (o : Option Nat) (h : yearField cs = .ok o) :
    field cs 4 0 4 = .ok o ∧ o ≠ some 0 := by
  unfold yearField at h
  split at h
  · cases h
  · rename_i hne
    refine ⟨h, ?_⟩
    intro h0
    subst h0
    exact hne h

theorem parseDatestring_wf (cs : List Nat) (p : ADT) (h : parseDatestring cs = .ok p) : p.wf := by
  unfold parseDatestring at h
  obtain ⟨y, hy0, h⟩ := bind_ok _ _ _ h
  obtain ⟨hy, hyne⟩ := yearField_ok cs y hy0
  obtain ⟨mo, hmo, h⟩ := bind_ok _ _ _ h
  obtain ⟨d, hd, h⟩ := bind_ok _ _ _ h
  obtain ⟨hh, hhh, h⟩ := bind_ok _ _ _ h
  obtain ⟨mi, hmi, h⟩ := bind_ok _ _ _ h
  obtain ⟨se, hse, h⟩ := bind_ok _ _ _ h
  obtain ⟨us, hus, h⟩ := bind_ok _ _ _ h
  have hus' : us.isSome → cs.length = 20 := by
    intro hsome
    unfold microField at hus
    split at hus
    · assumption
    · injection hus with hus; subst hus; cases hsome
  split at h
  · cases h
  · rename_i q hq
    obtain ⟨rfl, hok⟩ := adatetimeInit_some _ _ _ _ _ _ _ _ hq
    have hp : p = ⟨y, mo, d, hh, mi, se, us⟩ ∧ (⟨y, mo, d, hh, mi, se, us⟩ : ADT).void = false := by
      split at h
      · cases h
      · rename_i hv
        refine ⟨?_, by simpa using hv⟩
        split at h
        · injection h with h; exact h.symm
        · obtain ⟨_, _, h⟩ := bind_ok _ _ _ h
          injection h with h; exact h.symm
    obtain ⟨rfl, hvoid⟩ := hp
    have Y := field_ok _ _ _ _ _ hy
    have MO := (field_ok _ _ _ _ _ hmo).1
    have D := (field_ok _ _ _ _ _ hd).1
    have H := (field_ok _ _ _ _ _ hhh).1
    have MI := (field_ok _ _ _ _ _ hmi).1
    have SE := (field_ok _ _ _ _ _ hse).1
    refine ⟨?_, hok, ?_⟩
    · unfold ADT.prefixShaped
      simp only
      refine ⟨?_, ?_, ?_, ?_, ?_, ?_⟩
      · intro a; rw [Y.1]; have := MO.1 a; omega
      · intro a; rw [MO]; have := D.1 a; omega
      · intro a; rw [D]; have := H.1 a; omega
      · intro a; rw [H]; have := MI.1 a; omega
      · intro a; rw [MI]; have := SE.1 a; omega
      · intro a; rw [SE]; have := hus' a; omega
    · -- a non-void prefix-shaped date has a year
      cases y with
      | none =>
        exfalso
        have n4 : ¬ (4 ≤ cs.length) := fun h4 => by have := Y.1.2 h4; cases this
        have e1 : mo = none := by
          cases mo with
          | none => rfl
          | some _ => exact absurd (MO.1 rfl) (by omega)
        have e2 : d = none := by
          cases d with
          | none => rfl
          | some _ => exact absurd (D.1 rfl) (by omega)
        have e3 : hh = none := by
          cases hh with
          | none => rfl
          | some _ => exact absurd (H.1 rfl) (by omega)
        have e4 : mi = none := by
          cases mi with
          | none => rfl
          | some _ => exact absurd (MI.1 rfl) (by omega)
        have e5 : se = none := by
          cases se with
          | none => rfl
          | some _ => exact absurd (SE.1 rfl) (by omega)
        have e6 : us = none := by
          cases us with
          | none => rfl
          | some _ => exact absurd (hus' rfl) (by omega)
        subst e1 e2 e3 e4 e5 e6
        simp [ADT.void] at hvoid
      | some y0 =>
        refine ⟨y0, rfl, ?_, ?_⟩
        · cases y0 with
          | zero => exact absurd rfl hyne
          | succ k => omega
        have := Y.2 y0 rfl
        have hl : ((cs.take 4).drop 0).length ≤ 4 := by simp
        have : 10 ^ ((cs.take 4).drop 0).length ≤ 10 ^ 4 := Nat.pow_le_pow_right (by decide) hl
        omega

/-! ### `floor` / `ceil` of a parsed partial date delimit its period -/

/-- For a date as `_parse_datestring` produces it (year ≥ 1): `floor` and `ceil` succeed, are valid
    datetimes of the period, and a valid datetime lies between them iff it agrees with the partial
    date on every specified attribute. -/
theorem floor_ceil (p : ADT) (hw : p.wf) :
    ∃ f cl, p.floor = .ok f ∧ p.ceil = .ok cl ∧ f.valid ∧ cl.valid ∧ p.agrees f ∧ p.agrees cl ∧
      ∀ c : Civil, c.valid → ((civilLt c f = false ∧ civilLt cl c = false) ↔ p.agrees c) := by
  obtain ⟨hshape, hok, y, hy, h1', hy9⟩ := hw
  refine ⟨⟨y, p.month.getD 1, p.day.getD 1, p.hour.getD 0, p.minute.getD 0, p.second.getD 0,
      p.micro.getD 0⟩,
    ⟨y, p.month.getD 12, (match p.day with
      | some d => d
      | none => daysInMonth (isLeap y) (p.month.getD 12)), p.hour.getD 23, p.minute.getD 59,
      p.second.getD 59, p.micro.getD 999999⟩, ?_⟩
  obtain ⟨_ | y', _ | mo, _ | d, _ | h, _ | mi, _ | s, _ | us⟩ := p <;>
    (try (simp [ADT.prefixShaped] at hshape; done)) <;> (try (cases hy; done))
  all_goals
    simp only [Option.some.injEq] at hy
    subst hy
    obtain ⟨k1, k2, k3, k4, k5, k6, k7⟩ := hok
    simp only [Option.some.injEq, forall_eq', reduceCtorEq, false_imp_iff, implies_true] at k1 k2 k3 k4 k5 k6 k7
    have D1 := dim_bounds (isLeap y') 1 (by omega) (by omega)
    have D12 : daysInMonth (isLeap y') 12 = 31 := rfl
    try (have Dmo := dim_bounds (isLeap y') mo (by omega) (by omega))
    simp only [Option.getD]
    try (have k3' := k3 y' mo d rfl rfl rfl)
    refine ⟨?_, ?_, ?_, ?_, ?_, ?_, ?_⟩
    · simp only [ADT.floor, Option.getD, mkDatetime]
      exact if_pos (by unfold Civil.valid; simp only; omega)
    · simp only [ADT.ceil, Option.getD, mkDatetime]
      exact if_pos (by unfold Civil.valid; simp only; omega)
    · unfold Civil.valid; simp only; omega
    · unfold Civil.valid; simp only; omega
    · simp [ADT.agrees]
    · simp [ADT.agrees]
    · intro c hc
      obtain ⟨c1, c2, c3, c4, c5, c6, c7, c8, c9, c10⟩ := hc
      have Dc := dim_bounds (isLeap c.year) c.month c3 c4
      try (have hcg : c.year = y' → c.month = mo → daysInMonth (isLeap c.year) c.month = daysInMonth (isLeap y') mo := (fun e1 e2 => by rw [e1, e2]))
      simp only [ADT.agrees, civilLt, decide_eq_false_iff_not, Option.some.injEq, forall_eq',
        reduceCtorEq, false_imp_iff, implies_true, and_true]
      omega

theorem civilLt_trans_le (a b c : Civil) (ha : a.valid) (hb : b.valid) (hc : c.valid)
    (h1 : civilLt b a = false) (h2 : civilLt b c = true) : civilLt a c = true := by
  have A := civilToLong_lt_iff b a hb ha
  have B := civilToLong_lt_iff b c hb hc
  have C := civilToLong_lt_iff a c ha hc
  rw [h1] at A
  have : ¬ civilToLong b < civilToLong a := fun h => by have := A.1 h; cases this
  exact C.1 (by have := B.2 h2; omega)

theorem civilLt_trans_le' (a b c : Civil) (ha : a.valid) (hb : b.valid) (hc : c.valid)
    (h1 : civilLt a b = true) (h2 : civilLt c b = false) : civilLt a c = true := by
  have A := civilToLong_lt_iff a b ha hb
  have B := civilToLong_lt_iff c b hc hb
  have C := civilToLong_lt_iff a c ha hc
  rw [h2] at B
  have : ¬ civilToLong c < civilToLong b := fun h => by have := B.1 h; cases this
  exact C.1 (by have := A.2 h1; omega)

theorem civilLt_false_trans (a b c : Civil) (ha : a.valid) (hb : b.valid) (hc : c.valid)
    (h1 : civilLt b a = false) (h2 : civilLt c b = false) : civilLt c a = false := by
  have A := civilToLong_lt_iff b a hb ha
  have B := civilToLong_lt_iff c b hc hb
  have C := civilToLong_lt_iff c a hc ha
  rw [h1] at A; rw [h2] at B
  have n1 : ¬ civilToLong b < civilToLong a := fun h => by have := A.1 h; cases this
  have n2 : ¬ civilToLong c < civilToLong b := fun h => by have := B.1 h; cases this
  cases hca : civilLt c a with
  | false => rfl
  | true => have := C.2 hca; omega

/-! ### the inverse calendar -/

theorem monthDay_table : ∀ (leap : Bool) (r : Fin 366), (r.val < 365 ∨ leap = true) →
    1 ≤ (monthDay leap r.val).1 ∧ (monthDay leap r.val).1 ≤ 12 ∧ 1 ≤ (monthDay leap r.val).2 ∧
    (monthDay leap r.val).2 ≤ daysInMonth leap (monthDay leap r.val).1 ∧
    daysBeforeMonth leap (monthDay leap r.val).1 + (monthDay leap r.val).2 = r.val + 1 := by
  decide +kernel

theorem dby_decomp (a b c e : Nat) (hb : b ≤ 3) (hc : c ≤ 24) (he : e ≤ 3) :
    daysBeforeYear (400 * a + 100 * b + 4 * c + e + 1) = 146097 * a + 36524 * b + 1461 * c + 365 * e := by
  unfold daysBeforeYear
  simp only [Nat.add_sub_cancel]
  have d4 : (400 * a + 100 * b + 4 * c + e) / 4 = 100 * a + 25 * b + c := by omega
  have d100 : (400 * a + 100 * b + 4 * c + e) / 100 = 4 * a + b := by omega
  have d400 : (400 * a + 100 * b + 4 * c + e) / 400 = a := by omega
  rw [d4, d100, d400]
  omega

theorem leap_decomp (a b c e : Nat) (hb : b ≤ 3) (hc : c ≤ 24) (he : e ≤ 3) :
    isLeap (400 * a + 100 * b + 4 * c + e + 1) = decide (e = 3 ∧ (c ≠ 24 ∨ b = 3)) := by
  have m4 : (400 * a + 100 * b + 4 * c + e + 1) % 4 = 0 ↔ e = 3 := by omega
  have m100 : (400 * a + 100 * b + 4 * c + e + 1) % 100 = 0 ↔ (c = 24 ∧ e = 3) := by omega
  have m400 : (400 * a + 100 * b + 4 * c + e + 1) % 400 = 0 ↔ (b = 3 ∧ c = 24 ∧ e = 3) := by omega
  rw [Bool.eq_iff_iff, isLeap_iff, decide_eq_true_eq, m4, m400]
  have : (400 * a + 100 * b + 4 * c + e + 1) % 100 ≠ 0 ↔ ¬ (c = 24 ∧ e = 3) := not_congr m100
  rw [this]
  omega

/-- `_ord2ymd` inverts `toordinal`: it returns a valid date with the given ordinal. -/
theorem ord2ymd_spec (n : Nat) (h1 : 1 ≤ n) (h2 : n ≤ 3652059) :
    1 ≤ (ord2ymd n).1 ∧ (ord2ymd n).1 ≤ 9999 ∧ 1 ≤ (ord2ymd n).2.1 ∧ (ord2ymd n).2.1 ≤ 12 ∧
    1 ≤ (ord2ymd n).2.2 ∧
    (ord2ymd n).2.2 ≤ daysInMonth (isLeap (ord2ymd n).1) (ord2ymd n).2.1 ∧
    ordinal (ord2ymd n).1 (ord2ymd n).2.1 (ord2ymd n).2.2 = n := by
  obtain ⟨N, rfl⟩ : ∃ N, n = N + 1 := ⟨n - 1, by omega⟩
  unfold ord2ymd
  simp only [Nat.add_sub_cancel]
  -- the cycle decomposition
  generalize ha : N / 146097 = a at *
  generalize hb : N % 146097 / 36524 = b at *
  generalize hc : N % 146097 % 36524 / 1461 = c at *
  generalize he : N % 146097 % 36524 % 1461 / 365 = e at *
  generalize hr : N % 146097 % 36524 % 1461 % 365 = q at *
  have hN : N = 146097 * a + 36524 * b + 1461 * c + 365 * e + q := by omega
  have hb4 : b ≤ 4 := by omega
  have hc24 : c ≤ 24 := by omega
  have he4 : e ≤ 4 := by omega
  have hq : q < 365 := by omega
  have hb4' : b = 4 → c = 0 ∧ e = 0 ∧ q = 0 := by omega
  have he4' : e = 4 → q = 0 ∧ (b ≤ 3 → c ≤ 23) := by omega
  have ha24 : a ≤ 24 := by omega
  by_cases hx : e = 4 ∨ b = 4
  · simp only [hx, if_true]
    -- the last day of a leap year
    obtain ⟨b', c', hY, hb', hc'⟩ : ∃ b' c', a * 400 + 1 + b * 100 + c * 4 + e - 1 =
        400 * a + 100 * b' + 4 * c' + 3 + 1 ∧ b' ≤ 3 ∧ c' ≤ 24 ∧ (c' ≠ 24 ∨ b' = 3) ∧
        146097 * a + 36524 * b' + 1461 * c' + 1460 = N := by
      rcases hx with h | h
      · exact ⟨b, c, by omega, by omega, by omega, by omega, by omega⟩
      · exact ⟨3, 24, by omega, by omega, by omega, by omega, by omega⟩
    obtain ⟨hc', hlp, hN'⟩ := hc'
    rw [hY]
    have L := leap_decomp a b' c' 3 hb' hc' (by omega)
    have hL : isLeap (400 * a + 100 * b' + 4 * c' + 3 + 1) = true := by
      rw [L]; simpa using hlp
    have D := dby_decomp a b' c' 3 hb' hc' (by omega)
    unfold ordinal
    rw [hL, D]
    have e1 : daysBeforeMonth true 12 = 335 := by decide
    have e2 : daysInMonth true 12 = 31 := rfl
    rw [e1, e2]
    omega
  · simp only [hx, if_false]
    have hb3 : b ≤ 3 := by omega
    have he3 : e ≤ 3 := by omega
    have hY : a * 400 + 1 + b * 100 + c * 4 + e = 400 * a + 100 * b + 4 * c + e + 1 := by omega
    rw [hY]
    have L := leap_decomp a b c e hb3 hc24 he3
    have D := dby_decomp a b c e hb3 hc24 he3
    have T := monthDay_table (decide (e = 3 ∧ (c ≠ 24 ∨ b = 3))) ⟨q, by omega⟩ (Or.inl hq)
    simp only at T
    unfold ordinal
    rw [L, D]
    omega

theorem ord_le_max (a : Civil) (ha : a.valid) : ordinal a.year a.month a.day ≤ 3652059 := by
  obtain ⟨a1, a2, a3, a4, a5, a6, _⟩ := ha
  have B := dbm_next (isLeap a.year) a.month 13 a3 (by omega) (by omega)
  rw [dbm_13] at B
  unfold ordinal
  by_cases h : a.year = 9999
  · rw [h] at B a6 ⊢
    have : isLeap 9999 = false := by decide
    rw [this] at B a6 ⊢
    rw [dby_9999]
    simp only [Bool.false_eq_true, if_false] at B
    omega
  · have A := dby_next a.year 9999 a1 (by omega)
    rw [dby_9999] at A
    split at A <;> split at B <;> omega

/-- `_ord2ymd (toordinal (y, m, d)) = (y, m, d)` on valid dates. -/
theorem ord2ymd_ordinal (c : Civil) (hc : c.valid) :
    ord2ymd (ordinal c.year c.month c.day) = (c.year, c.month, c.day) := by
  have hb := ord_bounds c hc
  have hm := ord_le_max c hc
  obtain ⟨s1, s2, s3, s4, s5, s6, s7⟩ := ord2ymd_spec _ hb.1 hm
  generalize ord2ymd (ordinal c.year c.month c.day) = r at *
  obtain ⟨y, m, d⟩ := r
  simp only at s1 s2 s3 s4 s5 s6 s7
  let c' : Civil := ⟨y, m, d, c.hour, c.minute, c.second, c.micro⟩
  have hc' : c'.valid := by
    obtain ⟨_, _, _, _, _, _, a7, a8, a9, a10⟩ := hc
    exact ⟨s1, s2, s3, s4, s5, s6, a7, a8, a9, a10⟩
  have h1 := ord_lt_iff c' c hc' hc
  have h2 := ord_lt_iff c c' hc hc'
  unfold dateLt at h1 h2
  simp only [c'] at h1 h2
  have : y = c.year ∧ m = c.month ∧ d = c.day := by omega
  obtain ⟨rfl, rfl, rfl⟩ := this
  rfl

theorem boolToBytes_inj (a b : Bool) : boolToBytes (.obj a) = boolToBytes (.obj b) ↔ a = b := by
  cases a <;> cases b <;> decide

end WM.NumericDate
