import WM.Lemmas.IndexStats
/-! Documents added as one group stay adjacent and in order. -/
namespace WM.Index
open WM.Dict

theorem infix_flatMap_of_mem {α β} (l : List α) (f : α → List β) (a : α) (h : a ∈ l) : f a <:+: l.flatMap f := by
  induction l with
  | nil => simp at h
  | cons x r ih =>
    simp only [List.mem_cons] at h
    rcases h with rfl | h
    · exact ⟨[], r.flatMap f, by simp [List.flatMap_cons]⟩
    · obtain ⟨p, q, hpq⟩ := ih h
      exact ⟨f x ++ p, q, by simp [List.flatMap_cons, ← hpq, List.append_assoc]⟩

/-- (commit) the documents a writer added consecutively are adjacent and in order in the segment it
    commits, under every merge policy -/
theorem group_commit (w : Writer) (plan : Plan) (t' : Toc) (h : w.commitPlan plan = .ok t')
    (hna : w.added = false → w.ndocs = []) (pre g post : List DocRec) (hg : w.ndocs = pre ++ g ++ post) (hne : g ≠ []) :
    ∃ s ∈ t'.segs, g <:+: s.liveDocs := by
  unfold Writer.commitPlan at h
  cases h1 : w.addReaders (plan w.segs).1 with
  | error e => simp [h1, Except.map] at h
  | ok w1 =>
    simp only [h1, Except.map, Except.ok.injEq] at h
    obtain ⟨_, _, _, b4, b5⟩ := Writer.addReaders_fields w _ w1 h1
    have hadd : w.added = true := by
      cases ha : w.added with
      | true => rfl
      | false =>
        have := hna ha
        rw [hg] at this
        have : g = [] := by
          have h2 := congrArg List.length this
          simp only [List.length_append, List.length_nil] at h2
          exact List.length_eq_zero_iff.mp (by omega)
        exact absurd this hne
    have hadd1 : w1.added = true := by rw [b4, hadd]; rfl
    subst h
    refine ⟨w1.finalizeSegment, by simp [hadd1], ?_⟩
    rw [Seg.liveDocs_of_no_deletions _ rfl]
    simp only [Writer.finalizeSegment, b5, hg]
    exact ⟨pre, post ++ contentOf w.schema (plan w.segs).1, by simp [List.append_assoc]⟩

/-- (merge) documents that are adjacent among the live documents of a segment are adjacent, in the
    same order, in whatever segment holds them after the next commit — the same segment when the
    policy leaves it alone, the merged one when it is fed through `add_reader` -/
theorem group_merge (w : Writer) (plan : Plan) (t' : Toc) (h : w.commitPlan plan = .ok t') (s : Seg)
    (hs : s ∈ (plan w.segs).1 ∨ s ∈ (plan w.segs).2) (g : List DocRec) (hg : g <:+: s.liveDocs) :
    ∃ s' ∈ t'.segs, g.map (restrict w.schema) <:+: s'.liveDocs.map (restrict w.schema) := by
  unfold Writer.commitPlan at h
  cases h1 : w.addReaders (plan w.segs).1 with
  | error e => simp [h1, Except.map] at h
  | ok w1 =>
    simp only [h1, Except.map, Except.ok.injEq] at h
    obtain ⟨_, _, _, b4, b5⟩ := Writer.addReaders_fields w _ w1 h1
    subst h
    rcases hs with hs | hs
    · have hne : (plan w.segs).1 ≠ [] := List.ne_nil_of_mem hs
      have hadd1 : w1.added = true := by
        rw [b4]; cases hp : (plan w.segs).1 with
        | nil => exact absurd hp hne
        | cons _ _ => simp
      refine ⟨w1.finalizeSegment, by simp [hadd1], ?_⟩
      rw [Seg.liveDocs_of_no_deletions _ rfl]
      simp only [Writer.finalizeSegment, b5, List.map_append, contentOf_restrict]
      have h2 : (s.liveDocs.map (restrict w.schema)) <:+: contentOf w.schema (plan w.segs).1 :=
        infix_flatMap_of_mem _ (fun s => s.liveDocs.map (restrict w.schema)) s hs
      have h3 := (hg.map (restrict w.schema)).trans h2
      exact h3.trans ⟨w.ndocs.map (restrict w.schema), [], by simp⟩
    · refine ⟨s, by simp only; split <;> simp [hs], hg.map _⟩

/-- (delete) deleting documents keeps the remaining members of a run of live documents adjacent -/
theorem group_delete (s : Seg) (l : Nat) (G : List (DocRec × Nat)) (hG : G <:+: s.liveIdx) :
    G.filter (fun p => p.2 != l) <:+: (s.deleteDocument l true).liveIdx := by
  rw [Seg.liveIdx_delete]
  exact hG.filter _

/-! ### a group through a history of adding / merging sessions -/

theorem infix_map_inv {α β} (f : α → β) (g : List β) (l : List α) (h : g <:+: l.map f) :
    ∃ g', g' <:+: l ∧ g'.map f = g := by
  obtain ⟨p, q, hpq⟩ := h
  obtain ⟨l12, l3, rfl, h12, _⟩ := List.map_eq_append_iff.mp hpq.symm
  obtain ⟨l1, l2, rfl, _, h2⟩ := List.map_eq_append_iff.mp h12
  exact ⟨l2, ⟨l1, l3, rfl⟩, h2⟩

theorem Writer.commitPlan_schema (w : Writer) (plan : Plan) (t' : Toc) (h : w.commitPlan plan = .ok t') :
    t'.schema = w.schema := by
  unfold Writer.commitPlan at h
  cases h1 : w.addReaders (plan w.segs).1 with
  | error e => simp [h1, Except.map] at h
  | ok w1 =>
    simp only [h1, Except.map, Except.ok.injEq] at h
    obtain ⟨b1, _⟩ := Writer.addReaders_fields w _ w1 h1
    subst h
    exact b1

theorem Writer.run_adds_frame (w : Writer) (docs : List DocRec) :
    (w.run (docs.map .add)).segs = w.segs ∧ (w.run (docs.map .add)).schema = w.schema := by
  induction docs generalizing w with
  | nil => exact ⟨rfl, rfl⟩
  | cons d r ih =>
    simp only [List.map_cons, Writer.run]
    obtain ⟨h1, h2⟩ := ih (w.step (.add d)).1
    have hs : (w.step (.add d)).1.segs = w.segs ∧ (w.step (.add d)).1.schema = w.schema := by
      by_cases hf : d.fits w.schema = true
      · simp [Writer.step, Writer.addDocument, hf]
      · have hf' : d.fits w.schema = false := by simpa using hf
        simp [Writer.step, Writer.addDocument, hf']
    exact ⟨h1.trans hs.1, h2.trans hs.2⟩

theorem Writer.run_adds_ndocs (w : Writer) (docs : List DocRec) (h : ∀ d ∈ docs, d.fits w.schema = true) :
    (w.run (docs.map .add)).ndocs = w.ndocs ++ docs ∧
    ((w.run (docs.map .add)).added = false → w.added = false ∧ docs = []) := by
  induction docs generalizing w with
  | nil => exact ⟨by simp [Writer.run], fun h => ⟨h, rfl⟩⟩
  | cons d r ih =>
    have hd := h d (by simp)
    have e : (w.step (.add d)).1 = { w with ndocs := w.ndocs ++ [d], pool := w.pool ++ docPostings d w.ndocs.length, added := true } := by
      simp [Writer.step, Writer.addDocument, hd]
    simp only [List.map_cons, Writer.run]
    rw [e]
    obtain ⟨h1, h2⟩ := ih { w with ndocs := w.ndocs ++ [d], pool := w.pool ++ docPostings d w.ndocs.length, added := true }
      (fun x hx => h x (by simp [hx]))
    refine ⟨by rw [h1]; simp, fun hf => ?_⟩
    have := (h2 hf).1
    simp at this

/-- `g` (documents as visible under `sc`) is an adjacent run, in order, of the live documents of
    one segment -/
def AdjIn (sc : Schema) (g : List DocRec) (segs : List Seg) : Prop :=
  ∃ s ∈ segs, g <:+: s.liveDocs.map (restrict sc)

/-- an adjacent run survives a session that only adds documents, under any re-arranging policy -/
theorem adj_session (t : Toc) (docs : List DocRec) (plan : Plan) (hp : PlanOK plan) (t' : Toc)
    (h : t.session (docs.map .add) (.commit plan) = .ok t') (g : List DocRec) (ha : AdjIn t.schema g t.segs) :
    t'.schema = t.schema ∧ AdjIn t.schema g t'.segs := by
  obtain ⟨hsegs, hsch⟩ := Writer.run_adds_frame t.writer docs
  have hsc : t'.schema = t.schema := (Writer.commitPlan_schema _ plan t' h).trans hsch
  refine ⟨hsc, ?_⟩
  obtain ⟨s, hs, hg⟩ := ha
  obtain ⟨g', hg', rfl⟩ := infix_map_inv _ g _ hg
  have hmem : s ∈ (plan (t.writer.run (docs.map .add)).segs).1 ∨ s ∈ (plan (t.writer.run (docs.map .add)).segs).2 := by
    have : s ∈ (t.writer.run (docs.map .add)).segs := by rw [hsegs]; exact hs
    exact List.mem_append.mp ((hp _).mem_iff.mpr this)
  obtain ⟨s', hs', h2⟩ := group_merge _ plan t' h s hmem g' hg'
  rw [hsch] at h2
  exact ⟨s', hs', by simpa [Toc.writer] using h2⟩

theorem adj_history (later : List (List DocRec × Plan)) (t : Toc) (hp : ∀ x ∈ later, PlanOK x.2) (t' : Toc)
    (h : t.history (later.map (fun x => (x.1.map Op.add, Ending.commit x.2))) = .ok t') (g : List DocRec)
    (ha : AdjIn t.schema g t.segs) : t'.schema = t.schema ∧ AdjIn t.schema g t'.segs := by
  induction later generalizing t with
  | nil => simp only [List.map_nil, Toc.history, Except.ok.injEq] at h; subst h; exact ⟨rfl, ha⟩
  | cons x r ih =>
    simp only [List.map_cons, Toc.history] at h
    cases h1 : t.session (x.1.map Op.add) (.commit x.2) with
    | error e => simp [h1, Except.bind] at h
    | ok t1 =>
      simp only [h1, Except.bind] at h
      obtain ⟨hs1, a1⟩ := adj_session t x.1 x.2 (hp x (by simp)) t1 h1 g ha
      obtain ⟨hs2, a2⟩ := ih t1 (fun y hy => hp y (by simp [hy])) h (by rw [hs1]; exact a1)
      exact ⟨hs2.trans hs1, by rw [hs1] at a2; exact a2⟩

/-- **a group through a whole history of merges.** A writer adds the block `g` (between other
    documents) and commits; afterwards any number of writers add documents and commit, each under
    its own re-arranging merge policy (NO_MERGE, MERGE_SMALL, OPTIMIZE, …): in the final index the
    members of `g` are adjacent and in order among the live documents of one segment. -/
theorem group_history (t : Toc) (pre g post : List DocRec) (hne : g ≠ []) (plan : Plan) (t1 : Toc)
    (h1 : t.session ((pre ++ g ++ post).map .add) (.commit plan) = .ok t1)
    (hfit : ∀ d ∈ pre ++ g ++ post, d.fits t.schema = true)
    (later : List (List DocRec × Plan)) (hp : ∀ x ∈ later, PlanOK x.2) (t2 : Toc)
    (h2 : t1.history (later.map (fun x => (x.1.map Op.add, Ending.commit x.2))) = .ok t2) :
    t2.schema = t.schema ∧ ∃ s ∈ t2.segs, g.map (restrict t.schema) <:+: s.liveDocs.map (restrict t.schema) := by
  obtain ⟨hnd, hadd⟩ := Writer.run_adds_ndocs t.writer (pre ++ g ++ post) hfit
  have hsch := (Writer.run_adds_frame t.writer (pre ++ g ++ post)).2
  have hs1 : t1.schema = t.schema := (Writer.commitPlan_schema _ plan t1 h1).trans hsch
  obtain ⟨s, hs, hg⟩ := group_commit _ plan t1 h1
    (fun hf => by have := (hadd hf).2; rw [hnd, this]; rfl) pre g post (by rw [hnd]; rfl) hne
  have ha : AdjIn t1.schema (g.map (restrict t.schema)) t1.segs := ⟨s, hs, by rw [hs1]; exact hg.map _⟩
  obtain ⟨hs2, s2, hs2m, hg2⟩ := adj_history later t1 hp t2 h2 _ ha
  exact ⟨hs2.trans hs1, s2, hs2m, by rw [hs1] at hg2; exact hg2⟩

end WM.Index
