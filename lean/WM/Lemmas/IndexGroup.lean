import WM.Lemmas.IndexStats
/-! Documents added as one group stay adjacent and in order. -/
namespace WM.Index
open WM.Dict

theorem infix_flatMap_of_mem {α β} (l : List α) (f : α → List β) (a : α) (h : a ∈ l) : f a <:+: l.flatMap f := by
  induction l with
  | nil => simp at h
  | cons x r ih =>
    simp only [List.mem_cons] at h
    rcases h with rfl | h
    · exact ⟨[], r.flatMap f, by simp [List.flatMap_cons]⟩
    · obtain ⟨p, q, hpq⟩ := ih h
      exact ⟨f x ++ p, q, by simp [List.flatMap_cons, ← hpq, List.append_assoc]⟩

/-- (commit) the documents a writer added consecutively are adjacent and in order in the segment it
    commits, under every merge policy -/
theorem group_commit (w : Writer) (plan : Plan) (t' : Toc) (h : w.commitPlan plan = .ok t')
    (hna : w.added = false → w.ndocs = []) (pre g post : List DocRec) (hg : w.ndocs = pre ++ g ++ post) (hne : g ≠ []) :
    ∃ s ∈ t'.segs, g <:+: s.liveDocs := by
  unfold Writer.commitPlan at h
  cases h1 : w.addReaders (plan w.segs).1 with
  | error e => simp [h1, Except.map] at h
  | ok w1 =>
    simp only [h1, Except.map, Except.ok.injEq] at h
    obtain ⟨_, _, _, b4, b5⟩ := Writer.addReaders_fields w _ w1 h1
    have hadd : w.added = true := by
      cases ha : w.added with
      | true => rfl
      | false =>
        have := hna ha
        rw [hg] at this
        have : g = [] := by
          have h2 := congrArg List.length this
          simp only [List.length_append, List.length_nil] at h2
          exact List.length_eq_zero_iff.mp (by omega)
        exact absurd this hne
    have hadd1 : w1.added = true := by rw [b4, hadd]; rfl
    subst h
    refine ⟨w1.finalizeSegment, by simp [hadd1], ?_⟩
    rw [Seg.liveDocs_of_no_deletions _ rfl]
    simp only [Writer.finalizeSegment, b5, hg]
    exact ⟨pre, post ++ contentOf w.schema (plan w.segs).1, by simp [List.append_assoc]⟩

/-- (merge) documents that are adjacent among the live documents of a segment are adjacent, in the
    same order, in whatever segment holds them after the next commit — the same segment when the
    policy leaves it alone, the merged one when it is fed through `add_reader` -/
theorem group_merge (w : Writer) (plan : Plan) (t' : Toc) (h : w.commitPlan plan = .ok t') (s : Seg)
    (hs : s ∈ (plan w.segs).1 ∨ s ∈ (plan w.segs).2) (g : List DocRec) (hg : g <:+: s.liveDocs) :
    ∃ s' ∈ t'.segs, g.map (restrict w.schema) <:+: s'.liveDocs.map (restrict w.schema) := by
  unfold Writer.commitPlan at h
  cases h1 : w.addReaders (plan w.segs).1 with
  | error e => simp [h1, Except.map] at h
  | ok w1 =>
    simp only [h1, Except.map, Except.ok.injEq] at h
    obtain ⟨_, _, _, b4, b5⟩ := Writer.addReaders_fields w _ w1 h1
    subst h
    rcases hs with hs | hs
    · have hne : (plan w.segs).1 ≠ [] := List.ne_nil_of_mem hs
      have hadd1 : w1.added = true := by
        rw [b4]; cases hp : (plan w.segs).1 with
        | nil => exact absurd hp hne
        | cons _ _ => simp
      refine ⟨w1.finalizeSegment, by simp [hadd1], ?_⟩
      rw [Seg.liveDocs_of_no_deletions _ rfl]
      simp only [Writer.finalizeSegment, b5, List.map_append, contentOf_restrict]
      have h2 : (s.liveDocs.map (restrict w.schema)) <:+: contentOf w.schema (plan w.segs).1 :=
        infix_flatMap_of_mem _ (fun s => s.liveDocs.map (restrict w.schema)) s hs
      have h3 := (hg.map (restrict w.schema)).trans h2
      exact h3.trans ⟨w.ndocs.map (restrict w.schema), [], by simp⟩
    · refine ⟨s, by simp only; split <;> simp [hs], hg.map _⟩

/-- (delete) deleting documents keeps the remaining members of a run of live documents adjacent -/
theorem group_delete (s : Seg) (l : Nat) (G : List (DocRec × Nat)) (hG : G <:+: s.liveIdx) :
    G.filter (fun p => p.2 != l) <:+: (s.deleteDocument l true).liveIdx := by
  rw [Seg.liveIdx_delete]
  exact hG.filter _

end WM.Index
