import WM.Lemmas.Faithful
/-! `W3LeafMatcher` (a block cursor) is a faithful cursor over the posting list (C10 `leaf_refines`). -/
namespace WM.Matcher
namespace LeafM

/-- all postings from block `b` on, minus the first `i` -/
def restPosts (blocks : List Block) (b i : Nat) : List Posting :=
  ((blocks.drop b).flatMap (·.posts)).drop i

theorem den_eq (m : LeafM) : m.den = if m.atend then [] else (restPosts m.blocks m.b m.i).map (entry m.sc) := rfl

/-- Invariant of the stored data (independent of the cursor): no empty block, ids ascend across
    blocks, every block header carries its last id. -/
structure DataWF (blocks : List Block) : Prop where
  nonempty : ∀ B ∈ blocks, B.posts ≠ []
  ascending : ((blocks.flatMap (·.posts)).map (·.id)).Pairwise (· < ·)
  maxId : ∀ B ∈ blocks, ∀ p ∈ B.posts, p.id ≤ B.maxId

/-- cursor invariant: inside a block, or at the end -/
def WF (m : LeafM) : Prop :=
  DataWF m.blocks ∧ m.b < m.blocks.length ∧ (m.atend = true ∨ m.i < m.blen)

/-- same stored data, possibly another cursor -/
def Same (m m' : LeafM) : Prop :=
  m'.blocks = m.blocks ∧ m'.sc = m.sc ∧ m'.termMaxWeight = m.termMaxWeight ∧ m'.termMinLength = m.termMinLength

theorem Same.refl (m : LeafM) : Same m m := ⟨rfl, rfl, rfl, rfl⟩
theorem Same.trans {m₁ m₂ m₃ : LeafM} (h₁ : Same m₁ m₂) (h₂ : Same m₂ m₃) : Same m₁ m₃ :=
  ⟨h₂.1.trans h₁.1, h₂.2.1.trans h₁.2.1, h₂.2.2.1.trans h₁.2.2.1, h₂.2.2.2.trans h₁.2.2.2⟩

theorem DataWF.of_same {m m' : LeafM} (h : Same m m') (d : DataWF m.blocks) : DataWF m'.blocks := by
  rw [h.1]; exact d

theorem full_of_same {m m' : LeafM} (h : Same m m') : m'.full = m.full := by
  simp [full, h.1, h.2.1]

/-! ### list bookkeeping -/

theorem restPosts_block {blocks : List Block} {b : Nat} (hb : b < blocks.length) (i : Nat)
    (hi : i ≤ (blocks[b]).posts.length) :
    restPosts blocks b i = (blocks[b]).posts.drop i ++ (blocks.drop (b + 1)).flatMap (·.posts) := by
  unfold restPosts
  rw [List.drop_eq_getElem_cons hb, List.flatMap_cons, List.drop_append_of_le_length hi]

theorem restPosts_next_block {blocks : List Block} {b : Nat} (hb : b < blocks.length) :
    restPosts blocks b (blocks[b]).posts.length = restPosts blocks (b + 1) 0 := by
  rw [restPosts_block hb _ (Nat.le_refl _)]
  simp [restPosts]

theorem restPosts_last {blocks : List Block} {b : Nat} (hb : b + 1 ≥ blocks.length) :
    restPosts blocks (b + 1) 0 = [] := by
  simp [restPosts, List.drop_eq_nil_of_le hb]

theorem rem_eq_length (m : LeafM) : m.rem = m.den.length := by
  unfold rem
  rw [den_eq]
  by_cases h : m.atend = true
  · simp [h]
  · simp only [h, Bool.false_eq_true, ↓reduceIte, List.length_map, restPosts, List.length_drop,
      List.length_flatMap]

theorem curBlock_eq {m : LeafM} (hb : m.b < m.blocks.length) : m.curBlock = some (m.blocks[m.b]) := by
  simp [curBlock, List.getElem?_eq_getElem hb]

theorem blen_eq {m : LeafM} (hb : m.b < m.blocks.length) : m.blen = (m.blocks[m.b]).posts.length := by
  simp [blen, curBlock_eq hb]

/-- ids ascend in every suffix of the posting list -/
theorem asc_entries {sc : Rat → Nat → Rat} {ps : List Posting} (h : (ps.map (·.id)).Pairwise (· < ·)) :
    Asc (ps.map (entry sc)) := by
  rw [List.pairwise_map] at h
  exact List.Pairwise.map _ (fun a b hab => hab) h

theorem asc_full {m : LeafM} (d : DataWF m.blocks) : Asc m.full := asc_entries d.ascending

theorem flatMap_drop_sublist {α β} (f : α → List β) (l : List α) (n : Nat) :
    ((l.drop n).flatMap f).Sublist (l.flatMap f) := by
  induction l generalizing n with
  | nil => simp
  | cons a l ih =>
    cases n with
    | zero => simp
    | succ n =>
      rw [List.drop_succ_cons, List.flatMap_cons]
      exact (ih n).trans (List.sublist_append_right _ _)

theorem den_sublist_full (m : LeafM) : m.den.Sublist m.full := by
  rw [den_eq]
  by_cases h : m.atend = true
  · simp [h]
  · simp only [h, Bool.false_eq_true, ↓reduceIte, full]
    apply List.Sublist.map
    unfold restPosts
    exact (List.drop_sublist _ _).trans (flatMap_drop_sublist _ _ _)

theorem asc_den {m : LeafM} (d : DataWF m.blocks) : Asc m.den := asc_sublist (den_sublist_full m) (asc_full d)

/-- the remaining list of a well-formed active leaf starts with the current posting -/
theorem den_active {m : LeafM} (h : WF m) (hact : m.atend = false) :
    ∃ p, (m.blocks[m.b]'h.2.1).posts[m.i]? = some p ∧
      m.den = entry m.sc p ::
        (((m.blocks[m.b]'h.2.1).posts.drop (m.i + 1) ++ (m.blocks.drop (m.b + 1)).flatMap (·.posts)).map (entry m.sc)) := by
  obtain ⟨d, hb, hi⟩ := h
  have hi' : m.i < (m.blocks[m.b]).posts.length := by
    rcases hi with hi | hi
    · rw [hact] at hi; cases hi
    · rwa [blen_eq hb] at hi
  refine ⟨(m.blocks[m.b]).posts[m.i], by simp [List.getElem?_eq_getElem hi'], ?_⟩
  simp only [den_eq, hact, Bool.false_eq_true, ↓reduceIte]
  rw [restPosts_block hb _ (Nat.le_of_lt hi'), List.drop_eq_getElem_cons hi']
  rfl

/-! ### moving forward -/

/-- `m'` is `m` moved forward over postings that all satisfy `Q` (`id < t` for `skip_to(t)`,
    `score ≤ q` for `skip_to_quality(q)`) -/
structure Adv (Q : Nat × Rat → Prop) (m m' : LeafM) : Prop where
  wf : WF m'
  same : Same m m'
  split : ∃ P, m.den = P ++ m'.den ∧ ∀ p ∈ P, Q p

theorem Adv.refl (Q : Nat × Rat → Prop) {m : LeafM} (h : WF m) : Adv Q m m := ⟨h, Same.refl m, [], rfl, by simp⟩

theorem Adv.trans {Q : Nat × Rat → Prop} {m₁ m₂ m₃ : LeafM} (h₁ : Adv Q m₁ m₂) (h₂ : Adv Q m₂ m₃) : Adv Q m₁ m₃ := by
  obtain ⟨P, hP, hP'⟩ := h₁.split
  obtain ⟨Q, hQ, hQ'⟩ := h₂.split
  refine ⟨h₂.wf, h₁.same.trans h₂.same, P ++ Q, by rw [hP, hQ, List.append_assoc], ?_⟩
  intro p hp
  rcases List.mem_append.1 hp with hp | hp
  · exact hP' p hp
  · exact hQ' p hp

theorem dropBelow_append_of_lt {t : Nat} {P S : Den} (h : ∀ p ∈ P, p.1 < t) :
    dropBelow t (P ++ S) = dropBelow t S := by
  induction P with
  | nil => rfl
  | cons p P ih =>
    obtain ⟨x, s⟩ := p
    rw [List.cons_append, dropBelow_cons, if_pos (h (x, s) List.mem_cons_self)]
    exact ih fun q hq => h q (List.mem_cons_of_mem _ hq)

/-- an advance that ends at or beyond `t` (or at the end) is `skip_to(t)` -/
theorem Adv.rem_le {Q : Nat × Rat → Prop} {m m' : LeafM} (h : Adv Q m m') : m'.rem ≤ m.rem := by
  obtain ⟨P, hP, -⟩ := h.split
  rw [rem_eq_length, rem_eq_length, hP, List.length_append]; omega

theorem Adv.rem_lt {Q : Nat × Rat → Prop} {m m' : LeafM} (h : Adv Q m m') (hne : m'.den ≠ m.den) : m'.rem < m.rem := by
  obtain ⟨P, hP, -⟩ := h.split
  rw [rem_eq_length, rem_eq_length, hP, List.length_append]
  cases P with
  | nil => exact absurd (by simpa using hP.symm) hne
  | cons p P => simp

theorem Adv.den_eq_dropBelow {t : Nat} {m m' : LeafM} (h : Adv (fun p => p.1 < t) m m')
    (hend : ∀ x r L, m'.den = (x, r) :: L → t ≤ x) : m'.den = dropBelow t m.den := by
  obtain ⟨P, hP, hP'⟩ := h.split
  rw [hP, dropBelow_append_of_lt hP']
  cases hd : m'.den with
  | nil => rfl
  | cons p L => obtain ⟨x, r⟩ := p; exact (dropBelow_of_le_head (hend x r L hd)).symm

/-- `next()` on an active well-formed leaf -/
theorem next_spec {m : LeafM} (h : WF m) {x : Nat} {r : Rat} {L : Den} (hd : m.den = (x, r) :: L) :
    ∃ m', m.next = .ok m' ∧ WF m' ∧ Same m m' ∧ m'.den = L := by
  have hact : m.atend = false := by
    cases ha : m.atend with
    | false => rfl
    | true => rw [den_eq, ha] at hd; cases hd
  obtain ⟨d, hb, hi⟩ := h
  have hi' : m.i < (m.blocks[m.b]).posts.length := by
    rcases hi with hi | hi
    · rw [hact] at hi; cases hi
    · rwa [blen_eq hb] at hi
  obtain ⟨p, hp, hden⟩ := den_active ⟨d, hb, hi⟩ hact
  rw [hden] at hd
  obtain ⟨-, hL⟩ := List.cons.inj hd
  unfold next
  simp only [blen_eq hb]
  by_cases hend : m.i + 1 = (m.blocks[m.b]).posts.length
  · simp only [hend, ↓reduceIte]
    unfold nextBlock
    simp only [hact, Bool.false_eq_true, ↓reduceIte]
    have hdrop : (m.blocks[m.b]).posts.drop (m.i + 1) = [] := by
      rw [hend]; exact List.drop_length
    by_cases hlast : m.b + 1 ≥ m.blocks.length
    · simp only [hlast, ↓reduceIte]
      refine ⟨_, rfl, ⟨d, hb, Or.inl rfl⟩, Same.refl m, ?_⟩
      rw [← hL, hdrop, List.drop_eq_nil_of_le hlast]
      simp [den_eq]
    · simp only [hlast, ↓reduceIte]
      have hb' : m.b + 1 < m.blocks.length := by omega
      have hne := d.nonempty (m.blocks[m.b + 1]) (List.getElem_mem hb')
      have hpos : 0 < (m.blocks[m.b + 1]).posts.length := List.length_pos_iff.2 hne
      refine ⟨_, rfl, ⟨d, hb', Or.inr ?_⟩, Same.refl m, ?_⟩
      · show 0 < blen _
        simp only [blen, curBlock, List.getElem?_eq_getElem hb']; exact hpos
      · rw [← hL, hdrop, den_eq]
        simp only [hact, Bool.false_eq_true, ↓reduceIte, List.nil_append, restPosts, List.drop_zero]
  · simp only [hend, ↓reduceIte]
    refine ⟨_, rfl, ⟨d, hb, Or.inr ?_⟩, Same.refl m, ?_⟩
    · show m.i + 1 < blen _
      simp only [blen, curBlock, List.getElem?_eq_getElem hb]; omega
    · rw [← hL, den_eq]
      simp only [hact, Bool.false_eq_true, ↓reduceIte]
      rw [restPosts_block hb _ (by show m.i + 1 ≤ _; omega)]

/-- `_next_block()` from a position that is not at the end: the rest of the block is passed over -/
theorem nextBlock_spec {m : LeafM} (h : WF m) (hact : m.atend = false) :
    ∃ m', m.nextBlock = .ok m' ∧ WF m' ∧ Same m m' ∧
      m.den = ((m.blocks[m.b]'h.2.1).posts.drop m.i).map (entry m.sc) ++ m'.den ∧
      (m'.atend = true ∨ (m'.atend = false ∧ m'.b = m.b + 1)) := by
  obtain ⟨d, hb, hi⟩ := h
  have hi' : m.i < (m.blocks[m.b]).posts.length := by
    rcases hi with hi | hi
    · rw [hact] at hi; cases hi
    · rwa [blen_eq hb] at hi
  unfold nextBlock
  simp only [hact, Bool.false_eq_true, ↓reduceIte]
  have hden : m.den = ((m.blocks[m.b]).posts.drop m.i).map (entry m.sc) ++
      ((m.blocks.drop (m.b + 1)).flatMap (·.posts)).map (entry m.sc) := by
    simp only [den_eq, hact, Bool.false_eq_true, ↓reduceIte]
    rw [restPosts_block hb _ (Nat.le_of_lt hi'), List.map_append]
  by_cases hlast : m.b + 1 ≥ m.blocks.length
  · simp only [hlast, ↓reduceIte]
    refine ⟨_, rfl, ⟨d, hb, Or.inl rfl⟩, Same.refl m, ?_, Or.inl rfl⟩
    rw [hden, List.drop_eq_nil_of_le hlast]
    simp [den_eq]
  · simp only [hlast, ↓reduceIte]
    have hb' : m.b + 1 < m.blocks.length := by omega
    have hne := d.nonempty (m.blocks[m.b + 1]) (List.getElem_mem hb')
    have hpos : 0 < (m.blocks[m.b + 1]).posts.length := List.length_pos_iff.2 hne
    refine ⟨_, rfl, ⟨d, hb', Or.inr ?_⟩, Same.refl m, ?_, Or.inr ⟨rfl, rfl⟩⟩
    · show 0 < blen _
      simp only [blen, curBlock, List.getElem?_eq_getElem hb']; exact hpos
    · rw [hden, den_eq]
      simp only [hact, Bool.false_eq_true, ↓reduceIte, restPosts, List.drop_zero]

/-- budget of the block-skipping loop -/
def blocksLeft (m : LeafM) : Nat := if m.atend then 0 else m.blocks.length - m.b

/-- `_skip_to_block(skipwhile)`: passes over whole blocks whose postings all satisfy `Q` -/
theorem skipBlocksWhile_spec' (p : LeafM → Bool) (Q : Nat × Rat → Prop) (S : LeafM → Prop)
    (hS : ∀ a b : LeafM, Same a b → S a → S b)
    (hpQ : ∀ m : LeafM, (hw : WF m) → m.atend = false → p m = true → S m →
      ∀ post ∈ (m.blocks[m.b]'hw.2.1).posts, Q (entry m.sc post)) :
    ∀ (fuel : Nat) (m : LeafM), WF m → S m → blocksLeft m < fuel →
      ∃ m' k, skipBlocksWhile p fuel m = .ok (m', k) ∧ Adv Q m m' ∧ (m'.isActive = false ∨ p m' = false) ∧
        (k = 0 → m' = m) ∧ (0 < k → m'.den ≠ m.den ∨ m.den = []) := by
  intro fuel
  induction fuel with
  | zero => intro m _ _ h; omega
  | succ n ih =>
    intro m hw hs hfuel
    unfold skipBlocksWhile
    by_cases hc : (m.isActive && p m) = true
    · simp only [hc, ↓reduceIte]
      rw [Bool.and_eq_true] at hc
      have hact : m.atend = false := by
        cases ha : m.atend with
        | false => rfl
        | true => simp [isActive, ha] at hc
      obtain ⟨m1, h1, h2, h3, h4, h5⟩ := nextBlock_spec hw hact
      have hless : blocksLeft m1 < n := by
        unfold blocksLeft at hfuel ⊢
        rcases h5 with h5 | ⟨h5, h6⟩
        · simp only [h5, ↓reduceIte]
          simp only [hact, Bool.false_eq_true, ↓reduceIte] at hfuel
          have := hw.2.1; omega
        · simp only [h5, Bool.false_eq_true, ↓reduceIte, h6, h3.1]
          simp only [hact, Bool.false_eq_true, ↓reduceIte] at hfuel
          have := hw.2.1; omega
      obtain ⟨m', k, g1, g2, g3, g4, g5⟩ := ih m1 h2 (hS m m1 h3 hs) hless
      have hstep : Adv Q m m1 := by
        refine ⟨h2, h3, _, h4, ?_⟩
        intro e he
        obtain ⟨post, hpost, rfl⟩ := List.mem_map.1 he
        exact hpQ m hw hact hc.2 hs post (List.mem_of_mem_drop hpost)
      refine ⟨m', k + 1, by simp [h1, g1], hstep.trans g2, g3, by omega, ?_⟩
      intro _
      left
      have hne : m.den ≠ [] := by
        obtain ⟨pp, -, hden⟩ := den_active hw hact
        rw [hden]; simp
      -- the current posting is passed over, so the list got strictly shorter
      intro heq
      have hlen := congrArg List.length heq
      obtain ⟨P, hP, -⟩ := (hstep.trans g2).split
      obtain ⟨P1, hP1, -⟩ := hstep.split
      have hi' : m.i < (m.blocks[m.b]'hw.2.1).posts.length := by
        rcases hw.2.2 with hi | hi
        · rw [hact] at hi; cases hi
        · rwa [blen_eq hw.2.1] at hi
      have l1 : m.den.length = ((m.blocks[m.b]'hw.2.1).posts.drop m.i).length + m1.den.length := by
        rw [h4, List.length_append, List.length_map]
      have l2 : m'.den.length ≤ m1.den.length := by
        have := g2.rem_le; rwa [rem_eq_length, rem_eq_length] at this
      rw [List.length_drop] at l1
      omega
    · simp only [hc, Bool.false_eq_true, ↓reduceIte]
      refine ⟨m, 0, rfl, Adv.refl Q hw, ?_, fun _ => rfl, fun h => absurd h (Nat.lt_irrefl 0)⟩
      cases h1 : m.isActive with
      | false => left; rfl
      | true => right; simpa [h1] using hc

theorem skipBlocksWhile_spec (p : LeafM → Bool) (Q : Nat × Rat → Prop)
    (hpQ : ∀ m : LeafM, (hw : WF m) → m.atend = false → p m = true →
      ∀ post ∈ (m.blocks[m.b]'hw.2.1).posts, Q (entry m.sc post)) :
    ∀ (fuel : Nat) (m : LeafM), WF m → blocksLeft m < fuel →
      ∃ m' k, skipBlocksWhile p fuel m = .ok (m', k) ∧ Adv Q m m' ∧ (m'.isActive = false ∨ p m' = false) ∧
        (k = 0 → m' = m) ∧ (0 < k → m'.den ≠ m.den ∨ m.den = []) :=
  fun fuel m hw hf => skipBlocksWhile_spec' p Q (fun _ => True) (fun _ _ _ _ => trivial)
    (fun m hw ha hp _ => hpQ m hw ha hp) fuel m hw trivial hf

/-- the posting-by-posting loop of `skip_to` -/
theorem stepWhileBelow_spec (t : Nat) :
    ∀ (fuel : Nat) (m : LeafM), WF m → m.rem < fuel →
      ∃ m', stepWhileBelow t fuel m = .ok m' ∧ Adv (fun p => p.1 < t) m m' ∧
        ∀ x r L, m'.den = (x, r) :: L → t ≤ x := by
  intro fuel
  induction fuel with
  | zero => intro m _ h; omega
  | succ n ih =>
    intro m hw hfuel
    unfold stepWhileBelow
    by_cases hd0 : m.den = []
    · have hina : m.isActive = false := by
        cases ha : m.atend with
        | true => simp [isActive, ha]
        | false =>
          obtain ⟨pp, -, hden⟩ := den_active hw ha
          rw [hden] at hd0; cases hd0
      refine ⟨m, by simp [hina], Adv.refl _ hw, ?_⟩
      intro x r L h; rw [hd0] at h; cases h
    · obtain ⟨x, r, L, hd⟩ := exists_cons_of_ne_nil hd0
      have hact : m.atend = false := by
        cases ha : m.atend with
        | false => rfl
        | true => rw [den_eq, ha] at hd; cases hd
      obtain ⟨pp, hpp, hden⟩ := den_active hw hact
      have hi' : m.i < (m.blocks[m.b]'hw.2.1).posts.length := by
        rcases hw.2.2 with hi | hi
        · rw [hact] at hi; cases hi
        · rwa [blen_eq hw.2.1] at hi
      have hisact : m.isActive = true := by
        simp [isActive, hact, blen_eq hw.2.1, hi']
      have hid : m.id = .ok x := by
        rw [hden] at hd
        obtain ⟨h4, -⟩ := List.cons.inj hd
        have : pp.id = x := congrArg Prod.fst h4
        simp [id, cur, curBlock_eq hw.2.1, hpp, this]
      simp only [hisact, ↓reduceIte, hid]
      by_cases hlt : x < t
      · simp only [hlt, ↓reduceIte]
        obtain ⟨m1, h1, h2, h3, h4⟩ := next_spec hw hd
        have hstep : Adv (fun p => p.1 < t) m m1 :=
          ⟨h2, h3, [(x, r)], by rw [hd, h4]; rfl, by simp [hlt]⟩
        have hrem : m1.rem < n := by
          have hne : m1.den ≠ m.den := by
            rw [h4, hd]; intro h
            have := congrArg List.length h
            simp at this
          have := hstep.rem_lt hne
          omega
        obtain ⟨m', g1, g2, g3⟩ := ih m1 h2 hrem
        exact ⟨m', by simp [h1, g1], hstep.trans g2, g3⟩
      · simp only [hlt, ↓reduceIte]
        refine ⟨m, rfl, Adv.refl _ hw, ?_⟩
        intro x' r' L' h; rw [hd] at h; cases h; omega

theorem isActive_iff {m : LeafM} (hw : WF m) : m.isActive = true ↔ m.den ≠ [] := by
  cases ha : m.atend with
  | true => simp [isActive, ha, den_eq]
  | false =>
    obtain ⟨pp, -, hden⟩ := den_active hw ha
    have hi' : m.i < (m.blocks[m.b]'hw.2.1).posts.length := by
      rcases hw.2.2 with hi | hi
      · rw [ha] at hi; cases hi
      · rwa [blen_eq hw.2.1] at hi
    simp [isActive, ha, blen_eq hw.2.1, hi', hden]

theorem id_score_spec {m : LeafM} (hw : WF m) {x : Nat} {r : Rat} {L : Den} (hd : m.den = (x, r) :: L) :
    m.id = .ok x ∧ m.score = .ok r := by
  have hact : m.atend = false := by
    cases ha : m.atend with
    | false => rfl
    | true => rw [den_eq, ha] at hd; cases hd
  obtain ⟨pp, hpp, hden⟩ := den_active hw hact
  rw [hden] at hd
  obtain ⟨h4, -⟩ := List.cons.inj hd
  have h1 : pp.id = x := congrArg Prod.fst h4
  have h2 : m.sc pp.weight pp.length = r := congrArg Prod.snd h4
  constructor
  · simp [id, cur, curBlock_eq hw.2.1, hpp, h1]
  · simp [score, cur, curBlock_eq hw.2.1, hpp, h2]

/-- `skip_to(t)` on an active well-formed leaf -/
theorem skipTo_spec {m : LeafM} (hw : WF m) (hne : m.den ≠ []) (t : Nat) :
    ∃ m', m.skipTo t = .ok m' ∧ WF m' ∧ Same m m' ∧ m'.den = dropBelow t m.den := by
  obtain ⟨x, r, L, hd⟩ := exists_cons_of_ne_nil hne
  have hisact := (isActive_iff hw).2 hne
  have hid := (id_score_spec hw hd).1
  unfold skipTo
  simp only [hisact, Bool.not_true, Bool.false_eq_true, ↓reduceIte, hid]
  by_cases htx : t ≤ x
  · simp only [htx, ↓reduceIte]
    exact ⟨m, rfl, hw, Same.refl m, by rw [hd]; exact (dropBelow_of_le_head htx).symm⟩
  · simp only [htx, ↓reduceIte]
    -- phase 1: whole blocks
    have phase1 : ∃ m1, m.skipBlocksTo t = Except.ok m1 ∧ Adv (fun p => p.1 < t) m m1 := by
      unfold skipBlocksTo
      by_cases hgt : t > m.blockMaxId
      · simp only [hgt, ↓reduceIte]
        have hpQ : ∀ m : LeafM, (hw : WF m) → m.atend = false → (decide (t > m.blockMaxId)) = true →
            ∀ post ∈ (m.blocks[m.b]'hw.2.1).posts, (entry m.sc post).1 < t := by
          intro m hw _ hp post hpost
          have h1 := hw.1.maxId (m.blocks[m.b]'hw.2.1) (List.getElem_mem _) post hpost
          have h2 : m.blockMaxId = (m.blocks[m.b]'hw.2.1).maxId := by simp [blockMaxId, curBlock_eq hw.2.1]
          simp only [decide_eq_true_eq] at hp
          show post.id < t
          omega
        obtain ⟨m1, k, g1, g2, -, -, -⟩ := skipBlocksWhile_spec (fun m => decide (t > m.blockMaxId))
          (fun p => p.1 < t) hpQ (m.blocks.length + 1) m hw (by unfold blocksLeft; split <;> omega)
        exact ⟨m1, by rw [g1], g2⟩
      · simp only [hgt, ↓reduceIte]
        exact ⟨m, rfl, Adv.refl _ hw⟩
    obtain ⟨m1, e1, a1⟩ := phase1
    rw [e1]
    simp only
    obtain ⟨m', e2, a2, hend⟩ := stepWhileBelow_spec t (m1.rem + 1) m1 a1.wf (by omega)
    exact ⟨m', e2, a2.wf, a1.same.trans a2.same, (a1.trans a2).den_eq_dropBelow hend⟩

theorem faithful : Faithful LeafM.ops LeafM.den LeafM.full LeafM.WF where
  asc m h := asc_den h.1
  active m h := isActive_iff h
  id m x r L h hd := (id_score_spec h hd).1
  score m x r L h hd := (id_score_spec h hd).2
  next m x r L h hd := by
    obtain ⟨m', h1, h2, h3, h4⟩ := next_spec h hd
    refine ⟨m', h1, h2, h4, ?_, full_of_same h3⟩
    show m'.rem < m.rem
    rw [rem_eq_length, rem_eq_length, h4, hd]; simp
  skipTo m t h hne := by
    obtain ⟨m', h1, h2, h3, h4⟩ := skipTo_spec h hne t
    refine ⟨m', h1, h2, h4, ?_, ?_, full_of_same h3⟩
    · show m'.rem ≤ m.rem
      rw [rem_eq_length, rem_eq_length, h4]; exact dropBelow_length_le _ _
    · intro hne2
      show m'.rem < m.rem
      rw [rem_eq_length, rem_eq_length, h4]
      rw [h4] at hne2
      have hle := dropBelow_length_le t m.den
      have hsub : (dropBelow t m.den).Sublist m.den := List.dropWhile_sublist _
      by_cases heq : (dropBelow t m.den).length = m.den.length
      · exact absurd (hsub.eq_of_length heq) hne2
      · omega
  reset m h := by
    obtain ⟨d, hb, -⟩ := h
    have h0 : 0 < m.blocks.length := by omega
    have hne := d.nonempty (m.blocks[0]) (List.getElem_mem h0)
    have hpos : 0 < (m.blocks[0]).posts.length := List.length_pos_iff.2 hne
    refine ⟨{ m with b := 0, i := 0, atend := false }, rfl, ⟨d, h0, Or.inr ?_⟩, ?_, rfl⟩
    · show 0 < blen _
      simp only [blen, curBlock, List.getElem?_eq_getElem h0]; exact hpos
    · simp [den_eq, restPosts, full]

end LeafM
end WM.Matcher
