import WM.Lemmas.NumericBits
/-! `split_ranges`: one iteration in arithmetic form, then exactness and shape by induction. -/
namespace WM.Numeric

/-- The terminal range in arithmetic form. -/
theorem setbits_mul (B shift : Nat) :
    B * 2 ^ shift ||| ((1 <<< shift) - 1) = B * 2 ^ shift + (2 ^ shift - 1) := by
  rw [Nat.one_shiftLeft, or_low, Nat.mul_div_cancel _ (Nat.two_pow_pos shift)]

theorem mul_and_mask (A step shift : Nat) :
    A * 2 ^ shift &&& ((2 ^ step - 1) * 2 ^ shift) = A % 2 ^ step * 2 ^ shift := by
  rw [and_mask, Nat.mul_div_cancel _ (Nat.two_pow_pos shift)]

theorem mul_and_notMask (n step shift X : Nat) (hX : X * 2 ^ shift < 2 ^ (n + 1)) :
    X * 2 ^ shift &&& notMask n ((2 ^ step - 1) * 2 ^ shift)
      = X / 2 ^ step * 2 ^ (shift + step) := by
  rw [and_notMask n step shift _ hX, Nat.mul_mod_left, Nat.add_zero, Nat.pow_add,
    Nat.mul_comm (2 ^ shift) (2 ^ step), Nat.mul_div_mul_right _ _ (Nat.two_pow_pos shift)]

theorem mul_or_mask (A step shift : Nat) :
    A * 2 ^ shift ||| (2 ^ step - 1) * 2 ^ shift
      = (A / 2 ^ step * 2 ^ step + (2 ^ step - 1)) * 2 ^ shift := by
  rw [← Nat.shiftLeft_eq, ← Nat.shiftLeft_eq, ← Nat.shiftLeft_eq, ← Nat.shiftLeft_or_distrib, or_low]

/-- Next-level lower block index. -/
def nextA (A K : Nat) : Nat := A / K + (if A % K ≠ 0 then 1 else 0)
/-- Next-level upper block index (meaningless when the level would fall off the bottom). -/
def nextB (B K : Nat) : Nat := B / K - (if B % K ≠ K - 1 then 1 else 0)

/-- One iteration of the `split_ranges` loop with `start = A * 2^shift`, `end = B * 2^shift`,
    entirely in terms of the block indices `A`, `B`. -/
theorem splitLoop_step (n step : Nat) (hstep : 0 < step) (shift A B : Nat)
    (hAB : A ≤ B) (hB : B * 2 ^ shift < 2 ^ n) :
    splitLoop n step hstep (A * 2 ^ shift) (B * 2 ^ shift) shift =
      if shift + step ≥ n ∨ (B % 2 ^ step ≠ 2 ^ step - 1 ∧ B < 2 ^ step) ∨
          nextA A (2 ^ step) > nextB B (2 ^ step) then
        [⟨A * 2 ^ shift, B * 2 ^ shift + (2 ^ shift - 1), shift⟩]
      else
        (if A % 2 ^ step ≠ 0 then
          [⟨A * 2 ^ shift, (A / 2 ^ step * 2 ^ step + (2 ^ step - 1)) * 2 ^ shift + (2 ^ shift - 1), shift⟩]
         else []) ++
        (if B % 2 ^ step ≠ 2 ^ step - 1 then
          [⟨B / 2 ^ step * 2 ^ (shift + step), B * 2 ^ shift + (2 ^ shift - 1), shift⟩]
         else []) ++
        splitLoop n step hstep (nextA A (2 ^ step) * 2 ^ (shift + step))
          (nextB B (2 ^ step) * 2 ^ (shift + step)) (shift + step) := by
  rw [splitLoop]
  simp only [mask_eq, setbits_mul, mul_and_mask]
  by_cases hterm : shift + step ≥ n
  · simp only [hterm, true_or, if_true]
  · have hlt : shift + step < n := by omega
    have hP : 0 < 2 ^ shift := Nat.two_pow_pos _
    have hK : 0 < 2 ^ step := Nat.two_pow_pos _
    have hP' : 2 ^ (shift + step) = 2 ^ step * 2 ^ shift := by rw [Nat.pow_add, Nat.mul_comm]
    have hP'n : 2 ^ (shift + step) < 2 ^ n := Nat.pow_lt_pow_right (by omega) hlt
    have hn1 : 2 ^ (n + 1) = 2 * 2 ^ n := by rw [Nat.pow_succ, Nat.mul_comm]
    have e1 : (A % 2 ^ step * 2 ^ shift != 0) = decide (A % 2 ^ step ≠ 0) := by
      by_cases h : A % 2 ^ step = 0
      · simp [h]
      · have : A % 2 ^ step * 2 ^ shift ≠ 0 := Nat.mul_ne_zero h (by omega)
        simp [h, this]
    have e2 : (B % 2 ^ step * 2 ^ shift != (2 ^ step - 1) * 2 ^ shift)
        = decide (B % 2 ^ step ≠ 2 ^ step - 1) := by
      by_cases h : B % 2 ^ step = 2 ^ step - 1
      · simp [h]
      · have : B % 2 ^ step * 2 ^ shift ≠ (2 ^ step - 1) * 2 ^ shift :=
          fun hh => h (Nat.eq_of_mul_eq_mul_right hP hh)
        simp [h, this]
    have hAP : A * 2 ^ shift ≤ B * 2 ^ shift := Nat.mul_le_mul_right _ hAB
    -- the next lower bound
    have ens : (if A % 2 ^ step ≠ 0 then A * 2 ^ shift + 1 <<< (shift + step) else A * 2 ^ shift)
        &&& notMask n ((2 ^ step - 1) * 2 ^ shift) = nextA A (2 ^ step) * 2 ^ (shift + step) := by
      unfold nextA
      split
      · have : A * 2 ^ shift + 1 <<< (shift + step) = (A + 2 ^ step) * 2 ^ shift := by
          rw [Nat.one_shiftLeft, hP', Nat.add_mul]
        rw [this, mul_and_notMask _ _ _ _ (by rw [← this, Nat.one_shiftLeft]; omega),
          Nat.add_div_right _ hK]
      · rw [mul_and_notMask _ _ _ _ (by omega)]; simp
    -- the lower bound of the upper edge range
    have elo : B * 2 ^ shift &&& notMask n ((2 ^ step - 1) * 2 ^ shift)
        = B / 2 ^ step * 2 ^ (shift + step) := mul_and_notMask _ _ _ _ (by omega)
    have ehi : A * 2 ^ shift ||| (2 ^ step - 1) * 2 ^ shift ||| 1 <<< shift - 1
        = (A / 2 ^ step * 2 ^ step + (2 ^ step - 1)) * 2 ^ shift + (2 ^ shift - 1) := by
      rw [mul_or_mask, setbits_mul]
    rw [e1, e2]
    simp only [decide_eq_true_eq, ens, elo, ehi]
    generalize hE : pyAnd (if B % 2 ^ step ≠ 2 ^ step - 1 then
        ((B * 2 ^ shift : Nat) : Int) - ((1 <<< (shift + step) : Nat) : Int)
      else ((B * 2 ^ shift : Nat) : Int)) (notMask n ((2 ^ step - 1) * 2 ^ shift)) = E
    have hsl : 1 <<< (shift + step) = 2 ^ step * 2 ^ shift := by rw [Nat.one_shiftLeft, hP']
    by_cases hj : B % 2 ^ step ≠ 2 ^ step - 1 ∧ B < 2 ^ step
    · -- the next level would fall off the bottom of the domain: the masked value wraps
      have hlt' : B * 2 ^ shift < 1 <<< (shift + step) := by
        rw [hsl]; exact Nat.mul_lt_mul_of_pos_right hj.2 hP
      have hEbig : E > B * 2 ^ shift := by
        rw [← hE, if_pos hj.1, natCast_sub_lt _ _ hlt']
        have := pyAnd_neg_big n step shift (1 <<< (shift + step) - B * 2 ^ shift - 1) (by omega)
          (by rw [Nat.one_shiftLeft]; omega)
        omega
      rw [if_pos (Or.inr (Or.inr (Or.inr hEbig))), if_pos (Or.inr (Or.inl hj))]
    · have hEeq : E = nextB B (2 ^ step) * 2 ^ (shift + step) := by
        rw [← hE]; unfold nextB
        split
        · next hu =>
          have hle : 2 ^ step ≤ B := by
            apply Decidable.by_contra; intro h; exact hj ⟨hu, by omega⟩
          have : ((B * 2 ^ shift : Nat) : Int) - ((1 <<< (shift + step) : Nat) : Int)
              = (((B - 2 ^ step) * 2 ^ shift : Nat) : Int) := by
            rw [hsl, Nat.sub_mul]
            have := Nat.mul_le_mul_right (2 ^ shift) hle
            omega
          rw [this, pyAnd_natCast, mul_and_notMask _ _ _ _ (by
            have := Nat.mul_le_mul_right (2 ^ shift) (Nat.sub_le B (2 ^ step)); omega)]
          rw [Nat.div_eq_sub_div hK hle]; simp
        · rw [pyAnd_natCast, elo]; simp
      rw [hEeq]
      have hPp : 0 < 2 ^ (shift + step) := Nat.two_pow_pos _
      have hA1 : A * 2 ^ shift ≤ nextA A (2 ^ step) * 2 ^ (shift + step) := by
        rw [hP', ← Nat.mul_assoc]
        apply Nat.mul_le_mul_right
        unfold nextA
        have := Nat.div_add_mod A (2 ^ step)
        have := Nat.mod_lt A hK
        split
        · rw [Nat.add_mul, Nat.mul_comm]; omega
        · rw [Nat.add_zero, Nat.mul_comm]; omega
      have hB1 : nextB B (2 ^ step) * 2 ^ (shift + step) ≤ B * 2 ^ shift := by
        rw [hP', ← Nat.mul_assoc]
        apply Nat.mul_le_mul_right
        unfold nextB
        have := Nat.div_add_mod B (2 ^ step)
        have h2 : (B / 2 ^ step - (if B % 2 ^ step ≠ 2 ^ step - 1 then 1 else 0)) * 2 ^ step
            ≤ B / 2 ^ step * 2 ^ step := Nat.mul_le_mul_right _ (Nat.sub_le _ _)
        rw [Nat.mul_comm (B / 2 ^ step)] at h2
        omega
      have hc : (shift + step ≥ n ∨
          nextA A (2 ^ step) * 2 ^ (shift + step) > nextB B (2 ^ step) * 2 ^ (shift + step) ∨
          nextA A (2 ^ step) * 2 ^ (shift + step) < A * 2 ^ shift ∨
          nextB B (2 ^ step) * 2 ^ (shift + step) > B * 2 ^ shift) ↔
          (shift + step ≥ n ∨ (B % 2 ^ step ≠ 2 ^ step - 1 ∧ B < 2 ^ step) ∨
            nextA A (2 ^ step) > nextB B (2 ^ step)) := by
        have : nextA A (2 ^ step) * 2 ^ (shift + step) > nextB B (2 ^ step) * 2 ^ (shift + step)
            ↔ nextA A (2 ^ step) > nextB B (2 ^ step) := Nat.mul_lt_mul_right hPp
        constructor
        · rintro (h | h | h | h)
          · exact Or.inl h
          · exact Or.inr (Or.inr (this.1 h))
          · omega
          · omega
        · rintro (h | h | h)
          · exact Or.inl h
          · exact absurd h hj
          · exact Or.inr (Or.inl (this.2 h))
      simp only [hc]

theorem R_test_iff (lo hi shift v : Nat) :
    (R.mk lo hi shift).test v = true ↔
      lo / 2 ^ shift ≤ v / 2 ^ shift ∧ v / 2 ^ shift ≤ hi / 2 ^ shift := by
  simp [R.test, Nat.shiftRight_eq_div_pow]

theorem div_block (X P : Nat) (hP : 0 < P) : (X * P + (P - 1)) / P = X := by
  apply Nat.div_eq_of_lt_le
  · omega
  · rw [Nat.succ_mul]; omega

theorem exists_mem_ite_singleton {α} (c : Prop) [Decidable c] (x : α) (p : α → Prop) :
    (∃ r ∈ (if c then [x] else []), p r) ↔ (c ∧ p x) := by
  by_cases h : c <;> simp [h]

/-- One level of the trie decomposition, on block indices. -/
theorem level_split (A B w K : Nat) (hK : 0 < K) (A' B' : Nat)
    (hA' : A' = A / K + (if A % K ≠ 0 then 1 else 0))
    (hB' : B' + (if B % K ≠ K - 1 then 1 else 0) = B / K)
    (hAB' : A' ≤ B') :
    (A ≤ w ∧ w ≤ B) ↔
      ((A % K ≠ 0 ∧ A ≤ w ∧ w ≤ A / K * K + (K - 1)) ∨
       (B % K ≠ K - 1 ∧ B / K * K ≤ w ∧ w ≤ B) ∨
       (A' ≤ w / K ∧ w / K ≤ B')) := by
  have eA := Nat.div_add_mod A K
  have eB := Nat.div_add_mod B K
  have ew := Nat.div_add_mod w K
  have rA := Nat.mod_lt A hK
  have rB := Nat.mod_lt B hK
  have rw' := Nat.mod_lt w hK
  rw [Nat.mul_comm] at eA eB ew
  generalize A / K = a at *
  generalize B / K = b at *
  generalize w / K = c at *
  generalize A % K = ra at *
  generalize B % K = rb at *
  generalize w % K = rc at *
  have ⟨f1, f2, f3⟩ := mul_facts a c K
  have ⟨g1, g2, g3⟩ := mul_facts b c K
  have ⟨k1, k2, k3⟩ := mul_facts a b K
  split at hA' <;> split at hB' <;> omega

/-- **Exactness of the loop**, on block indices: the emitted ranges accept exactly the values whose
    block index at the current level lies in `[A, B]`. -/
theorem splitLoop_exact (n step : Nat) (hstep : 0 < step) (v : Nat) :
    ∀ (d shift A B : Nat), n - shift = d → A ≤ B → B * 2 ^ shift < 2 ^ n →
      ((∃ r ∈ splitLoop n step hstep (A * 2 ^ shift) (B * 2 ^ shift) shift, r.test v = true) ↔
        (A ≤ v / 2 ^ shift ∧ v / 2 ^ shift ≤ B)) := by
  intro d
  induction d using Nat.strongRecOn with
  | _ d ih =>
    intro shift A B hd hAB hB
    have hP : 0 < 2 ^ shift := Nat.two_pow_pos _
    have hK : 0 < 2 ^ step := Nat.two_pow_pos _
    rw [splitLoop_step n step hstep shift A B hAB hB]
    split
    · simp only [List.mem_singleton, exists_eq_left, R_test_iff, Nat.mul_div_cancel _ hP,
        div_block _ _ hP]
    · next hc =>
      have hc1 : shift + step < n := by omega
      have hc2 : ¬ (B % 2 ^ step ≠ 2 ^ step - 1 ∧ B < 2 ^ step) := fun h => hc (Or.inr (Or.inl h))
      have hc3 : nextA A (2 ^ step) ≤ nextB B (2 ^ step) := by
        apply Nat.le_of_not_gt; intro h; exact hc (Or.inr (Or.inr h))
      have hP' : 2 ^ (shift + step) = 2 ^ step * 2 ^ shift := by rw [Nat.pow_add, Nat.mul_comm]
      have hB' : nextB B (2 ^ step) + (if B % 2 ^ step ≠ 2 ^ step - 1 then 1 else 0)
          = B / 2 ^ step := by
        unfold nextB
        split
        · next hu =>
          have hle : 2 ^ step ≤ B := by
            apply Decidable.by_contra; intro h; exact hc2 ⟨hu, by omega⟩
          exact Nat.sub_add_cancel (Nat.div_pos hle hK)
        · simp
      have hbound : nextB B (2 ^ step) * 2 ^ (shift + step) < 2 ^ n := by
        apply Nat.lt_of_le_of_lt _ hB
        rw [hP', ← Nat.mul_assoc]
        apply Nat.mul_le_mul_right
        have := Nat.div_mul_le_self B (2 ^ step)
        have h2 : nextB B (2 ^ step) * 2 ^ step ≤ B / 2 ^ step * 2 ^ step :=
          Nat.mul_le_mul_right _ (by omega)
        omega
      have IH := ih (n - (shift + step)) (by omega) (shift + step) _ _ rfl hc3 hbound
      simp only [List.mem_append, or_and_right, exists_or, exists_mem_ite_singleton, IH, R_test_iff,
        Nat.mul_div_cancel _ hP, div_block _ _ hP]
      have e1 : B / 2 ^ step * 2 ^ (shift + step) / 2 ^ shift = B / 2 ^ step * 2 ^ step := by
        rw [hP', ← Nat.mul_assoc, Nat.mul_div_cancel _ hP]
      have e2 : v / 2 ^ (shift + step) = v / 2 ^ shift / 2 ^ step := by
        rw [Nat.pow_add, Nat.div_div_eq_div_mul]
      rw [e1, e2]
      rw [level_split A B (v / 2 ^ shift) (2 ^ step) hK (nextA A (2 ^ step)) (nextB B (2 ^ step))
        rfl hB' hc3, or_assoc]

theorem block_hi_lt (B shift n : Nat) (hs : shift ≤ n) (hB : B * 2 ^ shift < 2 ^ n) :
    B * 2 ^ shift + (2 ^ shift - 1) < 2 ^ n := by
  have hP : 0 < 2 ^ shift := Nat.two_pow_pos _
  have e : 2 ^ n = 2 ^ (n - shift) * 2 ^ shift := by rw [← Nat.pow_add]; congr 1; omega
  rw [e] at hB ⊢
  have h1 : B < 2 ^ (n - shift) := Nat.lt_of_mul_lt_mul_right hB
  have h2 := Nat.mul_le_mul_right (2 ^ shift) (Nat.succ_le_of_lt h1)
  rw [Nat.succ_mul] at h2
  omega

/-- **Shape of the emitted ranges**: every shift is one of the indexed precision levels
    (`shift < n`, a multiple of `step` above the starting shift), bounds are ordered and stay inside
    the `n`-bit domain (so `struct.pack` cannot fail on them). -/
theorem splitLoop_shape (n step : Nat) (hstep : 0 < step) :
    ∀ (d shift A B : Nat), n - shift = d → shift < n → A ≤ B → B * 2 ^ shift < 2 ^ n →
      ∀ r ∈ splitLoop n step hstep (A * 2 ^ shift) (B * 2 ^ shift) shift,
        shift ≤ r.shift ∧ r.shift < n ∧ (r.shift - shift) % step = 0 ∧ r.lo ≤ r.hi ∧ r.hi < 2 ^ n := by
  intro d
  induction d using Nat.strongRecOn with
  | _ d ih =>
    intro shift A B hd hsn hAB hB
    have hP : 0 < 2 ^ shift := Nat.two_pow_pos _
    have hK : 0 < 2 ^ step := Nat.two_pow_pos _
    have hAP : A * 2 ^ shift ≤ B * 2 ^ shift := Nat.mul_le_mul_right _ hAB
    have hhi := block_hi_lt B shift n (by omega) hB
    rw [splitLoop_step n step hstep shift A B hAB hB]
    split
    · intro r hr
      simp only [List.mem_singleton] at hr
      subst hr
      dsimp only
      simp only [Nat.sub_self, Nat.zero_mod, true_and]
      omega
    · next hc =>
      have hc1 : shift + step < n := by omega
      have hc2 : ¬ (B % 2 ^ step ≠ 2 ^ step - 1 ∧ B < 2 ^ step) := fun h => hc (Or.inr (Or.inl h))
      have hc3 : nextA A (2 ^ step) ≤ nextB B (2 ^ step) := by
        apply Nat.le_of_not_gt; intro h; exact hc (Or.inr (Or.inr h))
      have hP' : 2 ^ (shift + step) = 2 ^ step * 2 ^ shift := by rw [Nat.pow_add, Nat.mul_comm]
      have hnB : nextB B (2 ^ step) * 2 ^ step ≤ B := by
        have := Nat.div_mul_le_self B (2 ^ step)
        have h2 : nextB B (2 ^ step) * 2 ^ step ≤ B / 2 ^ step * 2 ^ step :=
          Nat.mul_le_mul_right _ (Nat.sub_le _ _)
        omega
      have hbound : nextB B (2 ^ step) * 2 ^ (shift + step) < 2 ^ n := by
        apply Nat.lt_of_le_of_lt _ hB
        rw [hP', ← Nat.mul_assoc]
        exact Nat.mul_le_mul_right _ hnB
      have IH := ih (n - (shift + step)) (by omega) (shift + step) _ _ rfl hc1 hc3 hbound
      intro r hr
      simp only [List.mem_append] at hr
      rcases hr with (hr | hr) | hr
      · split at hr
        · next hl =>
          simp only [List.mem_singleton] at hr
          subst hr
          dsimp only
          simp only [Nat.sub_self, Nat.zero_mod, true_and]
          -- the lower edge range ends where the next level starts
          have h1 : (A / 2 ^ step + 1) * 2 ^ step ≤ nextB B (2 ^ step) * 2 ^ step := by
            apply Nat.mul_le_mul_right
            have : nextA A (2 ^ step) = A / 2 ^ step + 1 := by unfold nextA; simp [hl]
            omega
          rw [Nat.add_mul] at h1
          have h2 : A / 2 ^ step * 2 ^ step + (2 ^ step - 1) ≤ B := by omega
          have h3 := Nat.mul_le_mul_right (2 ^ shift) h2
          have h4 : A ≤ A / 2 ^ step * 2 ^ step + (2 ^ step - 1) := by
            have e := Nat.div_add_mod A (2 ^ step)
            have := Nat.mod_lt A hK
            rw [Nat.mul_comm] at e
            omega
          have h5 := Nat.mul_le_mul_right (2 ^ shift) h4
          omega
        · simp at hr
      · split at hr
        · simp only [List.mem_singleton] at hr
          subst hr
          dsimp only
          simp only [Nat.sub_self, Nat.zero_mod, true_and]
          have h1 : B / 2 ^ step * 2 ^ (shift + step) ≤ B * 2 ^ shift := by
            rw [hP', ← Nat.mul_assoc]
            exact Nat.mul_le_mul_right _ (Nat.div_mul_le_self B (2 ^ step))
          omega
        · simp at hr
      · have := IH r hr
        refine ⟨by omega, this.2.1, ?_, this.2.2.2⟩
        have e : r.shift - shift = (r.shift - (shift + step)) + step := by omega
        rw [e, Nat.add_mod_right]
        exact this.2.2.1

end WM.Numeric
