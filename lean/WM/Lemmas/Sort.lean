import WM.Model.Sort
/-! Helper lemmas for the external merge sort (C20). -/
set_option linter.unusedSimpArgs false
namespace WM.C20
open WM.Sort

section
variable {α : Type} (le : α → α → Bool)
  (htrans : ∀ a b c, le a b = true → le b c = true → le a c = true)
  (htotal : ∀ a b, (le a b || le b a) = true)

def SortedBy (l : List α) : Prop := l.Pairwise (fun a b => le a b = true)

include htrans htotal in
theorem mergeRuns_spec (runs : List (List α)) (hs : ∀ r ∈ runs, SortedBy le r) :
    SortedBy le (mergeRuns le runs) ∧ (mergeRuns le runs).Perm runs.flatten := by
  induction runs with
  | nil => exact ⟨List.Pairwise.nil, List.Perm.refl _⟩
  | cons r t ih =>
    rcases ih (fun x hx => hs x (List.mem_cons_of_mem _ hx)) with ⟨h1, h2⟩
    simp only [mergeRuns, List.foldr_cons, List.flatten_cons] at h1 h2 ⊢
    constructor
    · exact List.pairwise_merge htrans htotal _ _ (hs r (by simp)) h1
    · exact (List.merge_perm_append le).trans (List.Perm.append (List.Perm.refl _) h2)

include htrans htotal in
theorem reduceLoop_spec (target' k' : Nat) : ∀ (n : Nat) (runs : List (List α)), runs.length = n →
    (∀ r ∈ runs, SortedBy le r) →
    (∀ r ∈ reduceLoop le target' k' runs, SortedBy le r) ∧
      (reduceLoop le target' k' runs).flatten.Perm runs.flatten ∧
      (reduceLoop le target' k' runs).length ≤ max runs.length (target' + 1) ∧
      (runs.length > target' + 1 → (reduceLoop le target' k' runs).length ≤ target' + 1) := by
  intro n
  induction n using Nat.strongRecOn with
  | _ n ih =>
    intro runs hn hs
    rw [reduceLoop]
    by_cases h : runs.length > target' + 1
    · simp only [h, ↓reduceDIte]
      have hsplit : runs = runs.take (runs.length - (k' + 2)) ++ runs.drop (runs.length - (k' + 2)) :=
        (List.take_append_drop _ _).symm
      have htm : ∀ r ∈ runs.reverse.take (k' + 2), SortedBy le r := by
        intro r hr
        exact hs r (List.mem_reverse.mp (List.mem_of_mem_take hr))
      have hrest : ∀ r ∈ runs.take (runs.length - (k' + 2)), SortedBy le r :=
        fun r hr => hs r (List.mem_of_mem_take hr)
      rcases mergeRuns_spec le htrans htotal _ htm with ⟨hm1, hm2⟩
      have hnew : ∀ r ∈ mergeRuns le (runs.reverse.take (k' + 2)) :: runs.take (runs.length - (k' + 2)),
          SortedBy le r := by
        intro r hr
        simp only [List.mem_cons] at hr
        rcases hr with rfl | hr
        · exact hm1
        · exact hrest r hr
      have hlen : (mergeRuns le (runs.reverse.take (k' + 2)) :: runs.take (runs.length - (k' + 2))).length
          < n := by
        simp only [List.length_cons, List.length_take]; omega
      rcases ih _ hlen _ rfl hnew with ⟨r1, r2, r3, r4⟩
      refine ⟨r1, ?_, ?_, ?_⟩
      · refine r2.trans ?_
        simp only [List.flatten_cons]
        have hflat : runs.flatten = (runs.take (runs.length - (k' + 2))).flatten
            ++ (runs.drop (runs.length - (k' + 2))).flatten := by
          conv => lhs; rw [hsplit]
          rw [List.flatten_append]
        rw [hflat]
        refine (List.Perm.append hm2 (List.Perm.refl _)).trans ?_
        rw [List.take_reverse]
        exact (List.Perm.append (List.Perm.flatten (List.reverse_perm _)) (List.Perm.refl _)).trans
          List.perm_append_comm
      · simp only [List.length_cons, List.length_take] at r3 r4 ⊢
        omega
      · intro _
        simp only [List.length_cons, List.length_take] at r3 r4 ⊢
        by_cases h2 : min (runs.length - (k' + 2)) runs.length + 1 > target' + 1
        · exact r4 h2
        · omega
    · simp only [h, ↓reduceDIte]
      exact ⟨hs, List.Perm.refl _, by omega, fun h' => h'.elim⟩

/-- the pool invariant: every run is sorted, and runs plus queue hold what was added -/
def PoolInv (p : Pool α) (input : List α) : Prop :=
  (∀ r ∈ p.runs, SortedBy le r) ∧ (p.runs.flatten ++ p.current).Perm input

include htrans htotal in
theorem save_inv (p : Pool α) (input : List α) (h : PoolInv le p input) : PoolInv le (p.save le) input := by
  unfold Pool.save
  split
  · exact h
  · refine ⟨?_, ?_⟩
    · intro r hr
      simp only [List.mem_append, List.mem_singleton] at hr
      rcases hr with hr | rfl
      · exact h.1 r hr
      · exact List.pairwise_mergeSort htrans htotal _
    · simp only [List.flatten_append, List.flatten_cons, List.flatten_nil, List.append_nil]
      exact (List.Perm.append (List.Perm.refl _) (List.mergeSort_perm _ le)).trans h.2

include htrans htotal in
theorem add_inv (p : Pool α) (input : List α) (x : α) (h : PoolInv le p input) :
    PoolInv le (p.add le x) (input ++ [x]) := by
  unfold Pool.add
  simp only
  have h' : PoolInv le (if p.current.length ≥ p.maxsize then p.save le else p) input := by
    split
    · exact save_inv le htrans htotal p input h
    · exact h
  refine ⟨h'.1, ?_⟩
  simp only
  rw [← List.append_assoc]
  exact List.Perm.append h'.2 (List.Perm.refl _)

include htrans htotal in
theorem foldl_add_inv (xs : List α) : ∀ (p : Pool α) (input : List α), PoolInv le p input →
    PoolInv le (xs.foldl (Pool.add le) p) (input ++ xs) := by
  induction xs with
  | nil => intro p input h; simpa using h
  | cons x t ih =>
    intro p input h
    have := ih (p.add le x) (input ++ [x]) (add_inv le htrans htotal p input x h)
    simpa using this

include htrans htotal in
/-- `SortingPool.items(maxfiles)` on a pool holding `input`. -/
theorem items_spec (p : Pool α) (input : List α) (h : PoolInv le p input) (maxfiles : Nat) (hm : 2 ≤ maxfiles) :
    ∃ out, p.items le maxfiles = .ok out ∧ SortedBy le out ∧ out.Perm input := by
  unfold Pool.items
  have h1 : ¬ maxfiles < 2 := by omega
  rw [if_neg h1]
  by_cases hr : p.runs.isEmpty = true
  · rw [if_pos hr]
    refine ⟨_, rfl, List.pairwise_mergeSort htrans htotal _, ?_⟩
    have : p.runs = [] := by simpa using hr
    have h2 := h.2
    rw [this] at h2
    simp only [List.flatten_nil, List.nil_append] at h2
    exact (List.mergeSort_perm _ le).trans h2
  · rw [if_neg hr]
    simp only
    have hs := save_inv le htrans htotal p input h
    have hcur : (p.save le).current = [] := by
      unfold Pool.save
      split
      · next hc => simpa using hc
      · rfl
    have hperm : (p.save le).runs.flatten.Perm input := by
      have := hs.2
      rw [hcur, List.append_nil] at this
      exact this
    by_cases hmf : maxfiles < (p.save le).runs.length
    · rw [if_pos hmf]
      unfold reduceTo
      have h3 : ¬ maxfiles < 1 := by omega
      rw [if_neg h1, if_neg h3]
      simp only [Except.map]
      rcases reduceLoop_spec le htrans htotal (maxfiles - 1) (maxfiles - 2) _ _ rfl hs.1 with ⟨r1, r2, _, _⟩
      rcases mergeRuns_spec le htrans htotal _ r1 with ⟨m1, m2⟩
      exact ⟨_, rfl, m1, m2.trans (r2.trans hperm)⟩
    · rw [if_neg hmf]
      rcases mergeRuns_spec le htrans htotal _ hs.1 with ⟨m1, m2⟩
      exact ⟨_, rfl, m1, m2.trans hperm⟩

end

end WM.C20
