import WM.Lemmas.SearchOps
/-!
Segment level: postings, the term dictionary, expansion of multi-term queries, `Every(field)`,
phrases, the balanced shape of `make_binary_tree`.
-/
namespace WM.Compile
open WM.Search

/-- pointwise specification of the postings of one term -/
def termSpec (ls : LeafScore) (s : Segment) (f : String) (t : Term) : PSpec := fun i =>
  if i ∈ s.live ∧ (s.doc i).hasTerm f t = true then some (ls (s.doc i) f t) else none

theorem postings_eq_canon (ls : LeafScore) (s : Segment) (f : String) (t : Term) :
    postings ls s f t = canon s.live (fun i => (s.doc i).hasTerm f t) (fun i => ls (s.doc i) f t) := rfl

theorem postings_agree (sc : Bool) (ls : LeafScore) (s : Segment) (f : String) (t : Term) :
    AgreeP sc (postings ls s f t) (termSpec ls s f t) := by
  rw [postings_eq_canon]
  refine ⟨canon_sorted (live_asc s) _ _, fun i => ?_⟩
  rw [lookup_canon (live_asc s)]
  exact R.refl _ _

theorem postingsL_agree (sc : Bool) (ls : LeafScore) (s : Segment) (f : String) :
    ∀ ts : List Term, AgreeL sc (ts.map (postings ls s f)) (ts.map (termSpec ls s f))
  | [] => trivial
  | t :: ts => ⟨postings_agree sc ls s f t, postingsL_agree sc ls s f ts⟩

/-! ### the term dictionary -/

theorem mem_lexicon {s : Segment} {f : String} {t : Term} :
    t ∈ lexicon s f ↔ ∃ d ∈ s.docs, t ∈ d.terms f := by
  unfold lexicon
  rw [mem_dedup, List.mem_flatMap]

theorem nodup_lexicon (s : Segment) (f : String) : (lexicon s f).Nodup := nodup_dedup _

/-! ### sums over terms -/

theorem perm_sum_map {α} (g : α → Rat) {l₁ l₂ : List α} (h : l₁.Perm l₂) :
    (l₁.map g).sum = (l₂.map g).sum := by
  induction h with
  | nil => rfl
  | cons x _ ih => simp only [List.map_cons, List.sum_cons, ih]
  | swap x y l =>
    simp only [List.map_cons, List.sum_cons]
    grind
  | trans _ _ ih1 ih2 => rw [ih1, ih2]

/-- the union over a list of terms at a live document: defined iff the document has one of the
    terms; the sum of the leaf scores of the terms it has -/
theorem foldr_terms (ls : LeafScore) (s : Segment) (f : String) (ts : List Term) (i : Nat)
    (hl : i ∈ s.live) :
    ((ts.map (termSpec ls s f)).map (fun sp => sp i)).foldr (optMerge (· + ·)) none =
      if (ts.filter (fun t => (s.doc i).hasTerm f t)) = [] then none
      else some (((ts.filter (fun t => (s.doc i).hasTerm f t)).map (ls (s.doc i) f)).sum) := by
  induction ts with
  | nil => rfl
  | cons t ts ih =>
    simp only [List.map_cons, List.foldr_cons, ih, List.filter_cons]
    by_cases ht : (s.doc i).hasTerm f t = true
    · simp only [termSpec, hl, ht, and_self, if_true]
      by_cases hr : ts.filter (fun t => (s.doc i).hasTerm f t) = []
      · simp [hr, optMerge, Rat.add_zero]
      · simp [hr, optMerge]
    · simp only [termSpec, ht]
      simp [optMerge]

theorem foldr_terms_not_live (ls : LeafScore) (s : Segment) (f : String) (ts : List Term) (i : Nat)
    (hl : i ∉ s.live) :
    ((ts.map (termSpec ls s f)).map (fun sp => sp i)).foldr (optMerge (· + ·)) none = none := by
  induction ts with
  | nil => rfl
  | cons t ts ih =>
    simp only [List.map_cons, List.foldr_cons, ih, termSpec, hl, false_and, if_false]
    rfl

/-- the terms of the dictionary that pass `p` and occur in a document of the segment are the
    (distinct) terms of the document that pass `p` -/
theorem expansion_perm {s : Segment} {f : String} (p : Term → Bool) {d : Doc}
    (hd : d ∈ s.docs) :
    (((lexicon s f).filter p).filter (fun t => d.hasTerm f t)).Perm
      ((dedup (d.terms f)).filter p) := by
  apply (List.perm_ext_iff_of_nodup _ _).mpr
  · intro t
    simp only [List.mem_filter, mem_dedup, mem_lexicon]
    constructor
    · rintro ⟨⟨_, hp⟩, ht⟩
      exact ⟨hasTerm_iff_mem.mp ht, hp⟩
    · rintro ⟨ht, hp⟩
      exact ⟨⟨⟨d, hd, ht⟩, hp⟩, hasTerm_iff_mem.mpr ht⟩
  · exact ((nodup_lexicon s f).filter _ |>.filter _)
  · exact (nodup_dedup _).filter _

/-! ### phrases -/

theorem positions_eq_nil_of_not_mem {d : Doc} {f : String} {t : Term} (h : t ∉ d.terms f) :
    d.positions f t = [] := by
  apply Classical.byContradiction
  intro hne
  exact h (positions_ne_nil_iff.mp hne)

/-! ### `make_binary_tree` builds a valid shape -/

theorem balanced_leaves : ∀ (fuel lo n : Nat), 1 ≤ n → n ≤ fuel →
    (balanced lo fuel n).leaves = List.range' lo n := by
  intro fuel
  induction fuel with
  | zero => intro lo n h1 h2; omega
  | succ fuel ih =>
    intro lo n h1 h2
    match n, h1 with
    | 1, _ => simp [balanced, Shape.leaves, List.range']
    | n + 2, _ =>
      simp only [balanced, Shape.leaves]
      have hh : 1 ≤ (n + 2) / 2 := by omega
      have hh2 : (n + 2) / 2 ≤ fuel := by omega
      have hr : 1 ≤ n + 2 - (n + 2) / 2 := by omega
      have hr2 : n + 2 - (n + 2) / 2 ≤ fuel := by omega
      rw [ih lo _ hh hh2, ih (lo + (n + 2) / 2) _ hr hr2]
      have : n + 2 = (n + 2) / 2 + (n + 2 - (n + 2) / 2) := by omega
      conv => rhs; rw [this]
      rw [List.range'_append_1]

theorem balancedShape_valid (n : Nat) (h : 1 ≤ n) : (balancedShape n).Valid n := by
  unfold balancedShape Shape.Valid
  rw [balanced_leaves n 0 n h (Nat.le_refl n), List.range_eq_range']

theorem balancedOracle_valid : ValidOracle balancedOracle := by
  intro qs h
  exact balancedShape_valid qs.length (by omega)

end WM.Compile
