import WM.Lemmas.Replace0
/-! The base-class `all_ids()` loop (step, and `replace()` every tenth step) yields exactly the remaining ids. -/
namespace WM.Matcher

theorem allIdsLoop_spec : ∀ (fuel : Nat) (m : Any) (i : Nat), WF m.1 m.2 → m.den.length < fuel →
    allIdsLoop fuel m i = .ok (m.den.map (·.1)) := by
  intro fuel
  induction fuel with
  | zero => intro m i _ h; omega
  | succ n ih =>
    intro m i hw hfuel
    obtain ⟨s, st⟩ := m
    unfold allIdsLoop
    by_cases hd : den s st = []
    · have hina : (ops s).isActive st = false := ((TF s).inactive hw).2 hd
      simp only [Any.isActive, hina, Bool.false_eq_true, ↓reduceIte]
      show pure [] = Except.ok ((den s st).map (·.1))
      rw [hd]; rfl
    · obtain ⟨x, r, L, hc⟩ := exists_cons_of_ne_nil hd
      have hact : (ops s).isActive st = true := ((TF s).active _ hw).2 hd
      obtain ⟨st', h1, h2, h3, -, -⟩ := (TF s).next st x r L hw hc
      have hlen : L.length < n := by
        have : (den s st).length = L.length + 1 := by rw [hc]; rfl
        simp only [Any.den] at hfuel; omega
      simp only [Any.isActive, hact, ↓reduceIte, (TF s).id st x r L hw hc, h1, bind, Except.bind]
      by_cases h10 : (i + 1 == 10) = true
      · simp only [h10, ↓reduceIte]
        obtain ⟨⟨c, rr⟩, e1, e2⟩ := replace0_spec s st' h2
        have hrep : Any.replace ⟨s, st'⟩ 0 = .ok rr := by simp [Any.replace, e1, bind, Except.bind]; rfl
        have hden : rr.den = L := by rw [e2.eq]; exact h3
        rw [hrep]
        simp only
        rw [ih rr 0 e2.wf (by rw [hden]; exact hlen), hden]
        show Except.ok (x :: L.map (·.1)) = Except.ok ((den s st).map (·.1))
        rw [hc]; rfl
      · simp only [h10, Bool.false_eq_true, ↓reduceIte]
        have hden : Any.den ⟨s, st'⟩ = L := h3
        rw [ih ⟨s, st'⟩ (i + 1) h2 (by rw [hden]; exact hlen), hden]
        show Except.ok (x :: L.map (·.1)) = Except.ok ((den s st).map (·.1))
        rw [hc]; rfl

theorem allIds_spec (m : Any) (h : WF m.1 m.2) : allIds m = .ok (m.den.map (·.1)) :=
  allIdsLoop_spec _ m 0 h (Nat.lt_succ_self _)

end WM.Matcher
