import WM.Lemmas.SearchLayout
import WM.Lemmas.SearchWF
import WM.Lemmas.ScoringMono
/-! The shipped rational weighting models give positive leaf scores; they only depend on the multiset
of documents. -/
namespace WM.Compile
open WM.Search

theorem avgFieldLength_pos (st : TermStats) : 0 < avgFieldLength st := by
  unfold avgFieldLength
  generalize hq : (st.fieldLength : Rat) / (if st.docCount = 0 then 1 else (st.docCount : Rat)) = a
  have hn : 0 ≤ a := by
    rw [← hq]
    apply WM.Matcher.div_nonneg' Rat.natCast_nonneg
    split
    · decide
    · exact Rat.natCast_nonneg
  simp only
  by_cases h0 : a = 0
  · rw [if_pos h0]; decide
  · rw [if_neg h0]; exact Rat.lt_of_le_of_ne hn (Ne.symm h0)

theorem bm25_pos {idf avgfl B K1 tf : Rat} (fl : Nat) (hidf : 0 < idf) (havg : 0 < avgfl) (hB0 : 0 ≤ B)
    (hB1 : B ≤ 1) (hK : 0 ≤ K1) (htf : 0 < tf) : 0 < WM.Matcher.bm25 idf avgfl B K1 tf fl := by
  unfold WM.Matcher.bm25
  apply Rat.mul_pos hidf
  have hc := WM.Matcher.bmC_nonneg havg hB0 hB1 hK fl
  unfold WM.Matcher.bmC at hc
  have hden : 0 < tf + K1 * (1 - B + B * (fl : Rat) / avgfl) := by grind
  have hnum : 0 < tf * (K1 + 1) := Rat.mul_pos htf (by grind)
  rw [Rat.div_def]
  exact Rat.mul_pos hnum (Rat.inv_pos.2 hden)

/-- hypotheses on a BM25F parameter set: what `scoring.BM25F` is used with -/
structure Bm25Ok (p : Bm25) : Prop where
  idf_pos : ∀ n df, 0 < p.idf n df
  k1 : 0 ≤ p.K1
  b0 : ∀ f, 0 ≤ p.B f
  b1 : ∀ f, p.B f ≤ 1

theorem posLeaf_tfidf {idf : Idf} (hidf : ∀ n df, 0 < idf n df) (idx : Index) {s : Segment}
    (h : wfSegment s = true) : PosLeaf (tfidfLeaf idf idx) s := by
  intro i hi f t ht
  have hw := posLeaf_freq_of_wf h i hi f t ht
  unfold freqLeaf at hw
  unfold tfidfLeaf WM.Matcher.tfidfScore
  exact Rat.mul_pos hw (hidf _ _)

theorem posLeaf_bm25f {p : Bm25} (hp : Bm25Ok p) (idx : Index) {s : Segment} (h : wfSegment s = true) :
    PosLeaf (bm25fLeaf p idx) s := by
  intro i hi f t ht
  have hw := posLeaf_freq_of_wf h i hi f t ht
  unfold freqLeaf at hw
  unfold bm25fLeaf
  simp only
  split
  · exact bm25_pos _ (hp.idf_pos _ _) (avgFieldLength_pos _) (hp.b0 f) (hp.b1 f) hp.k1 hw
  · exact hw

theorem bm25fLeaf_perm (p : Bm25) {idx idx' : Index} (h : (allDocs idx).Perm (allDocs idx')) :
    bm25fLeaf p idx = bm25fLeaf p idx' := by
  funext d f t
  simp only [bm25fLeaf, termStats_perm h f t]

theorem tfidfLeaf_perm (idf : Idf) {idx idx' : Index} (h : (allDocs idx).Perm (allDocs idx')) :
    tfidfLeaf idf idx = tfidfLeaf idf idx' := by
  funext d f t
  simp only [tfidfLeaf, termStats_perm h f t]

end WM.Compile
