import WM.Lemmas.SearchSeg
/-!
The central refinement: for every query, every context and every valid shape oracle, the list
`compile` builds for a segment is strictly ascending and agrees pointwise with the specification
(`specLookup`): same documents always, same scores in a scored context.
-/
namespace WM.Compile
open WM.Search

theorem AgreeP.congr {sc : Bool} {l : PL} {sp sp' : PSpec} (h : AgreeP sc l sp) (he : ∀ i, sp i = sp' i) :
    AgreeP sc l sp' :=
  ⟨h.1, fun i => he i ▸ h.2 i⟩

theorem agreeP_nil (sc : Bool) {sp : PSpec} (h : ∀ i, sp i = none) : AgreeP sc [] sp :=
  ⟨sorted_nil, fun i => by rw [h i]; exact R.refl _ _⟩

theorem agreeP_canon (sc : Bool) (s : Segment) (p : Nat → Bool) (g : Nat → Rat) :
    AgreeP sc (canon s.live p g) (fun i => if i ∈ s.live ∧ p i = true then some (g i) else none) :=
  ⟨canon_sorted (live_asc s) _ _, fun i => by rw [lookup_canon (live_asc s)]; exact R.refl _ _⟩

theorem wOf_pos {b : Rat} (h : 0 < b) : wOf b = b := by
  unfold wOf
  have : (b == 0) = false := by
    apply Bool.eq_false_iff.mpr
    intro hb
    have : b = 0 := by simpa using hb
    rw [this] at h
    exact absurd h (by decide)
  simp [this]

theorem csL_pos (ctx : Ctx) {c : Rat} (h : 0 < c) (m : PL) : csL ctx c m = constL c m := by
  unfold csL
  rw [wOf_pos h]
  split <;> rfl

section
variable (ls : LeafScore) (so : ShapeOracle) (s : Segment)

/-! ### leaves -/

theorem term_case (ctx : Ctx) (f : String) (t : Term) (b : Rat) :
    AgreeP ctx.scored (compile ls so s ctx (.term f t b)) (specLookup ls s (.term f t b)) := by
  have h := boostL_agree (sc := ctx.scored) b (postings_agree ctx.scored ls s f t)
  simp only [compile]
  apply h.congr
  intro i
  simp only [termSpec, specLookup, sat, scoreOf]
  by_cases h : i ∈ s.live ∧ (s.doc i).hasTerm f t = true <;> simp [h]

theorem every_none_case (ctx : Ctx) (b : Rat) (hb : 0 < b) :
    AgreeP ctx.scored (compile ls so s ctx (.every none b)) (specLookup ls s (.every none b)) := by
  simp only [compile]
  have := agreeP_canon ctx.scored s (fun _ => true) (fun _ => wOf b)
  have heq : canon s.live (fun _ => true) (fun _ => wOf b) = s.live.map (fun i => ⟨i, wOf b⟩) := by
    unfold canon
    rw [List.filter_eq_self.mpr (fun _ _ => rfl)]
  rw [heq] at this
  apply this.congr
  intro i
  simp [specLookup, sat, scoreOf, wOf_pos hb]

theorem numRange_case (ctx : Ctx) (f : String) (lo hi : Option Rat) (le he : Bool) (b : Rat) (hb : 0 < b) :
    AgreeP ctx.scored (compile ls so s ctx (.numRange f lo hi le he b))
      (specLookup ls s (.numRange f lo hi le he b)) := by
  simp only [compile]
  have := agreeP_canon ctx.scored s (fun i => ((s.doc i).nums f).any (inRange lo hi le he)) (fun _ => wOf b)
  apply this.congr
  intro i
  simp [specLookup, sat, scoreOf, wOf_pos hb]

theorem null_case (ctx : Ctx) : AgreeP ctx.scored (compile ls so s ctx .null) (specLookup ls s .null) := by
  simp only [compile]
  apply agreeP_nil
  intro i
  simp [specLookup, sat]

/-- documents with any term of the field -/
theorem everyField_agree (sc sc' : Bool) (f : String) (c : Rat) :
    AgreeP sc (constL c (unionAll ((lexicon s f).map (postings ls s f))))
      (fun i => if i ∈ s.live ∧ (!((s.doc i).terms f).isEmpty) = true then some c else none) := by
  have hu := unionAll_agree (postingsL_agree sc' ls s f (lexicon s f))
  have hc := constL_agree (sc := sc) c hu
  apply hc.congr
  intro i
  by_cases hl : i ∈ s.live
  · rw [foldr_terms ls s f _ i hl]
    have hiff : ((lexicon s f).filter (fun t => (s.doc i).hasTerm f t) = []) ↔ ((s.doc i).terms f = []) := by
      rw [List.filter_eq_nil_iff]
      constructor
      · intro h
        cases hts : (s.doc i).terms f with
        | nil => rfl
        | cons t ts =>
          exfalso
          have ht : t ∈ (s.doc i).terms f := by rw [hts]; exact List.mem_cons_self
          exact h t (mem_lexicon.mpr ⟨s.doc i, live_doc_mem hl, ht⟩) (hasTerm_iff_mem.mpr ht)
      · intro h t _ ht
        have hm := hasTerm_iff_mem.mp ht
        rw [h] at hm
        cases hm
    by_cases hts : (s.doc i).terms f = []
    · have := hiff.mpr hts
      simp [this, hts, hl]
    · have : ¬ ((lexicon s f).filter (fun t => (s.doc i).hasTerm f t) = []) := fun h => hts (hiff.mp h)
      simp [this, hts, hl]
  · rw [foldr_terms_not_live ls s f _ i hl]
    simp [hl]

theorem every_some_case (ctx : Ctx) (f : String) (b : Rat) (hb : 0 < b) :
    AgreeP ctx.scored (compile ls so s ctx (.every (some f) b)) (specLookup ls s (.every (some f) b)) := by
  simp only [compile]
  apply (everyField_agree ls s ctx.scored ctx.scored f (wOf b)).congr
  intro i
  simp [specLookup, sat, scoreOf, wOf_pos hb]


/-! ### multi-term queries -/

theorem globMatch_star (t : List Nat) : globMatch [.star] t = true := by
  induction t with
  | nil => simp [globMatch]
  | cons x t ih => simp [globMatch, ih]

theorem isAllPred_test {p : TermPred} (h : isAllPred p = true) (t : Term) : p.test t = true := by
  cases p with
  | pfx q => cases q with
    | nil => simp [TermPred.test]
    | cons _ _ => simp [isAllPred] at h
  | glob pat =>
    match pat, h with
    | [.star], _ => simp [TermPred.test, globMatch_star]
  | all => rfl
  | range _ _ _ _ => simp [isAllPred] at h
  | fuzzy _ _ _ => simp [isAllPred] at h
  | oneOf _ => simp [isAllPred] at h

/-- the expansion of a multi-term query against the dictionary -/
def expand (s : Segment) (f : String) (p : TermPred) : List Term :=
  (lexicon s f).filter p.test

/-- pointwise: the sum of the leaf scores of the distinct terms of the document that pass `p` -/
def multiSpec (ls : LeafScore) (s : Segment) (f : String) (p : TermPred) : PSpec := fun i =>
  if i ∈ s.live ∧ ((s.doc i).terms f).any p.test = true then
    some ((((dedup ((s.doc i).terms f)).filter p.test).map (ls (s.doc i) f)).sum)
  else none

theorem multi_fold (f : String) (p : TermPred) (i : Nat) :
    (((expand s f p).map (termSpec ls s f)).map (fun sp => sp i)).foldr (optMerge (· + ·)) none =
      multiSpec ls s f p i := by
  unfold multiSpec
  by_cases hl : i ∈ s.live
  · rw [foldr_terms ls s f _ i hl]
    have hperm := expansion_perm p.test (f := f) (live_doc_mem hl)
    have hsum := perm_sum_map (ls (s.doc i) f) hperm
    have hnil : ((expand s f p).filter (fun t => (s.doc i).hasTerm f t) = []) ↔
        (((s.doc i).terms f).any p.test = false) := by
      unfold expand
      rw [← List.length_eq_zero_iff, hperm.length_eq, List.length_eq_zero_iff, List.filter_eq_nil_iff]
      constructor
      · intro h
        apply Bool.eq_false_iff.mpr
        intro hany
        obtain ⟨t, ht, hp⟩ := List.any_eq_true.mp hany
        exact h t (mem_dedup.mpr ht) hp
      · intro h t ht hp
        have : ((s.doc i).terms f).any p.test = true := List.any_eq_true.mpr ⟨t, mem_dedup.mp ht, hp⟩
        rw [h] at this
        cases this
    by_cases hany : ((s.doc i).terms f).any p.test = true
    · have : ¬ ((expand s f p).filter (fun t => (s.doc i).hasTerm f t) = []) := by
        intro h
        have := hnil.mp h
        rw [hany] at this
        cases this
      simp only [this, if_false, hl, hany, and_self, if_true]
      unfold expand
      rw [hsum]
    · have hf : ((s.doc i).terms f).any p.test = false := by simpa using hany
      simp [hnil.mpr hf, hf]
  · rw [foldr_terms_not_live ls s f _ i hl]
    simp [hl]

theorem multi_case (hso : ValidOracle so) (hleaf : PosLeaf ls s)
    (ctx : Ctx) (f : String) (p : TermPred) (b : Rat) (cs : Bool) (hb : 0 < b) :
    AgreeP ctx.scored (compile ls so s ctx (.multi f p b cs)) (specLookup ls s (.multi f p b cs)) := by
  simp only [compile]
  by_cases hall : isAllPred p = true
  · simp only [hall, if_true]
    apply (everyField_agree ls s ctx.scored ctx.scored f (wOf b)).congr
    intro i
    have hany : ((s.doc i).terms f).any p.test = !((s.doc i).terms f).isEmpty := by
      cases hts : (s.doc i).terms f with
      | nil => rfl
      | cons t ts => simp [isAllPred_test hall]
    simp [specLookup, sat, scoreOf, hall, wOf_pos hb, hany]
  · simp only [hall]
    -- every branch agrees with the fold over the expansion, mapped through the scoring
    have key : ∀ (l : PL), AgreeP ctx.scored l
        (fun i => (multiSpec ls s f p i).map (fun x => if cs = true then b else x * b)) →
        AgreeP ctx.scored l (specLookup ls s (.multi f p b cs)) := by
      intro l h
      apply h.congr
      intro i
      simp only [multiSpec, specLookup, sat, scoreOf, hall, Bool.or_false]
      by_cases hc : i ∈ s.live ∧ ((s.doc i).terms f).any p.test = true
      · simp only [hc, and_self, if_true, Option.map_some]
      · simp
    apply key
    show AgreeP ctx.scored
      (match (expand s f p).map (postings ls s f) with
        | [] => []
        | [m] => if cs = true then csL ctx b m else boostL b m
        | _ =>
          if cs = true then
            csL ctx b (orMany (if cs = true then ⟨ctx.nc, false⟩ else ctx) s.size
              (so ((expand s f p).map (fun t => Query.term f t 1))) ((expand s f p).map (postings ls s f)) b)
          else orMany (if cs = true then ⟨ctx.nc, false⟩ else ctx) s.size
              (so ((expand s f p).map (fun t => Query.term f t 1))) ((expand s f p).map (postings ls s f)) b) _
    have hfold := multi_fold ls s f p
    generalize hts : expand s f p = ts at hfold
    match ts, hfold with
    | [], hfold =>
      simp only [List.map_nil]
      apply agreeP_nil
      intro i
      rw [← hfold i]; rfl
    | [t], hfold =>
      simp only [List.map_cons, List.map_nil]
      have hT : ∀ i, termSpec ls s f t i = multiSpec ls s f p i := by
        intro i
        rw [← hfold i]
        simp only [List.map_cons, List.map_nil, List.foldr_cons, List.foldr_nil]
        cases termSpec ls s f t i <;> rfl
      cases cs with
      | true =>
        simp only [if_true]
        rw [csL_pos ctx hb]
        apply (constL_agree (sc := ctx.scored) b (postings_agree ctx.scored ls s f t)).congr
        intro i; rw [hT i]
      | false =>
        simp only [Bool.false_eq_true, if_false]
        apply (boostL_agree b (postings_agree ctx.scored ls s f t)).congr
        intro i; rw [hT i]
    | t1 :: t2 :: rest, hfold =>
      have hlen : ((t1 :: t2 :: rest).map (fun t => Query.term f t 1)).length =
          ((t1 :: t2 :: rest).map (postings ls s f)).length := by simp
      have hv : (so ((t1 :: t2 :: rest).map (fun t => Query.term f t 1))).Valid
          ((t1 :: t2 :: rest).map (postings ls s f)).length := by
        rw [← hlen]; exact hso _ (by simp)
      have hposS : ∀ sc, PosSpecs sc ((t1 :: t2 :: rest).map (termSpec ls s f)) := by
        intro sc _ sp hsp i v hv
        obtain ⟨t, _, rfl⟩ := List.mem_map.mp hsp
        unfold termSpec at hv
        by_cases hc : i ∈ s.live ∧ (s.doc i).hasTerm f t = true
        · simp only [hc, and_self, if_true, Option.some.injEq] at hv
          rw [← hv]; exact hleaf i hc.1 f t hc.2
        · simp [hc] at hv
      simp only [List.map_cons]
      cases cs with
      | true =>
        simp only [if_true]
        have hor := orMany_agree (ctx := ⟨ctx.nc, false⟩) (dc := s.size) (b := b)
          (postingsL_agree false ls s f (t1 :: t2 :: rest)) hv hb (hposS false)
        rw [csL_pos ctx hb]
        apply (constL_agree (sc := ctx.scored) b hor).congr
        intro i
        simp only [List.map_cons] at hfold
        simp only [List.map_cons]
        rw [hfold i]
        cases multiSpec ls s f p i <;> simp
      | false =>
        simp only [Bool.false_eq_true, if_false]
        have hor := orMany_agree (ctx := ctx) (dc := s.size) (b := b)
          (postingsL_agree ctx.scored ls s f (t1 :: t2 :: rest)) hv hb (hposS ctx.scored)
        apply hor.congr
        intro i
        simp only [List.map_cons] at hfold
        simp only [List.map_cons]
        rw [hfold i]


/-! ### phrases -/

theorem filter_eq_filterMap_ite (P : Hit → Bool) (l : PL) :
    l.filter P = l.filterMap (fun e => if P e then some e else none) := by
  induction l with
  | nil => rfl
  | cons x xs ih =>
    rw [List.filter_cons, List.filterMap_cons]
    by_cases hp : P x = true <;> simp [hp, ih]

theorem filter_id_agree {sc : Bool} {l : PL} {sp : PSpec} (P : Nat → Bool) (h : AgreeP sc l sp) :
    AgreeP sc (l.filter (fun e => P e.id)) (fun i => if P i = true then sp i else none) := by
  have heq : l.filter (fun e => P e.id) = l.filterMap (fun e => if P e.id then some e else none) :=
    filter_eq_filterMap_ite (fun e => P e.id) l
  rw [heq]
  refine ⟨filterMap_sorted (ite_idpres (fun e => P e.id)) h.1, fun i => ?_⟩
  rw [lookup_filterMap (ite_idpres (fun e => P e.id)) h.1]
  have hr := h.2 i
  cases hl : lookup l i with
  | none =>
    rw [findE_none_of_lookup hl]
    rw [hl] at hr
    by_cases hp : P i = true
    · simpa [hp] using hr
    · simp only [hp]
      exact ⟨by simp, fun _ => rfl⟩
  | some x =>
    rw [findE_some_of_lookup hl]
    rw [hl] at hr
    by_cases hp : P i = true
    · simpa [hp] using hr
    · simp only [Option.bind_some, hp]
      exact ⟨by simp, fun _ => by simp⟩

theorem foldr_both_terms (f : String) (ws : List Term) (i : Nat) (hl : i ∈ s.live) :
    ((ws.map (termSpec ls s f)).map (fun sp => sp i)).foldr optBoth (some 0) =
      if ws.all (fun w => (s.doc i).hasTerm f w) = true then some ((ws.map (ls (s.doc i) f)).sum) else none := by
  induction ws with
  | nil => simp
  | cons w ws ih =>
    simp only [List.map_cons, List.foldr_cons, ih, List.all_cons, List.sum_cons]
    by_cases hw : (s.doc i).hasTerm f w = true
    · simp only [termSpec, hl, hw, and_self, if_true, Bool.true_and]
      by_cases ha : ws.all (fun w => (s.doc i).hasTerm f w) = true <;> simp [ha, optBoth]
    · simp only [termSpec, hw]
      simp [optBoth]

theorem foldr_both_terms_not_live (f : String) (ws : List Term) (i : Nat) (hl : i ∉ s.live) (hne : ws ≠ []) :
    ((ws.map (termSpec ls s f)).map (fun sp => sp i)).foldr optBoth (some 0) = none := by
  cases ws with
  | nil => exact absurd rfl hne
  | cons w ws =>
    simp only [List.map_cons, List.foldr_cons, termSpec, hl, false_and, if_false]
    cases (List.foldr optBoth (some 0) (List.map (fun sp => sp i) (List.map (termSpec ls s f) ws))) <;> rfl

theorem phrase_case (ctx : Ctx) (f : String) (ws : List Term) (slop : Nat) (b : Rat) :
    AgreeP ctx.scored (compile ls so s ctx (.phrase f ws slop b)) (specLookup ls s (.phrase f ws slop b)) := by
  simp only [compile]
  -- a phrase match has every word in the document
  have hwords : ∀ i, phraseSat slop (ws.map ((s.doc i).positions f)) = true →
      ws ≠ [] ∧ ∀ w ∈ ws, w ∈ (s.doc i).terms f := by
    intro i h
    obtain ⟨hne, hall⟩ := phraseSat_all_ne_nil h
    refine ⟨fun hnil => hne (by rw [hnil]; rfl), fun w hw => ?_⟩
    exact positions_ne_nil_iff.mp (hall _ (List.mem_map.mpr ⟨w, hw, rfl⟩))
  by_cases hmiss : ws.any (fun w => !(lexicon s f).contains w) = true
  · simp only [hmiss, if_true]
    apply agreeP_nil
    intro i
    simp only [specLookup, sat]
    by_cases hc : i ∈ s.live ∧ phraseSat slop (ws.map ((s.doc i).positions f)) = true
    · exfalso
      obtain ⟨w, hw, hnot⟩ := List.any_eq_true.mp hmiss
      have := (hwords i hc.2).2 w hw
      have hlex : w ∈ lexicon s f := mem_lexicon.mpr ⟨s.doc i, live_doc_mem hc.1, this⟩
      simp at hnot
      exact hnot hlex
    · simp [hc]
  · simp only [hmiss]
    cases hws : ws with
    | nil =>
      simp only [List.map_nil, List.length_nil, balancedShape, balanced, foldShape, List.getD_nil,
        List.filter_nil, boostL, List.map_nil]
      apply agreeP_nil
      intro i
      simp [specLookup, sat, phraseSat]
    | cons w0 wr =>
      rw [← hws]
      have hne : ws ≠ [] := by rw [hws]; simp
      have hL := postingsL_agree ctx.scored ls s f ws
      have hv : (balancedShape ws.length).Valid (ws.map (postings ls s f)).length := by
        rw [List.length_map]
        apply balancedShape_valid
        rw [hws]; simp
      have hI := foldShape_agree interL_opSpec both_monoidal (fun _ _ _ _ => R.optBoth) hL hv
      have hF := filter_id_agree
        (fun i => !(phraseEnds slop (ws.map ((s.doc i).positions f))).isEmpty) hI
      apply (boostL_agree b hF).congr
      intro i
      simp only [phraseEnds_iff, specLookup, sat, scoreOf]
      by_cases hl : i ∈ s.live
      · rw [foldr_both_terms ls s f ws i hl]
        by_cases hp : phraseSat slop (ws.map ((s.doc i).positions f)) = true
        · have hall : ws.all (fun w => (s.doc i).hasTerm f w) = true := by
            apply List.all_eq_true.mpr
            intro w hw
            exact hasTerm_iff_mem.mpr ((hwords i hp).2 w hw)
          simp [hl, hp, hall]
        · simp [hl, hp]
      · rw [foldr_both_terms_not_live ls s f ws i hl hne]
        simp [hl]


/-! ### compounds -/

theorem posQs_mem : ∀ {qs : List Query}, PosQs qs → ∀ q ∈ qs, PosQ q
  | [], _, q, hq => by cases hq
  | q0 :: qs, h, q, hq => by
    simp only [PosQs] at h
    rcases List.mem_cons.mp hq with rfl | hq
    · exact h.1
    · exact posQs_mem h.2 q hq

theorem posSpecs_of_posQs (hleaf : PosLeaf ls s) {qs : List Query} (hp : PosQs qs) (sc : Bool) :
    PosSpecs sc (qs.map (specLookup ls s)) := by
  intro _ sp hsp i v hv
  obtain ⟨q, hq, rfl⟩ := List.mem_map.mp hsp
  unfold specLookup at hv
  by_cases hc : i ∈ s.live ∧ sat q (s.doc i) = true
  · simp only [hc, and_self, if_true, Option.some.injEq] at hv
    rw [← hv]
    exact scoreOf_pos ls (s.doc i) (fun f t ht => hleaf i hc.1 f t ht) q (posQs_mem hp q hq) hc.2
  · simp [hc] at hv

theorem map_spec_at (qs : List Query) (i : Nat) :
    (qs.map (specLookup ls s)).map (fun sp => sp i) = qs.map (fun q => specLookup ls s q i) := by
  rw [List.map_map]; rfl

theorem and_case (hso : ValidOracle so) (sc : Bool) (qs : List Query) (b : Rat) (ms : List PL)
    (hL : AgreeL sc ms (qs.map (specLookup ls s))) :
    AgreeP sc (compoundL (fun ms => boostL b (foldShape interL ms (so qs))) b ms)
      (specLookup ls s (.and qs b)) := by
  have hlen := hL.length
  match ms, qs, hL, hlen with
  | [], [], _, _ =>
    apply agreeP_nil
    intro i; simp [specLookup, sat]
  | [m], [q], hL, _ =>
    apply (boostL_agree b hL.1).congr
    intro i
    simp only [specLookup, sat, satAll, scoreOf, sumAll, List.isEmpty_cons, Bool.not_false, Bool.true_and,
      Bool.and_true, Rat.add_zero]
    by_cases hc : i ∈ s.live ∧ sat q (s.doc i) = true <;> simp [hc]
  | m1 :: m2 :: mr, q1 :: q2 :: qr, hL, hlen =>
    have hv : (so (q1 :: q2 :: qr)).Valid (m1 :: m2 :: mr).length := by
      rw [hlen, List.length_map]; exact hso _ (by simp)
    have hI := foldShape_agree interL_opSpec both_monoidal (fun _ _ _ _ => R.optBoth) hL hv
    apply (boostL_agree b hI).congr
    intro i
    rw [map_spec_at, foldr_both_spec ls s _ i (by simp)]
    simp only [specLookup, sat, scoreOf, List.isEmpty_cons, Bool.not_false, Bool.true_and]
    by_cases hc : i ∈ s.live ∧ satAll (q1 :: q2 :: qr) (s.doc i) = true <;> simp [hc]
  | [], _ :: _, _, hlen => simp at hlen
  | [_], [], _, hlen => simp at hlen
  | [_], _ :: _ :: _, _, hlen => simp at hlen
  | _ :: _ :: _, [], _, hlen => simp at hlen
  | _ :: _ :: _, [_], _, hlen => simp at hlen

theorem or_case (hso : ValidOracle so) (hleaf : PosLeaf ls s) (ctx : Ctx) (qs : List Query) (b : Rat)
    (hb : 0 < b) (hp : PosQs qs) (ms : List PL) (hL : AgreeL ctx.scored ms (qs.map (specLookup ls s))) :
    AgreeP ctx.scored (compoundL (fun ms => orMany ctx s.size (so qs) ms b) b ms)
      (specLookup ls s (.or qs b)) := by
  have hlen := hL.length
  match ms, qs, hL, hlen, hp with
  | [], [], _, _, _ =>
    apply agreeP_nil
    intro i; simp [specLookup, sat, satAny]
  | [m], [q], hL, _, _ =>
    apply (boostL_agree b hL.1).congr
    intro i
    simp only [specLookup, sat, satAny, scoreOf, sumSat, Bool.or_false, Rat.add_zero]
    by_cases hc : i ∈ s.live ∧ sat q (s.doc i) = true
    · simp [hc]
    · simp [hc]
  | m1 :: m2 :: mr, q1 :: q2 :: qr, hL, hlen, hp =>
    have hv : (so (q1 :: q2 :: qr)).Valid (m1 :: m2 :: mr).length := by
      rw [hlen, List.length_map]; exact hso _ (by simp)
    have hO := orMany_agree (dc := s.size) hL hv hb (posSpecs_of_posQs ls s hleaf hp ctx.scored)
    apply hO.congr
    intro i
    rw [map_spec_at, foldr_add_spec ls s _ i]
    simp only [specLookup, sat, scoreOf]
    by_cases hc : i ∈ s.live ∧ satAny (q1 :: q2 :: qr) (s.doc i) = true <;> simp [hc]
  | [], _ :: _, _, hlen, _ => simp at hlen
  | [_], [], _, hlen, _ => simp at hlen
  | [_], _ :: _ :: _, _, hlen, _ => simp at hlen
  | _ :: _ :: _, [], _, hlen, _ => simp at hlen
  | _ :: _ :: _, [_], _, hlen, _ => simp at hlen

theorem dismax_case (hso : ValidOracle so) (sc : Bool) (qs : List Query) (b : Rat) (ms : List PL)
    (hL : AgreeL sc ms (qs.map (specLookup ls s))) :
    AgreeP sc (compoundL (fun ms => boostL b (foldShape dismaxL ms (so qs))) b ms)
      (specLookup ls s (.dismax qs b)) := by
  have hlen := hL.length
  match ms, qs, hL, hlen with
  | [], [], _, _ =>
    apply agreeP_nil
    intro i; simp [specLookup, sat, satAny]
  | [m], [q], hL, _ =>
    apply (boostL_agree b hL.1).congr
    intro i
    simp only [specLookup, sat, satAny, scoreOf, maxSat, Bool.or_false]
    by_cases hc : i ∈ s.live ∧ sat q (s.doc i) = true
    · simp [hc]
    · simp [hc]
  | m1 :: m2 :: mr, q1 :: q2 :: qr, hL, hlen =>
    have hv : (so (q1 :: q2 :: qr)).Valid (m1 :: m2 :: mr).length := by
      rw [hlen, List.length_map]; exact hso _ (by simp)
    have hI := foldShape_agree (mergeWith_opSpec ratMax) max_monoidal (fun _ _ _ _ => R.optMerge) hL hv
    apply (boostL_agree b hI).congr
    intro i
    rw [map_spec_at, foldr_max_spec ls s _ i]
    simp only [specLookup, sat, scoreOf]
    have hsome := maxSat_isSome ls (q1 :: q2 :: qr) (s.doc i)
    by_cases hl : i ∈ s.live
    · cases hm : maxSat ls (q1 :: q2 :: qr) (s.doc i) with
      | none =>
        rw [hm] at hsome
        have : satAny (q1 :: q2 :: qr) (s.doc i) = false := by simpa using hsome.symm
        simp [hl, this]
      | some m =>
        rw [hm] at hsome
        have : satAny (q1 :: q2 :: qr) (s.doc i) = true := by simpa using hsome.symm
        simp [hl, this]
    · simp [hl]
  | [], _ :: _, _, hlen => simp at hlen
  | [_], [], _, hlen => simp at hlen
  | [_], _ :: _ :: _, _, hlen => simp at hlen
  | _ :: _ :: _, [], _, hlen => simp at hlen
  | _ :: _ :: _, [_], _, hlen => simp at hlen

/-! ### binary and wrapping queries -/

theorem isNone_iff_of_R {sc : Bool} {x y : Option Rat} (h : R sc x y) : x.isNone = y.isNone := by
  have := h.1
  cases x <;> cases y <;> simp_all

theorem not_case (q : Query) (c : PL) (hc : AgreeP false c (specLookup ls s q)) (sc : Bool) :
    AgreeP sc ((s.live.filter (fun i => (lookup c i).isNone)).map (fun i => (⟨i, 1⟩ : Hit)))
      (specLookup ls s (.not q)) := by
  have := agreeP_canon sc s (fun i => (lookup c i).isNone) (fun _ => (1 : Rat))
  apply this.congr
  intro i
  have hn := isNone_iff_of_R (hc.2 i)
  simp only [hn, specLookup, sat, scoreOf]
  by_cases hl : i ∈ s.live <;> by_cases hs : sat q (s.doc i) = true <;> simp [hl, hs]

theorem andNot_case (sc : Bool) (a b : Query) (ca cb : PL) (ha : AgreeP sc ca (specLookup ls s a))
    (hb : AgreeP false cb (specLookup ls s b)) :
    AgreeP sc (andNotL ca cb) (specLookup ls s (.andNot a b)) := by
  refine ⟨andNotL_sorted cb ha.1, fun i => ?_⟩
  rw [lookup_andNotL cb ha.1]
  have hn := isNone_iff_of_R (hb.2 i)
  have hr := ha.2 i
  rw [hn]
  simp only [specLookup, sat, scoreOf] at *
  by_cases hl : i ∈ s.live <;> by_cases hsb : sat b (s.doc i) = true <;>
    by_cases hsa : sat a (s.doc i) = true <;> simp_all [R]

theorem require_case (sc : Bool) (a b : Query) (ca cb : PL) (ha : AgreeP sc ca (specLookup ls s a))
    (hb : AgreeP false cb (specLookup ls s b)) :
    AgreeP sc (requireL ca cb) (specLookup ls s (.require a b)) := by
  refine ⟨requireL_sorted cb ha.1, fun i => ?_⟩
  rw [lookup_requireL cb ha.1]
  have hn := (hb.2 i).1
  have hr := ha.2 i
  rw [hn]
  simp only [specLookup, sat, scoreOf] at *
  by_cases hl : i ∈ s.live <;> by_cases hsb : sat b (s.doc i) = true <;>
    by_cases hsa : sat a (s.doc i) = true <;> simp_all [R]

theorem andMaybe_case (sc : Bool) (a b : Query) (ca cb : PL) (ha : AgreeP sc ca (specLookup ls s a))
    (hb : AgreeP sc cb (specLookup ls s b)) :
    AgreeP sc (andMaybeL ca cb) (specLookup ls s (.andMaybe a b)) := by
  refine ⟨andMaybeL_sorted cb ha.1, fun i => ?_⟩
  rw [lookup_andMaybeL cb ha.1]
  obtain ⟨ha1, ha2⟩ := ha.2 i
  obtain ⟨hb1, hb2⟩ := hb.2 i
  constructor
  · rw [Option.isSome_map, ha1]
    simp only [specLookup, sat]
    by_cases hc : i ∈ s.live ∧ sat a (s.doc i) = true <;> simp [hc]
  · intro hsc
    rw [ha2 hsc, hb2 hsc]
    simp only [specLookup, sat, scoreOf]
    by_cases hl : i ∈ s.live <;> by_cases hsb : sat b (s.doc i) = true <;>
      by_cases hsa : sat a (s.doc i) = true <;> simp [hl, hsa, hsb, Rat.add_zero]

theorem constScore_case (ctx : Ctx) (q : Query) (sc : Rat) (hsc : 0 < sc) (c : PL)
    (hc : AgreeP ctx.scored c (specLookup ls s q)) :
    AgreeP ctx.scored (csL ctx sc c) (specLookup ls s (.constScore q sc)) := by
  rw [csL_pos ctx hsc]
  apply (constL_agree (sc := ctx.scored) sc hc).congr
  intro i
  simp only [specLookup, sat, scoreOf]
  by_cases h : i ∈ s.live ∧ sat q (s.doc i) = true <;> simp [h]

/-! ### the refinement -/

mutual
theorem compile_agree (hso : ValidOracle so) (hleaf : PosLeaf ls s) :
    ∀ (q : Query) (ctx : Ctx), PosQ q → AgreeP ctx.scored (compile ls so s ctx q) (specLookup ls s q)
  | .term f t b, ctx, _ => term_case ls so s ctx f t b
  | .multi f p b cs, ctx, hp => multi_case ls so s hso hleaf ctx f p b cs (by simpa [PosQ] using hp)
  | .phrase f ws slop b, ctx, _ => phrase_case ls so s ctx f ws slop b
  | .numRange f lo hi le he b, ctx, hp => numRange_case ls so s ctx f lo hi le he b (by simpa [PosQ] using hp)
  | .every none b, ctx, hp => every_none_case ls so s ctx b (by simpa [PosQ] using hp)
  | .every (some f) b, ctx, hp => every_some_case ls so s ctx f b (by simpa [PosQ] using hp)
  | .null, ctx, _ => null_case ls so s ctx
  | .and qs b, ctx, hp => by
    simp only [PosQ] at hp
    simp only [compile]
    exact and_case ls so s hso ctx.scored qs b _ (compileList_agree hso hleaf qs ctx hp.2)
  | .or qs b, ctx, hp => by
    simp only [PosQ] at hp
    simp only [compile]
    exact or_case ls so s hso hleaf ctx qs b hp.1 hp.2 _ (compileList_agree hso hleaf qs ctx hp.2)
  | .dismax qs b, ctx, hp => by
    simp only [PosQ] at hp
    simp only [compile]
    exact dismax_case ls so s hso ctx.scored qs b _ (compileList_agree hso hleaf qs ctx hp.2)
  | .not q, ctx, hp => by
    simp only [PosQ] at hp
    simp only [compile]
    exact not_case ls s q _ (compile_agree hso hleaf q boolCtx hp) ctx.scored
  | .andNot a b, ctx, hp => by
    simp only [PosQ] at hp
    simp only [compile]
    exact andNot_case ls s ctx.scored a b _ _ (compile_agree hso hleaf a ctx hp.1)
      (compile_agree hso hleaf b boolCtx hp.2)
  | .andMaybe a b, ctx, hp => by
    simp only [PosQ] at hp
    simp only [compile]
    exact andMaybe_case ls s ctx.scored a b _ _ (compile_agree hso hleaf a ctx hp.1)
      (compile_agree hso hleaf b ctx hp.2)
  | .require a b, ctx, hp => by
    simp only [PosQ] at hp
    simp only [compile]
    exact require_case ls s ctx.scored a b _ _ (compile_agree hso hleaf a ctx hp.1)
      (compile_agree hso hleaf b boolCtx hp.2)
  | .constScore q sc, ctx, hp => by
    simp only [PosQ] at hp
    simp only [compile]
    exact constScore_case ls s ctx q sc hp.1 _ (compile_agree hso hleaf q ctx hp.2)
theorem compileList_agree (hso : ValidOracle so) (hleaf : PosLeaf ls s) :
    ∀ (qs : List Query) (ctx : Ctx), PosQs qs →
      AgreeL ctx.scored (compileList ls so s ctx qs) (qs.map (specLookup ls s))
  | [], _, _ => trivial
  | q :: qs, ctx, hp => by
    simp only [PosQs] at hp
    exact ⟨compile_agree hso hleaf q ctx hp.1, compileList_agree hso hleaf qs ctx hp.2⟩
end

end

end WM.Compile
