import WM.Model.FS
import WM.Lemmas.FSNames
/-! Frame lemmas for the abstract file system and the characterisation of `latestGen`. -/
namespace WM.FS

/-- Well-formed name / inode tables. -/
structure WF (fs : FS) : Prop where
  support : ∀ n, (fs.dir n).isSome → n ∈ fs.names
  range : ∀ n i, fs.dir n = some i → i < fs.next
  inj : ∀ a b i, fs.dir a = some i → fs.dir b = some i → a = b

theorem isComplete_iff (fs : FS) (n : Name) :
    fs.isComplete n = true ↔ ∃ i, fs.dir n = some i ∧ (fs.data i).st = .complete := by
  unfold FS.isComplete
  cases h : fs.dir n with
  | none => simp
  | some i => simp

theorem isWriting_iff (fs : FS) (n : Name) :
    fs.isWriting n = true ↔ ∃ i, fs.dir n = some i ∧ (fs.data i).st = .writing := by
  unfold FS.isWriting
  cases h : fs.dir n with
  | none => simp
  | some i => simp

theorem mem_listing (fs : FS) (n : Name) : n ∈ fs.listing ↔ n ∈ fs.names ∧ (fs.dir n).isSome := by
  simp [FS.listing, FS.bound]

theorem mem_listing_wf {fs : FS} (h : WF fs) (n : Name) : n ∈ fs.listing ↔ (fs.dir n).isSome := by
  rw [mem_listing]; exact ⟨fun h => h.2, fun h' => ⟨h.support n h', h'⟩⟩

/-! ### latest generation -/

def genStep (ix : Name) (mx : Option Nat) (n : Name) : Option Nat :=
  match tocGen ix n, mx with
  | some g, some m => some (max g m)
  | some g, none => some g
  | none, mx => mx

theorem latestGenOf_eq_foldl (ix : Name) (ns : List Name) :
    latestGenOf ix ns = ns.foldl (genStep ix) none := rfl

/-- `g` is the greatest generation among the names of `ns` (with a starting value `acc`). -/
theorem foldl_genStep (ix : Name) (ns : List Name) (acc : Option Nat) :
    (ns.foldl (genStep ix) acc = none ↔ acc = none ∧ ∀ n ∈ ns, tocGen ix n = none) ∧
    (∀ g, ns.foldl (genStep ix) acc = some g →
      (acc = some g ∨ ∃ n ∈ ns, tocGen ix n = some g) ∧
      (∀ a, acc = some a → a ≤ g) ∧ (∀ n ∈ ns, ∀ g', tocGen ix n = some g' → g' ≤ g)) := by
  induction ns generalizing acc with
  | nil =>
    refine ⟨by simp, ?_⟩
    intro g hg
    simp only [List.foldl_nil] at hg
    refine ⟨Or.inl hg, ?_, by simp⟩
    intro a ha; rw [hg] at ha; cases ha; exact Nat.le_refl _
  | cons n ns ih =>
    simp only [List.foldl_cons]
    obtain ⟨ih1, ih2⟩ := ih (genStep ix acc n)
    constructor
    · rw [ih1]
      unfold genStep
      cases hn : tocGen ix n <;> cases acc <;> simp [hn]
    · intro g hg
      obtain ⟨h1, h2, h3⟩ := ih2 g hg
      unfold genStep at h1 h2
      cases hn : tocGen ix n with
      | none =>
        simp only [hn] at h1 h2
        refine ⟨?_, h2, ?_⟩
        · rcases h1 with h1 | ⟨m, hm, hm'⟩
          · exact Or.inl h1
          · exact Or.inr ⟨m, by simp [hm], hm'⟩
        · intro m hm g' hg'
          simp at hm
          rcases hm with rfl | hm
          · rw [hn] at hg'; cases hg'
          · exact h3 m hm g' hg'
      | some k =>
        cases acc with
        | none =>
          simp only [hn] at h1 h2
          have hk : k ≤ g := h2 k rfl
          refine ⟨?_, by simp, ?_⟩
          · rcases h1 with h1 | ⟨m, hm, hm'⟩
            · right; refine ⟨n, by simp, ?_⟩; rw [hn]; exact h1
            · exact Or.inr ⟨m, by simp [hm], hm'⟩
          · intro m hm g' hg'
            simp at hm
            rcases hm with rfl | hm
            · rw [hn] at hg'; cases hg'; exact hk
            · exact h3 m hm g' hg'
        | some a =>
          simp only [hn] at h1 h2
          have hk : max k a ≤ g := h2 _ rfl
          refine ⟨?_, ?_, ?_⟩
          · rcases h1 with h1 | ⟨m, hm, hm'⟩
            · simp only [Option.some.injEq] at h1
              by_cases hka : k ≤ a
              · left; rw [Nat.max_eq_right hka] at h1; rw [h1]
              · right; refine ⟨n, by simp, ?_⟩
                rw [Nat.max_eq_left (by omega)] at h1; rw [hn, h1]
            · exact Or.inr ⟨m, by simp [hm], hm'⟩
          · intro b hb; cases hb; omega
          · intro m hm g' hg'
            simp at hm
            rcases hm with rfl | hm
            · rw [hn] at hg'; cases hg'; omega
            · exact h3 m hm g' hg'

/-- `g` is the highest generation among the bound names matching the TOC pattern. -/
def IsLatest (ix : Name) (fs : FS) (g : Nat) : Prop :=
  (∃ n, (fs.dir n).isSome ∧ tocGen ix n = some g) ∧
  ∀ n g', (fs.dir n).isSome → tocGen ix n = some g' → g' ≤ g

theorem latestGen_isLatest {ix : Name} {fs : FS} (h : WF fs) {g : Nat}
    (hg : latestGen ix fs = some g) : IsLatest ix fs g := by
  unfold latestGen at hg
  rw [latestGenOf_eq_foldl] at hg
  obtain ⟨h1, _, h3⟩ := (foldl_genStep ix fs.listing none).2 g hg
  constructor
  · rcases h1 with h1 | ⟨n, hn, hn'⟩
    · cases h1
    · exact ⟨n, (mem_listing_wf h n).1 hn, hn'⟩
  · intro n g' hb hg'
    exact h3 n ((mem_listing_wf h n).2 hb) g' hg'

theorem isLatest_latestGen {ix : Name} {fs : FS} (h : WF fs) {g : Nat}
    (hg : IsLatest ix fs g) : latestGen ix fs = some g := by
  obtain ⟨⟨n, hb, hn⟩, hub⟩ := hg
  unfold latestGen
  rw [latestGenOf_eq_foldl]
  cases hr : fs.listing.foldl (genStep ix) none with
  | none =>
    have := ((foldl_genStep ix fs.listing none).1.1 hr).2 n ((mem_listing_wf h n).2 hb)
    rw [hn] at this; cases this
  | some g2 =>
    obtain ⟨h1, _, h3⟩ := (foldl_genStep ix fs.listing none).2 g2 hr
    have hle : g ≤ g2 := h3 n ((mem_listing_wf h n).2 hb) g hn
    rcases h1 with h1 | ⟨m, hm, hm'⟩
    · cases h1
    · have := hub m g2 ((mem_listing_wf h m).1 hm) hm'
      congr 1; omega

/-! ### which events leave a bound, closed file alone -/

def Touches : Event → Name → Prop
  | .create n, m => m = n
  | .rename a b, m => m = a ∨ m = b
  | .delete n, m => m = n
  | _, _ => False

theorem setData_dir (fs : FS) (i : Nat) (d : FileData) : (setData fs i d).dir = fs.dir := rfl
theorem setData_names (fs : FS) (i : Nat) (d : FileData) : (setData fs i d).names = fs.names := rfl
theorem setData_next (fs : FS) (i : Nat) (d : FileData) : (setData fs i d).next = fs.next := rfl

theorem modData_dir (fs : FS) (n : Name) (f : FileData → FileData) : (modData fs n f).dir = fs.dir := by
  unfold modData
  split
  · split <;> rfl
  · rfl

theorem modData_names (fs : FS) (n : Name) (f : FileData → FileData) :
    (modData fs n f).names = fs.names := by
  unfold modData
  split
  · split <;> rfl
  · rfl

theorem modData_next (fs : FS) (n : Name) (f : FileData → FileData) :
    (modData fs n f).next = fs.next := by
  unfold modData
  split
  · split <;> rfl
  · rfl

/-- `modData` only changes an inode that is in the `writing` state. -/
theorem modData_data (fs : FS) (n : Name) (f : FileData → FileData) (j : Nat)
    (hj : (fs.data j).st ≠ .writing) : (modData fs n f).data j = fs.data j := by
  unfold modData
  split
  · next i hi =>
    split
    · next hw =>
      show (if j = i then _ else fs.data j) = fs.data j
      have : j ≠ i := by intro h; subst h; exact hj hw
      simp [this]
    · rfl
  · rfl

/-- An event that does not touch the name `m` keeps its binding and, when the inode is not being
    written, its data (creation allocates a fresh inode when the name is unbound). -/
theorem step_frame {fs : FS} (hwf : WF fs) (e : Event) (m : Name) (j : Nat)
    (hd : fs.dir m = some j) (hs : (fs.data j).st ≠ .writing) (ht : ¬ Touches e m)
    (hc : ∀ n, e = .create n → fs.dir n = none) :
    (step fs e).dir m = some j ∧ (step fs e).data j = fs.data j := by
  cases e with
  | create n =>
    have hn := hc n rfl
    have hmn : m ≠ n := by simpa [Touches] using ht
    have hj : j ≠ fs.next := Nat.ne_of_lt (hwf.range m j hd)
    simp [step, hn, hmn, hd, hj]
  | write n k => exact ⟨by rw [step, modData_dir]; exact hd, modData_data fs n _ j hs⟩
  | setToc n t => exact ⟨by rw [step, modData_dir]; exact hd, modData_data fs n _ j hs⟩
  | close n => exact ⟨by rw [step, modData_dir]; exact hd, modData_data fs n _ j hs⟩
  | rename a b =>
    have : m ≠ a ∧ m ≠ b := by simpa [Touches, not_or] using ht
    simp only [step]
    cases ha : fs.dir a with
    | none => exact ⟨hd, rfl⟩
    | some i => simp [this.1, this.2, hd]
  | delete n =>
    have hmn : m ≠ n := by simpa [Touches] using ht
    simp [step, hmn, hd]
  | other => exact ⟨hd, rfl⟩

/-- Well-formedness is kept by every event that creates / renames onto unbound names only. -/
theorem step_wf {fs : FS} (hwf : WF fs) (e : Event)
    (hc : ∀ n, e = .create n → fs.dir n = none)
    (hr : ∀ a b, e = .rename a b → fs.dir b = none) : WF (step fs e) := by
  cases e with
  | create n =>
    have hn := hc n rfl
    simp only [step, hn]
    refine ⟨?_, ?_, ?_⟩
    · intro m hm
      by_cases hmn : m = n
      · simp [hmn]
      · simp only [hmn, if_false] at hm
        simp [hwf.support m hm]
    · intro m i hm
      show i < fs.next + 1
      by_cases hmn : m = n
      · simp only [hmn, if_true, Option.some.injEq] at hm; omega
      · simp only [hmn, if_false] at hm
        have := hwf.range m i hm; omega
    · intro a b i ha hb
      by_cases han : a = n <;> by_cases hbn : b = n
      · rw [han, hbn]
      · simp only [han, if_true, Option.some.injEq] at ha
        simp only [hbn, if_false] at hb
        have := hwf.range b i hb; omega
      · simp only [hbn, if_true, Option.some.injEq] at hb
        simp only [han, if_false] at ha
        have := hwf.range a i ha; omega
      · simp only [han, if_false] at ha
        simp only [hbn, if_false] at hb
        exact hwf.inj a b i ha hb
  | write n k =>
    simp only [step]
    exact ⟨by rw [modData_dir, modData_names]; exact hwf.support,
           by rw [modData_dir, modData_next]; exact hwf.range,
           by rw [modData_dir]; exact hwf.inj⟩
  | setToc n t =>
    simp only [step]
    exact ⟨by rw [modData_dir, modData_names]; exact hwf.support,
           by rw [modData_dir, modData_next]; exact hwf.range,
           by rw [modData_dir]; exact hwf.inj⟩
  | close n =>
    simp only [step]
    exact ⟨by rw [modData_dir, modData_names]; exact hwf.support,
           by rw [modData_dir, modData_next]; exact hwf.range,
           by rw [modData_dir]; exact hwf.inj⟩
  | rename a b =>
    have hb := hr a b rfl
    simp only [step]
    cases ha : fs.dir a with
    | none => exact hwf
    | some i =>
      simp only
      refine ⟨?_, ?_, ?_⟩
      · intro m hm
        by_cases hmb : m = b
        · simp [hmb]
        · simp only [hmb, if_false] at hm
          by_cases hma : m = a
          · simp [hma] at hm
          · simp only [hma, if_false] at hm
            simp [hwf.support m hm]
      · intro m k hm
        by_cases hmb : m = b
        · simp only [hmb, if_true, Option.some.injEq] at hm
          subst hm; exact hwf.range a i ha
        · simp only [hmb, if_false] at hm
          by_cases hma : m = a
          · simp [hma] at hm
          · simp only [hma, if_false] at hm
            exact hwf.range m k hm
      · intro x y k hx hy
        simp only at hx hy
        by_cases hxb : x = b <;> by_cases hyb : y = b
        · rw [hxb, hyb]
        · simp only [hxb, if_true, Option.some.injEq] at hx
          simp only [hyb, if_false] at hy
          by_cases hya : y = a
          · simp [hya] at hy
          · simp only [hya, if_false] at hy
            subst hx
            exact absurd (hwf.inj y a i hy ha) hya
        · simp only [hyb, if_true, Option.some.injEq] at hy
          simp only [hxb, if_false] at hx
          by_cases hxa : x = a
          · simp [hxa] at hx
          · simp only [hxa, if_false] at hx
            subst hy
            exact absurd (hwf.inj x a i hx ha) hxa
        · simp only [hxb, if_false] at hx
          simp only [hyb, if_false] at hy
          by_cases hxa : x = a
          · simp [hxa] at hx
          · by_cases hya : y = a
            · simp [hya] at hy
            · simp only [hxa, if_false] at hx
              simp only [hya, if_false] at hy
              exact hwf.inj x y k hx hy
  | delete n =>
    simp only [step]
    refine ⟨?_, ?_, ?_⟩
    · intro m hm
      by_cases hmn : m = n
      · simp [hmn] at hm
      · simp only [hmn, if_false] at hm; exact hwf.support m hm
    · intro m i hm
      by_cases hmn : m = n
      · simp [hmn] at hm
      · simp only [hmn, if_false] at hm; exact hwf.range m i hm
    · intro a b i ha hb
      by_cases han : a = n
      · simp [han] at ha
      · by_cases hbn : b = n
        · simp [hbn] at hb
        · simp only [han, if_false] at ha
          simp only [hbn, if_false] at hb
          exact hwf.inj a b i ha hb
  | other => exact hwf

end WM.FS
