import WM.Lemmas.IndexWF
/-! Storage back-ends: the index is parametric in anything that satisfies the map laws. -/
namespace WM.Index
open WM.Dict

/-- what the index keeps in a storage: segment files (by segment name) and TOC files (by generation) -/
inductive Blob where
  | seg (s : Seg)
  | toc (schema : Schema) (gen : Nat) (names : List Nat)
deriving DecidableEq

/-- a storage back-end, reduced to what the index needs of it: named blobs -/
structure Store (σ : Type) where
  get : σ → Nat → Option Blob
  put : σ → Nat → Blob → σ

/-- the map laws (what `Storage.create_file/open_file` are trusted to satisfy) -/
structure Store.Lawful {σ : Type} (st : Store σ) : Prop where
  get_put_same : ∀ s k v, st.get (st.put s k v) k = some v
  get_put_other : ∀ s k k' v, k' ≠ k → st.get (st.put s k v) k' = st.get s k'

/-- write the segments under the given names, then the TOC -/
def saveSegs {σ} (st : Store σ) : σ → List Nat → List Seg → σ
  | s, n :: ns, g :: gs => saveSegs st (st.put s n (.seg g)) ns gs
  | s, _, _ => s

def saveToc {σ} (st : Store σ) (s : σ) (tocName : Nat) (names : List Nat) (t : Toc) : σ :=
  st.put (saveSegs st s names t.segs) tocName (.toc t.schema t.gen names)

def loadSegs {σ} (st : Store σ) (s : σ) : List Nat → Option (List Seg)
  | [] => some []
  | n :: ns =>
    match st.get s n, loadSegs st s ns with
    | some (.seg g), some gs => some (g :: gs)
    | _, _ => none

/-- open the index: read the TOC, then the segments it names -/
def loadToc {σ} (st : Store σ) (s : σ) (tocName : Nat) : Option Toc :=
  match st.get s tocName with
  | some (.toc sc gen names) => (loadSegs st s names).map fun segs => { schema := sc, segs := segs, gen := gen }
  | _ => none

theorem get_saveSegs_other {σ} (st : Store σ) (hl : st.Lawful) (s : σ) (names : List Nat) (segs : List Seg) (k : Nat)
    (hk : k ∉ names) : st.get (saveSegs st s names segs) k = st.get s k := by
  induction names generalizing s segs with
  | nil => cases segs <;> rfl
  | cons n ns ih =>
    cases segs with
    | nil => rfl
    | cons g gs =>
      simp only [saveSegs]
      rw [ih _ gs (by intro h; exact hk (by simp [h])), hl.get_put_other _ _ _ _ (by intro h; exact hk (by simp [h]))]

theorem loadSegs_saveSegs {σ} (st : Store σ) (hl : st.Lawful) (s : σ) (names : List Nat) (segs : List Seg)
    (hn : names.Nodup) (hlen : names.length = segs.length) :
    loadSegs st (saveSegs st s names segs) names = some segs := by
  induction names generalizing s segs with
  | nil => cases segs with
    | nil => rfl
    | cons _ _ => simp at hlen
  | cons n ns ih =>
    cases segs with
    | nil => simp at hlen
    | cons g gs =>
      simp only [List.nodup_cons] at hn
      simp only [saveSegs, loadSegs]
      rw [get_saveSegs_other st hl _ ns gs n hn.1, hl.get_put_same, ih _ gs hn.2 (by simpa using hlen)]

/-- reading back through a blob the TOC write did not touch -/
theorem loadSegs_put_other {σ} (st : Store σ) (hl : st.Lawful) (s : σ) (names : List Nat) (k : Nat) (v : Blob)
    (hk : k ∉ names) : loadSegs st (st.put s k v) names = loadSegs st s names := by
  induction names with
  | nil => rfl
  | cons n ns ih =>
    simp only [loadSegs]
    rw [hl.get_put_other _ _ _ _ (by intro h; exact hk (by simp [h])), ih (by intro h; exact hk (by simp [h]))]

/-- **storage.** Over *any* storage that satisfies the map laws, what a commit writes is what the
next open reads: same schema, generation and segments — hence the same content, doc counts,
postings and every further writer session, whatever the back-end. -/
theorem storage_roundtrip {σ} (st : Store σ) (hl : st.Lawful) (s : σ) (tocName : Nat) (names : List Nat) (t : Toc)
    (hn : names.Nodup) (hlen : names.length = t.segs.length) (htoc : tocName ∉ names) :
    loadToc st (saveToc st s tocName names t) tocName = some t := by
  simp only [loadToc, saveToc, hl.get_put_same]
  rw [loadSegs_put_other st hl _ names tocName _ htoc, loadSegs_saveSegs st hl s names t.segs hn hlen]
  rfl

/-- `RamStorage`: a dictionary (association list, newest first) -/
def ramStore : Store (List (Nat × Blob)) where
  get := fun s k => s.lookup k
  put := fun s k v => (k, v) :: s

theorem ramStore_lawful : ramStore.Lawful where
  get_put_same := by intro s k v; simp [ramStore, List.lookup_cons]
  get_put_other := by
    intro s k k' v h
    have : (k' == k) = false := by simpa using h
    simp [ramStore, List.lookup_cons, this]

/-- a directory: names to files, as a function -/
def dirStore : Store (Nat → Option Blob) where
  get := fun s k => s k
  put := fun s k v => fun k' => if k' = k then some v else s k'

theorem dirStore_lawful : dirStore.Lawful where
  get_put_same := by intro s k v; simp [dirStore]
  get_put_other := by intro s k k' v h; simp [dirStore, h]

end WM.Index
