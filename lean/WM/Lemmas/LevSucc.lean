import WM.Lemmas.LevNFA
import WM.Lemmas.Succ
/-! The DFA of a Levenshtein automaton satisfies what `next_valid_string` needs: transitions lead
to non-empty states, labels are characters of the term, and every state can still reach a final
state (by reading the rest of the term). -/
namespace WM.Lev
open WM.Lev.NFA WM.Lev.DFA

/-- NFA states that can actually occur. -/
def Proper (term : List Nat) (k p0 : Nat) (s : St) : Prop :=
  s.1 ≤ term.length ∧ s.2 ≤ k ∧ (s.1 < min p0 term.length → s.2 = 0)

theorem arc_dest_proper (term : List Nat) (k p0 : Nat) (s t : St) (l : Label)
    (harc : (s, l, t) ∈ (levenshteinAutomaton term k p0).trans) : Proper term k p0 t := by
  rcases (mem_levTrans term k p0 s t l).mp harc with
    ⟨i, c, hc, hlt, rfl, _, rfl⟩ | ⟨i, c, e, hc, hle, hek, rfl, h⟩ | ⟨e, hek, rfl, _, rfl⟩
  · have := (take_succ_of_getElem? hc).1
    exact ⟨by simp only; omega, Nat.zero_le _, fun _ => rfl⟩
  · have := (take_succ_of_getElem? hc).1
    rcases h with ⟨_, rfl⟩ | ⟨hlt, ⟨_, rfl⟩ | ⟨_, rfl⟩ | ⟨_, rfl⟩⟩
    · exact ⟨by simp only; omega, hek, fun h => by simp only at h; omega⟩
    · exact ⟨by simp only; omega, by simp only; omega, fun h => by simp only at h; omega⟩
    · exact ⟨by simp only; omega, by simp only; omega, fun h => by simp only at h; omega⟩
    · exact ⟨by simp only; omega, by simp only; omega, fun h => by simp only at h; omega⟩
  · exact ⟨Nat.le_refl _, by simp only; omega, fun h => by
      simp only at h
      have := Nat.min_le_right p0 term.length
      omega⟩

theorem nextState_proper (term : List Nat) (k p0 : Nat) (S : SSet) (l : Label) :
    ∀ t, t ∈ (levenshteinAutomaton term k p0).nextState S l → Proper term k p0 t := by
  unfold NFA.nextState
  apply expand_induction
  · intro t ht
    obtain ⟨s, _, h | h⟩ := mem_move.mp ht
    · exact arc_dest_proper term k p0 s t _ h
    · exact arc_dest_proper term k p0 s t _ h
  · intro s t _ h
    exact arc_dest_proper term k p0 s t _ h

theorem start_proper (term : List Nat) (k p0 : Nat) :
    ∀ t, t ∈ (levenshteinAutomaton term k p0).start → Proper term k p0 t := by
  unfold NFA.start
  apply expand_induction
  · intro t ht
    have : t = (0, 0) := by simpa [levenshteinAutomaton] using ht
    subst this
    exact ⟨Nat.zero_le _, Nat.zero_le _, fun _ => rfl⟩
  · intro s t _ h
    exact arc_dest_proper term k p0 s t _ h

theorem chr_arc (term : List Nat) (k p0 i e : Nat) (hi : i < term.length)
    (hp : Proper term k p0 (i, e)) :
    (((i, e) : St), Label.chr term[i], ((i + 1, e) : St)) ∈ (levenshteinAutomaton term k p0).trans := by
  rw [mem_levTrans]
  by_cases h : i < min p0 term.length
  · have he : e = 0 := hp.2.2 h
    subst he
    exact Or.inl ⟨i, term[i], List.getElem?_eq_getElem hi, h, rfl, rfl, rfl⟩
  · exact Or.inr (Or.inl ⟨i, term[i], e, List.getElem?_eq_getElem hi, by omega, hp.2.1, rfl,
      Or.inl ⟨rfl, rfl⟩⟩)

/-- Reading the rest of the term from a proper state `(i, e)` ends in `(len, e)`. -/
theorem reach_final (term : List Nat) (k p0 : Nat) :
    ∀ (m i e : Nat) (X : SSet), term.length - i = m → (i, e) ∈ X → Proper term k p0 (i, e) →
      (term.length, e) ∈ (term.drop i).foldl
        (fun S c => (levenshteinAutomaton term k p0).nextState S (.chr c)) X := by
  intro m
  induction m with
  | zero =>
    intro i e X hm hX hp
    have : i = term.length := by have := hp.1; simp only at this; omega
    subst this
    simpa using hX
  | succ m ih =>
    intro i e X hm hX hp
    have hi : i < term.length := by omega
    rw [List.drop_eq_getElem_cons hi, List.foldl_cons]
    apply ih (i + 1) e _ (by omega)
    · exact subset_expand _ _ (mem_move.mpr ⟨(i, e), hX, Or.inl (chr_arc term k p0 i e hi hp)⟩)
    · exact ⟨by simp only; omega, hp.2.1, fun h => hp.2.2 (by simp only at h ⊢; omega)⟩

/-- Every arc of the automaton strictly decreases this quantity. -/
def phi (term : List Nat) (k : Nat) (s : St) : Nat := 2 * (term.length - s.1) + (k - s.2)

theorem arc_phi (term : List Nat) (k p0 : Nat) (s t : St) (l : Label)
    (harc : (s, l, t) ∈ (levenshteinAutomaton term k p0).trans) : phi term k t < phi term k s := by
  rcases (mem_levTrans term k p0 s t l).mp harc with
    ⟨i, c, hc, hlt, rfl, _, rfl⟩ | ⟨i, c, e, hc, hle, hek, rfl, h⟩ | ⟨e, hek, rfl, _, rfl⟩
  · have := (take_succ_of_getElem? hc).1
    simp only [phi]; omega
  · have := (take_succ_of_getElem? hc).1
    rcases h with ⟨_, rfl⟩ | ⟨hlt, ⟨_, rfl⟩ | ⟨_, rfl⟩ | ⟨_, rfl⟩⟩ <;> simp only [phi] <;> omega
  · simp only [phi]; omega

theorem nextState_phi (term : List Nat) (k p0 : Nat) (X : SSet) (l : Label) :
    ∀ t, t ∈ (levenshteinAutomaton term k p0).nextState X l → ∃ s, s ∈ X ∧ phi term k t < phi term k s := by
  unfold NFA.nextState
  apply expand_induction
  · intro t ht
    obtain ⟨s, hs, h | h⟩ := mem_move.mp ht
    · exact ⟨s, hs, arc_phi term k p0 s t _ h⟩
    · exact ⟨s, hs, arc_phi term k p0 s t _ h⟩
  · rintro s t ⟨s0, hs0, hlt⟩ h
    exact ⟨s0, hs0, Nat.lt_trans (arc_phi term k p0 s t _ h) hlt⟩

/-- Rank of a DFA state: a strict upper bound of `phi` on its members. -/
def levRank (term : List Nat) (k : Nat) (q : Option SSet) (h : Nat) : Prop :=
  match q with
  | none => True
  | some X => ∀ s, s ∈ X → phi term k s < h

theorem valid_drop {t : List Nat} (h : Valid t) (i : Nat) : Valid (t.drop i) :=
  fun c hc => h c (List.mem_of_mem_drop hc)

/-- The DFA of a Levenshtein automaton (over a term of real characters) is an environment in
    which `next_valid_string` is correct. -/
theorem lev_env (term : List Nat) (k p0 : Nat) (hv : Valid term) (d : DFA)
    (h : (levenshteinAutomaton term k p0).toDfa = some d) :
    ∃ G, Env d G ∧ G (some d.initial) ∧ Ranked d G (levRank term k) (levChain term k) := by
  obtain ⟨seen, hc⟩ := toDfa_closed _ d h
  have hproper : ∀ X, Reach (levenshteinAutomaton term k p0).start seen X →
      ∀ s, s ∈ X → Proper term k p0 s := by
    rintro X ⟨Y, hY, hYX⟩ s hs
    have hsY : s ∈ Y := (hYX s).mpr hs
    rcases List.mem_cons.mp hY with rfl | hY
    · exact start_proper term k p0 s hsY
    · obtain ⟨S, l, rfl⟩ := hc.inv.src Y hY
      exact nextState_proper term k p0 S l s hsY
  refine ⟨fun q => ∃ X, q = some X ∧ Reach (levenshteinAutomaton term k p0).start seen X ∧ ∃ s, s ∈ X,
    ⟨⟨?_, ?_, ?_⟩, ?_, ?_⟩, ?_, ⟨?_, ?_⟩⟩
  · intro S c T hm hT
    obtain ⟨h1, h2, _⟩ := hc.inv.tr S c T hm
    obtain ⟨t, ht⟩ := nextState_nonempty _ S _ h2
    rw [hT] at h1; rw [← h1] at ht; cases ht
  · intro S T hm hT
    obtain ⟨h1, h2, _⟩ := hc.inv.df S T hm
    obtain ⟨t, ht⟩ := nextState_nonempty _ S _ h2
    rw [hT] at h1; rw [← h1] at ht; cases ht
  · intro S c T hm
    obtain ⟨_, h2, _⟩ := hc.inv.tr S c T hm
    obtain ⟨a, t, harc, _⟩ := (mem_getLabels _ S _).mp h2
    have hcterm : c ∈ term := by
      rcases (mem_levTrans term k p0 a t (.chr c)).mp harc with
        ⟨i, c', hc', _, _, hl, _⟩ | ⟨i, c', e, hc', _, _, _, hh⟩ | ⟨e, _, _, hl, _⟩
      · simp only [Label.chr.injEq] at hl; subst hl; exact List.mem_of_getElem? hc'
      · rcases hh with ⟨hl, _⟩ | ⟨_, ⟨hl, _⟩ | ⟨hl, _⟩ | ⟨hl, _⟩⟩
        · simp only [Label.chr.injEq] at hl; subst hl; exact List.mem_of_getElem? hc'
        · cases hl
        · cases hl
        · cases hl
      · cases hl
    exact hv c hcterm
  · rintro q c T ⟨X, rfl, hr, _⟩ hT
    obtain ⟨hrT, _, t, ht⟩ := closed_next_some hc hr hT
    exact ⟨T, rfl, hrT, t, ht⟩
  · rintro q ⟨X, rfl, hr, ⟨i, e⟩, hs⟩
    have hp := hproper X hr (i, e) hs
    refine ⟨term.drop i, valid_drop hv i, ?_⟩
    rw [closed_accept hc _ X hr, isFinal_iff]
    refine ⟨(term.length, e), reach_final term k p0 _ i e X rfl hs hp, ?_⟩
    simp only [levenshteinAutomaton, List.mem_map, List.mem_range]
    exact ⟨e, by have := hp.2.1; simp only at this; omega, rfl⟩
  · refine ⟨d.initial, rfl, ?_, (0, 0), ?_⟩
    · rw [hc.inv.init]; exact ⟨_, by simp, SEq.refl _⟩
    · rw [hc.inv.init]
      exact subset_expand _ _ (by simp [levenshteinAutomaton])
  · rintro q c T hh ⟨X, rfl, hr, s0, hs0⟩ hrank hT
    obtain ⟨_, hTe, _⟩ := closed_next_some hc hr hT
    have h0 : phi term k s0 < hh := hrank s0 hs0
    refine ⟨hh - 1, by omega, ?_⟩
    intro t ht
    obtain ⟨s, hs, hlt⟩ := nextState_phi term k p0 X _ t ((hTe t).mp ht)
    have := hrank s hs
    omega
  · rintro q ⟨X, rfl, hr, _⟩ s hs
    have hp := hproper X hr s hs
    simp only [phi, levChain]
    omega

/-- **`next_valid_string` of a Levenshtein DFA is the successor function of its language**,
    whenever it returns. -/
theorem lev_nextValid (term : List Nat) (k p0 : Nat) (hv : Valid term) (d : DFA)
    (h : (levenshteinAutomaton term k p0).toDfa = some d)
    (chain : Nat) (hterm : ∀ s, Valid s → ∃ r, d.nextValidString chain s = .ok r) :
    NextValidSpec (fun t => d.accept (some d.initial) t) (d.nextValidString chain) := by
  obtain ⟨G, env, hG0, _⟩ := lev_env term k p0 hv d h
  intro s hvs
  obtain ⟨r, hr⟩ := hterm s hvs
  rcases nextValidString_ok env hG0 chain s hvs r hr with ⟨rfl, hno⟩ | ⟨m, rfl, ha, hle, hmin, hvm⟩
  · exact Or.inl ⟨hr, hno⟩
  · exact Or.inr ⟨m, hr, ha, hle, hmin, hvm⟩

/-- `next_valid_string` of a Levenshtein DFA always ends within the model's fuel. -/
theorem lev_nextValidString_terminates (term : List Nat) (k p0 : Nat) (hv : Valid term) (d : DFA)
    (h : (levenshteinAutomaton term k p0).toDfa = some d) (s : List Nat) (hvs : Valid s) :
    ∃ r, d.nextValidString (levChain term k) s = .ok r := by
  obtain ⟨G, env, hG0, rk⟩ := lev_env term k p0 hv d h
  exact nextValidString_terminates env rk hG0 _ (Nat.le_refl _) s hvs

/-- **`next_valid_string` of a Levenshtein DFA is the successor function of its language.** -/
theorem lev_nextValidSpec (term : List Nat) (k p0 : Nat) (hv : Valid term) (d : DFA)
    (h : (levenshteinAutomaton term k p0).toDfa = some d) :
    NextValidSpec (fun t => d.accept (some d.initial) t) (d.nextValidString (levChain term k)) :=
  lev_nextValid term k p0 hv d h _ (lev_nextValidString_terminates term k p0 hv d h)

end WM.Lev
