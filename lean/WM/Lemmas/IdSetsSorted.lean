import WM.Lemmas.IdSetsBits
/-! Binary search and `SortedIntSet`. -/
set_option linter.unusedSimpArgs false
namespace WM.IdSets
open WM.Spec.IdSet (Sorted)

/-- `bisectBy` on a list on which `p` holds on a prefix and fails on the rest (within `[lo,hi)`):
    it never reads out of range and returns the boundary. -/
theorem bisectBy_spec {α} (p : α → Bool) (a : List α)
    (hmono : ∀ (i j : Nat) (hij : i < j) (hj : j < a.length), p a[j] = true → p (a[i]'(by omega)) = true) :
    ∀ (m lo hi : Nat), hi - lo = m → lo ≤ hi → hi ≤ a.length →
      ∃ r, bisectBy p a lo hi = .ok r ∧ lo ≤ r ∧ r ≤ hi ∧
        (∀ k (hk : k < a.length), lo ≤ k → k < r → p a[k] = true) ∧
        (∀ k (hk : k < a.length), r ≤ k → k < hi → p a[k] = false) := by
  intro m
  induction m using Nat.strongRecOn with
  | _ m ih =>
    intro lo hi hm hle hlen
    unfold bisectBy
    by_cases hlt : lo < hi
    · simp only [hlt, ↓reduceIte]
      have hmid : (lo + hi) / 2 < a.length := by omega
      rw [List.getElem?_eq_getElem hmid]
      simp only
      by_cases hp : p a[(lo + hi) / 2] = true
      · simp only [hp, ↓reduceIte]
        rcases ih (hi - ((lo + hi) / 2 + 1)) (by omega) ((lo + hi) / 2 + 1) hi rfl (by omega) hlen
          with ⟨r, hr, h1, h2, h3, h4⟩
        refine ⟨r, hr, by omega, h2, ?_, h4⟩
        intro k hk hlo hkr
        by_cases hk2 : (lo + hi) / 2 + 1 ≤ k
        · exact h3 k hk hk2 hkr
        · by_cases hk3 : k = (lo + hi) / 2
          · subst hk3; exact hp
          · exact hmono k ((lo + hi) / 2) (by omega) hmid hp
      · simp only [hp, ↓reduceIte]
        rcases ih ((lo + hi) / 2 - lo) (by omega) lo ((lo + hi) / 2) rfl (by omega) (by omega)
          with ⟨r, hr, h1, h2, h3, h4⟩
        refine ⟨r, hr, h1, by omega, h3, ?_⟩
        intro k hk hrk hkhi
        by_cases hk2 : k < (lo + hi) / 2
        · exact h4 k hk hrk hk2
        · cases hpk : p a[k]
          · rfl
          · by_cases hk3 : k = (lo + hi) / 2
            · subst hk3; exact absurd hpk hp
            · exact absurd (hmono ((lo + hi) / 2) k (by omega) hk hpk) hp
    · simp only [hlt, ↓reduceIte]
      refine ⟨lo, rfl, Nat.le_refl _, by omega, ?_, ?_⟩
      · intro k _ h1 h2; omega
      · intro k _ h1 h2; omega

theorem sorted_getElem {data : List Nat} (hs : Sorted data) {i j : Nat} (hij : i < j) (hj : j < data.length) :
    data[i]'(by omega) < data[j] :=
  (List.pairwise_iff_getElem.mp hs) i j (by omega) hj hij

/-- Binary search on a strictly ascending `Nat` list with a down-closed predicate. -/
theorem bisect_sorted {data : List Nat} (hs : Sorted data) (p : Nat → Bool)
    (hp : ∀ x y, x < y → p y = true → p x = true) :
    ∃ r, bisectBy p data 0 data.length = .ok r ∧ r ≤ data.length ∧
      (∀ k (hk : k < data.length), k < r → p data[k] = true) ∧
      (∀ k (hk : k < data.length), r ≤ k → p data[k] = false) := by
  rcases bisectBy_spec p data
      (fun i j hij hj h => hp _ _ (sorted_getElem hs hij hj) h)
      data.length 0 data.length rfl (Nat.zero_le _) (Nat.le_refl _) with ⟨r, hr, _, h2, h3, h4⟩
  exact ⟨r, hr, h2, fun k hk h => h3 k hk (Nat.zero_le _) h, fun k hk h => h4 k hk h hk⟩

theorem bisectLeft_sorted {data : List Nat} (hs : Sorted data) (x : Nat) :
    ∃ r, bisectLeft data x = .ok r ∧ r ≤ data.length ∧
      (∀ k (hk : k < data.length), k < r → data[k] < x) ∧
      (∀ k (hk : k < data.length), r ≤ k → x ≤ data[k]) := by
  rcases bisect_sorted hs (· < x) (fun a b hab h => by simp only [decide_eq_true_eq] at h ⊢; omega)
    with ⟨r, hr, h1, h2, h3⟩
  refine ⟨r, hr, h1, ?_, ?_⟩
  · intro k hk h; simpa using h2 k hk h
  · intro k hk h; have := h3 k hk h; simp only [decide_eq_false_iff_not] at this; omega

theorem head?_eq_getElem {l : List Nat} {x : Nat} (h : l.head? = some x) :
    ∃ hl : 0 < l.length, l[0] = x := by
  cases l with
  | nil => simp at h
  | cons a t => simp at h; exact ⟨by simp, h⟩

theorem getLast?_eq_getElem {l : List Nat} {x : Nat} (h : l.getLast? = some x) :
    ∃ hl : l.length - 1 < l.length, l[l.length - 1] = x := by
  rw [List.getLast?_eq_getElem?] at h
  have := List.getElem?_eq_some_iff.mp h
  exact this

theorem mem_iff_getElem' {l : List Nat} {x : Nat} : x ∈ l ↔ ∃ k, ∃ hk : k < l.length, l[k] = x :=
  List.mem_iff_getElem

/-- `i in sortedintset`. -/
theorem sisContains_spec {data : List Nat} (hs : Sorted data) (i : Nat) :
    sisContains data i = .ok (decide (i ∈ data)) := by
  unfold sisContains
  split
  · next mn mx hmn hmx =>
    rcases head?_eq_getElem hmn with ⟨h0, hmn'⟩
    rcases getLast?_eq_getElem hmx with ⟨hl, hmx'⟩
    by_cases hout : (decide (i < mn) || decide (i > mx)) = true
    · rw [if_pos hout]
      congr 1
      symm
      rw [decide_eq_false_iff_not]
      intro hmem
      rcases mem_iff_getElem'.mp hmem with ⟨k, hk, hki⟩
      simp only [Bool.or_eq_true, decide_eq_true_eq] at hout
      have h1 : data[0] ≤ data[k] := by
        by_cases hk0 : k = 0
        · subst hk0; exact Nat.le_refl _
        · exact Nat.le_of_lt (sorted_getElem hs (by omega) hk)
      have h2 : data[k] ≤ data[data.length - 1] := by
        by_cases hk0 : k = data.length - 1
        · subst hk0; exact Nat.le_refl _
        · exact Nat.le_of_lt (sorted_getElem hs (by omega) hl)
      omega
    · rw [if_neg hout]
      rcases bisectLeft_sorted hs i with ⟨r, hr, hrl, h1, h2⟩
      rw [hr]
      show (if r = data.length then _ else _) = _
      by_cases hrl' : r = data.length
      · rw [if_pos hrl']
        congr 1; symm
        rw [decide_eq_false_iff_not]
        intro hmem
        rcases mem_iff_getElem'.mp hmem with ⟨k, hk, hki⟩
        have := h1 k hk (by omega); omega
      · rw [if_neg hrl']
        have hr' : r < data.length := by omega
        rw [List.getElem?_eq_getElem hr']
        simp only
        congr 1
        by_cases hv : data[r] = i
        · have : i ∈ data := mem_iff_getElem'.mpr ⟨r, hr', hv⟩
          simp [hv, this]
        · have : i ∉ data := by
            intro hmem
            rcases mem_iff_getElem'.mp hmem with ⟨k, hk, hki⟩
            rcases Nat.lt_trichotomy k r with hlt | heq | hgt
            · have := h1 k hk hlt; omega
            · subst heq; exact hv hki
            · have := sorted_getElem hs hgt hk
              have := h2 r hr' (Nat.le_refl _); omega
          simp [hv, this]
  · next hnot =>
    have : data = [] := by
      cases data with
      | nil => rfl
      | cons a t =>
        exfalso
        have hne : (a :: t) ≠ [] := by simp
        exact hnot a ((a :: t).getLast hne) rfl (List.getLast?_eq_some_getLast hne)
    subst this
    simp

theorem mem_insertAt {l : List Nat} {pos x y : Nat} : y ∈ insertAt l pos x ↔ y = x ∨ y ∈ l := by
  unfold insertAt
  rw [List.mem_append, List.mem_cons]
  have : y ∈ l ↔ y ∈ l.take pos ∨ y ∈ l.drop pos := by
    rw [← List.mem_append, List.take_append_drop]
  rw [this]
  constructor
  · rintro (h | h | h) <;> simp [h]
  · rintro (h | h | h) <;> simp [h]

theorem mem_take_iff {l : List Nat} {r y : Nat} (hr : r ≤ l.length) :
    y ∈ l.take r ↔ ∃ k, ∃ hk : k < l.length, k < r ∧ l[k] = y := by
  rw [List.mem_iff_getElem]
  constructor
  · rintro ⟨k, hk, h⟩
    rw [List.length_take] at hk
    rw [List.getElem_take] at h
    exact ⟨k, by omega, by omega, h⟩
  · rintro ⟨k, hk, hkr, h⟩
    exact ⟨k, by rw [List.length_take]; omega, by rw [List.getElem_take]; exact h⟩

theorem mem_drop_iff {l : List Nat} {r y : Nat} :
    y ∈ l.drop r ↔ ∃ k, ∃ hk : k < l.length, r ≤ k ∧ l[k] = y := by
  rw [List.mem_iff_getElem]
  constructor
  · rintro ⟨k, hk, h⟩
    rw [List.length_drop] at hk
    rw [List.getElem_drop] at h
    exact ⟨r + k, by omega, by omega, h⟩
  · rintro ⟨k, hk, hkr, h⟩
    refine ⟨k - r, by rw [List.length_drop]; omega, ?_⟩
    rw [List.getElem_drop]
    have : r + (k - r) = k := by omega
    simp only [this]; exact h

theorem sorted_insertAt {data : List Nat} (hs : Sorted data) {r x : Nat} (hr : r ≤ data.length)
    (h1 : ∀ k (hk : k < data.length), k < r → data[k] < x)
    (h2 : ∀ k (hk : k < data.length), r ≤ k → x < data[k]) : Sorted (insertAt data r x) := by
  unfold insertAt Sorted
  have hs' : List.Pairwise (· < ·) (data.take r ++ data.drop r) := by
    rw [List.take_append_drop]; exact hs
  rw [List.pairwise_append] at hs' ⊢
  refine ⟨hs'.1, ?_, ?_⟩
  · apply List.pairwise_cons.mpr
    refine ⟨?_, hs'.2.1⟩
    intro y hy
    rcases mem_drop_iff.mp hy with ⟨k, hk, hrk, rfl⟩
    exact h2 k hk hrk
  · intro a ha b hb
    rcases (mem_take_iff hr).mp ha with ⟨k, hk, hkr, rfl⟩
    simp only [List.mem_cons] at hb
    rcases hb with rfl | hb
    · exact h1 k hk hkr
    · exact hs'.2.2 _ ha _ hb

/-- `SortedIntSet.add` is ordered insertion. -/
theorem sisAdd_spec {data : List Nat} (hs : Sorted data) (i : Nat) :
    sisAdd data i = .ok (WM.Spec.IdSet.insert i data) := by
  have hins := WM.Spec.IdSet.sorted_insert (i := i) hs
  unfold sisAdd
  split
  · next mn mx hmn hmx =>
    rcases head?_eq_getElem hmn with ⟨h0, hmn'⟩
    rcases getLast?_eq_getElem hmx with ⟨hl, hmx'⟩
    have hlo : ∀ k (hk : k < data.length), mn ≤ data[k] := by
      intro k hk
      by_cases hk0 : k = 0
      · subst hk0; omega
      · have := sorted_getElem hs (i := 0) (j := k) (by omega) hk; omega
    have hhi : ∀ k (hk : k < data.length), data[k] ≤ mx := by
      intro k hk
      by_cases hk0 : k = data.length - 1
      · subst hk0; omega
      · have := sorted_getElem hs (i := k) (j := data.length - 1) (by omega) hl; omega
    by_cases hgt : i > mx
    · rw [if_pos hgt]
      congr 1
      apply WM.Spec.IdSet.sorted_ext _ hins
      · intro x; rw [WM.Spec.IdSet.mem_insert]; simp only [List.mem_append, List.mem_singleton]
        constructor <;> (rintro (h | h) <;> simp [h])
      · unfold Sorted
        rw [List.pairwise_append]
        refine ⟨hs, by simp, ?_⟩
        intro a ha b hb
        simp only [List.mem_singleton] at hb
        rcases mem_iff_getElem'.mp ha with ⟨k, hk, rfl⟩
        have := hhi k hk; omega
    · rw [if_neg hgt]
      by_cases heq : (decide (i = mn) || decide (i = mx)) = true
      · rw [if_pos heq]
        congr 1
        apply WM.Spec.IdSet.sorted_ext hs hins
        intro x; rw [WM.Spec.IdSet.mem_insert]
        have hmem : i ∈ data := by
          simp only [Bool.or_eq_true, decide_eq_true_eq] at heq
          rcases heq with h | h
          · exact mem_iff_getElem'.mpr ⟨0, h0, by omega⟩
          · exact mem_iff_getElem'.mpr ⟨data.length - 1, hl, by omega⟩
        constructor
        · intro h; exact Or.inr h
        · rintro (h | h)
          · rw [h]; exact hmem
          · exact h
      · rw [if_neg heq]
        simp only [Bool.or_eq_true, decide_eq_true_eq, not_or] at heq
        by_cases hlt : i < mn
        · rw [if_pos hlt]
          congr 1
          apply WM.Spec.IdSet.sorted_ext _ hins
          · intro x; rw [WM.Spec.IdSet.mem_insert]; simp
          · apply List.pairwise_cons.mpr
            refine ⟨?_, hs⟩
            intro a ha
            rcases mem_iff_getElem'.mp ha with ⟨k, hk, rfl⟩
            have := hlo k hk; omega
        · rw [if_neg hlt]
          rcases bisectLeft_sorted hs i with ⟨r, hr, hrl, h1, h2⟩
          rw [hr]
          have hr' : r < data.length := by
            apply Classical.byContradiction
            intro hnot
            have := h1 (data.length - 1) hl (by omega)
            omega
          show (match data[r]? with | none => _ | some v => _) = _
          rw [List.getElem?_eq_getElem hr']
          simp only
          by_cases hv : data[r] = i
          · have : (data[r] != i) = false := by simp [hv]
            rw [this]
            simp only [Bool.false_eq_true, ↓reduceIte]
            congr 1
            apply WM.Spec.IdSet.sorted_ext hs hins
            intro x; rw [WM.Spec.IdSet.mem_insert]
            have hmem : i ∈ data := mem_iff_getElem'.mpr ⟨r, hr', hv⟩
            constructor
            · intro h; exact Or.inr h
            · rintro (h | h)
              · rw [h]; exact hmem
              · exact h
          · have : (data[r] != i) = true := by simp [hv]
            rw [this]
            simp only [↓reduceIte]
            congr 1
            apply WM.Spec.IdSet.sorted_ext _ hins
            · intro x; rw [mem_insertAt, WM.Spec.IdSet.mem_insert]
            · apply sorted_insertAt hs hrl h1
              intro k hk hrk
              by_cases hkr : k = r
              · subst hkr; have := h2 k hk (Nat.le_refl _); omega
              · have := sorted_getElem hs (i := r) (j := k) (by omega) hk
                have := h2 r hr' (Nat.le_refl _); omega
  · next hnot =>
    have : data = [] := by
      cases data with
      | nil => rfl
      | cons a t =>
        exfalso
        have hne : (a :: t) ≠ [] := by simp
        exact hnot a ((a :: t).getLast hne) rfl (List.getLast?_eq_some_getLast hne)
    subst this
    rfl

/-- `SortedIntSet.discard` is removal. -/
theorem sisDiscard_spec {data : List Nat} (hs : Sorted data) (i : Nat) :
    sisDiscard data i = .ok (WM.Spec.IdSet.erase i data) := by
  have her := WM.Spec.IdSet.sorted_erase (i := i) hs
  unfold sisDiscard
  rcases bisectLeft_sorted hs i with ⟨r, hr, hrl, h1, h2⟩
  rw [hr]
  show (match data[r]? with | none => _ | some v => _) = _
  have hnotmem : (∀ (hr' : r < data.length), data[r] ≠ i) → i ∉ data := by
    intro hne hmem
    rcases mem_iff_getElem'.mp hmem with ⟨k, hk, hki⟩
    rcases Nat.lt_trichotomy k r with hlt | heq | hgt
    · have := h1 k hk hlt; omega
    · subst heq; exact hne hk hki
    · have hr' : r < data.length := by omega
      have := sorted_getElem hs hgt hk
      have := h2 r hr' (Nat.le_refl _); omega
  have hsame : i ∉ data → data = WM.Spec.IdSet.erase i data := by
    intro hn
    unfold WM.Spec.IdSet.erase
    symm
    rw [List.filter_eq_self]
    intro x hx
    have : x ≠ i := fun h => hn (h ▸ hx)
    simpa using this
  by_cases hr' : r < data.length
  · rw [List.getElem?_eq_getElem hr']
    simp only
    by_cases hv : data[r] = i
    · have : (data[r] == i) = true := by simp [hv]
      rw [this]; simp only [↓reduceIte]
      congr 1
      apply WM.Spec.IdSet.sorted_ext _ her
      · intro x
        rw [WM.Spec.IdSet.mem_erase, List.mem_eraseIdx_iff_getElem]
        constructor
        · rintro ⟨k, hk, hkr, rfl⟩
          refine ⟨List.getElem_mem hk, ?_⟩
          rw [← hv]
          rcases Nat.lt_or_gt_of_ne hkr with h | h
          · have := sorted_getElem hs h hr'; omega
          · have := sorted_getElem hs h hk; omega
        · rintro ⟨hx, hne⟩
          rcases mem_iff_getElem'.mp hx with ⟨k, hk, rfl⟩
          refine ⟨k, hk, ?_, rfl⟩
          intro hkr; subst hkr; exact hne hv
      · exact List.Pairwise.sublist (List.eraseIdx_sublist _ _) hs
    · have : (data[r] == i) = false := by simp [hv]
      rw [this]; simp only [Bool.false_eq_true, ↓reduceIte]
      congr 1
      exact hsame (hnotmem (fun _ => hv))
  · rw [List.getElem?_eq_none (by omega)]
    simp only
    congr 1
    exact hsame (hnotmem (fun h => absurd h hr'))

/-- `SortedIntSet.before`. -/
theorem sisBefore_spec {data : List Nat} (hs : Sorted data) (i : Int) :
    sisBefore data i = .ok (WM.Spec.IdSet.before data i) := by
  unfold sisBefore WM.Spec.IdSet.before
  rcases bisect_sorted hs (fun (x : Nat) => decide ((x : Int) < i))
    (fun a b hab h => by simp only [decide_eq_true_eq] at h ⊢; omega) with ⟨r, hr, hrl, h1, h2⟩
  rw [hr]
  show (if r < 1 then _ else _) = _
  by_cases hr0 : r < 1
  · rw [if_pos hr0]
    congr 1; symm
    rw [WM.Spec.IdSet.getLast?_filter_sorted_none]
    intro x hx
    rcases mem_iff_getElem'.mp hx with ⟨k, hk, rfl⟩
    exact h2 k hk (by omega)
  · rw [if_neg hr0]
    have hr' : r - 1 < data.length := by omega
    rw [List.getElem?_eq_getElem hr']
    simp only
    congr 1; symm
    rw [WM.Spec.IdSet.getLast?_filter_sorted hs]
    refine ⟨List.getElem_mem hr', h1 (r - 1) hr' (by omega), ?_⟩
    intro x hx hlt
    rcases mem_iff_getElem'.mp hx with ⟨k, hk, rfl⟩
    apply h2 k hk
    apply Classical.byContradiction
    intro hnot
    by_cases hk2 : k = r - 1
    · subst hk2; omega
    · have := sorted_getElem hs (i := k) (j := r - 1) (by omega) hr'; omega

/-- `SortedIntSet.after`. -/
theorem sisAfter_spec {data : List Nat} (hs : Sorted data) (i : Int) :
    sisAfter data i = .ok (WM.Spec.IdSet.after data i) := by
  unfold sisAfter WM.Spec.IdSet.after
  split
  · next mn mx hmn hmx =>
    rcases head?_eq_getElem hmn with ⟨h0, hmn'⟩
    rcases getLast?_eq_getElem hmx with ⟨hl, hmx'⟩
    have hhi : ∀ k (hk : k < data.length), data[k] ≤ mx := by
      intro k hk
      by_cases hk0 : k = data.length - 1
      · subst hk0; omega
      · have := sorted_getElem hs (i := k) (j := data.length - 1) (by omega) hl; omega
    by_cases hge : i ≥ (mx : Int)
    · rw [if_pos hge]
      congr 1; symm
      rw [List.find?_eq_none]
      intro x hx
      rcases mem_iff_getElem'.mp hx with ⟨k, hk, rfl⟩
      have := hhi k hk
      simp only [gt_iff_lt, decide_eq_true_eq]; omega
    · rw [if_neg hge]
      by_cases hlt : i < (mn : Int)
      · rw [if_pos hlt]
        congr 1; symm
        cases data with
        | nil => simp at h0
        | cons a t =>
          simp only [List.getElem_cons_zero] at hmn'
          subst hmn'
          rw [List.find?_cons]
          have : decide ((a : Int) > i) = true := by simpa using hlt
          rw [this]
      · rw [if_neg hlt]
        rcases bisect_sorted hs (fun (x : Nat) => decide ((x : Int) ≤ i))
          (fun a b hab h => by simp only [decide_eq_true_eq] at h ⊢; omega) with ⟨r, hr, hrl, h1, h2⟩
        rw [hr]
        have hr' : r < data.length := by
          apply Classical.byContradiction
          intro hnot
          have := h1 (data.length - 1) hl (by omega)
          simp only [decide_eq_true_eq] at this; omega
        show (match data[r]? with | none => _ | some v => _) = _
        rw [List.getElem?_eq_getElem hr']
        simp only
        congr 1; symm
        rw [WM.Spec.IdSet.find?_sorted hs]
        refine ⟨List.getElem_mem hr', ?_, ?_⟩
        · have := h2 r hr' (Nat.le_refl _)
          simp only [decide_eq_false_iff_not] at this
          simp only [gt_iff_lt, decide_eq_true_eq]; omega
        · intro x hx hlt'
          rcases mem_iff_getElem'.mp hx with ⟨k, hk, rfl⟩
          have hkr : k < r := by
            apply Classical.byContradiction
            intro hnot
            by_cases hk2 : k = r
            · subst hk2; omega
            · have := sorted_getElem hs (i := r) (j := k) (by omega) hk; omega
          have := h1 k hk hkr
          simp only [decide_eq_true_eq] at this
          simp only [gt_iff_lt, decide_eq_false_iff_not]; omega
  · next hnot =>
    have : data = [] := by
      cases data with
      | nil => rfl
      | cons a t =>
        exfalso
        have hne : (a :: t) ≠ [] := by simp
        exact hnot a ((a :: t).getLast hne) rfl (List.getLast?_eq_some_getLast hne)
    subst this
    rfl

end WM.IdSets
