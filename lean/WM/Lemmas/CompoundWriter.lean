import WM.Lemmas.Compound
import WM.Spec.CompoundWriter
/-! Helper lemmas: the sub-stream simulation (C20). -/
set_option linter.unusedSimpArgs false
namespace WM.C20
open WM.Compound

def Rel (temp : Bytes) (p : String × SubStream) (q : String × Bytes) : Prop :=
  p.1 = q.1 ∧ Good temp p.2 ∧ content temp p.2 = q.2

theorem forall₂_map {α β α' β'} {R : α → β → Prop} {R' : α' → β' → Prop} (f : α → α') (g : β → β') :
    ∀ {l₁ : List α} {l₂ : List β}, Forall2 R l₁ l₂ →
      (∀ a b, a ∈ l₁ → R a b → R' (f a) (g b)) → Forall2 R' (l₁.map f) (l₂.map g)
  | _, _, .nil, _ => .nil
  | _, _, .cons h t, hp =>
    .cons (hp _ _ (by simp) h) (forall₂_map f g t (fun a b ha hr => hp a b (List.mem_cons_of_mem _ ha) hr))

theorem forall₂_names {temp : Bytes} : ∀ {l₁ : List (String × SubStream)} {l₂ : List (String × Bytes)},
    Forall2 (Rel temp) l₁ l₂ → l₁.map (·.1) = l₂.map (·.1)
  | _, _, .nil => rfl
  | _, _, .cons h t => by simp [h.1, forall₂_names t]

theorem forall₂_append {α β} {R : α → β → Prop} : ∀ {l₁ : List α} {l₂ : List β} {a : α} {b : β},
    Forall2 R l₁ l₂ → R a b → Forall2 R (l₁ ++ [a]) (l₂ ++ [b])
  | _, _, _, _, .nil, h => .cons h .nil
  | _, _, _, _, .cons h t, h' => .cons h (forall₂_append t h')

theorem any_name_eq {β γ} (l₁ : List (String × β)) (l₂ : List (String × γ)) (name : String)
    (h : l₁.map (·.1) = l₂.map (·.1)) : l₁.any (·.1 == name) = l₂.any (·.1 == name) := by
  have h1 : l₁.any (·.1 == name) = (l₁.map (·.1)).any (· == name) := by rw [List.any_map]; rfl
  have h2 : l₂.any (·.1 == name) = (l₂.map (·.1)).any (· == name) := by rw [List.any_map]; rfl
  rw [h1, h2, h]

theorem upd_fst {β} (p : String × β) (name : String) (x : β) :
    (if (p.1 == name) = true then (name, x) else p).1 = p.1 := by
  by_cases hn : (p.1 == name) = true
  · rw [if_pos hn]; exact (by simpa using hn : p.1 = name).symm
  · rw [if_neg hn]

theorem names_upd {β} (l : List (String × β)) (name : String) (x : β) :
    (l.map fun p => if (p.1 == name) = true then (name, x) else p).map (·.1) = l.map (·.1) := by
  rw [List.map_map]
  apply List.map_congr_left
  intro p _
  exact upd_fst p name x

theorem rel_empty (temp : Bytes) (name : String) : Rel temp (name, ⟨[], []⟩) (name, []) :=
  ⟨rfl, by intro b hb; simp at hb, by simp [content]⟩

/-- One step keeps "every open stream holds what it was given" and the names distinct. -/
theorem step_rel (w : Writer) (s : List (String × Bytes)) (op : Op)
    (hrel : Forall2 (Rel w.temp) w.streams s) (hnd : (w.streams.map (·.1)).Nodup) :
    Forall2 (Rel (step w op).temp) (step w op).streams (specStep s op)
      ∧ ((step w op).streams.map (·.1)).Nodup := by
  have hnames := forall₂_names hrel
  cases op with
  | create name =>
    simp only [step, specStep, Writer.createFile]
    rw [← any_name_eq w.streams s name hnames]
    by_cases hany : w.streams.any (·.1 == name) = true
    · rw [if_pos hany, if_pos hany]
      refine ⟨?_, ?_⟩
      · apply forall₂_map _ _ hrel
        intro a b _ hr
        rw [← hr.1]
        by_cases hn : (a.1 == name) = true
        · rw [if_pos hn, if_pos hn]; exact rel_empty _ _
        · rw [if_neg hn, if_neg hn]; exact hr
      · show ((w.streams.map fun p => if (p.1 == name) = true then (name, (⟨[], []⟩ : SubStream)) else p).map (·.1)).Nodup
        rw [names_upd]; exact hnd
    · rw [if_neg hany, if_neg hany]
      refine ⟨forall₂_append hrel (rel_empty _ _), ?_⟩
      show ((w.streams ++ [(name, (⟨[], []⟩ : SubStream))]).map (·.1)).Nodup
      rw [List.map_append, List.nodup_append]
      refine ⟨hnd, by simp, ?_⟩
      intro a ha b hb
      simp only [List.map_cons, List.map_nil, List.mem_singleton] at hb
      subst hb
      intro hab
      apply hany
      rw [List.any_eq_true]
      rcases List.mem_map.mp ha with ⟨p, hp, hpn⟩
      exact ⟨p, hp, by simp [hpn, hab]⟩
  | write name data =>
    simp only [step, specStep, Writer.write]
    cases hfind : w.streams.find? (·.1 == name) with
    | none =>
      refine ⟨?_, hnd⟩
      have hnone : ∀ q ∈ s, ¬ (q.1 == name) = true := by
        intro q hq hqn
        have : name ∈ s.map (·.1) := List.mem_map.mpr ⟨q, hq, by simpa using hqn⟩
        rw [← hnames] at this
        rcases List.mem_map.mp this with ⟨p, hp, hpn⟩
        have := List.find?_eq_none.mp hfind p hp
        simp [hpn] at this
      have : (s.map fun p => if (p.1 == name) = true then (p.1, p.2 ++ data) else p) = s := by
        conv => rhs; rw [← List.map_id s]
        apply List.map_congr_left
        intro q hq
        rw [if_neg (hnone q hq)]; rfl
      rw [this]; exact hrel
    | some found =>
      rcases found with ⟨nm, ss⟩
      have hfmem := List.mem_of_find?_eq_some hfind
      have hfname : nm = name := by simpa using List.find?_some hfind
      -- distinct names: any stream called `name` is the one that was found
      have huniq : ∀ p ∈ w.streams, (p.1 == name) = true → p.2 = ss := by
        intro p hp hpn
        have hp1 : p.1 = name := by simpa using hpn
        have : ∀ (l : List (String × SubStream)), (l.map (·.1)).Nodup → p ∈ l → (nm, ss) ∈ l → p.2 = ss := by
          intro l
          induction l with
          | nil => intro _ h; simp at h
          | cons a t ih =>
            intro hn h1 h2
            simp only [List.map_cons, List.nodup_cons] at hn
            simp only [List.mem_cons] at h1 h2
            rcases h1 with h1 | h1 <;> rcases h2 with h2 | h2
            · rw [h1, ← h2]
            · exfalso; apply hn.1; rw [← h1, hp1, ← hfname]; exact List.mem_map.mpr ⟨(nm, ss), h2, rfl⟩
            · exfalso; apply hn.1; rw [← h2, hfname, ← hp1]; exact List.mem_map.mpr ⟨p, h1, rfl⟩
            · exact ih hn.2 h1 h2
        exact this w.streams hnd hp hfmem
      by_cases hflush : ((ss.buffer.length + data.length : Nat) : Int) ≥ w.buffersize
      · simp only [hflush, ↓reduceIte]
        refine ⟨?_, ?_⟩
        · apply forall₂_map _ _ hrel
          intro a b ha hr
          rw [← hr.1]
          by_cases hn : (a.1 == name) = true
          · rw [if_pos hn, if_pos hn]
            have ha2 := huniq a ha hn
            refine ⟨(by simpa using hn : a.1 = name).symm, ?_, ?_⟩
            · intro blk hblk
              simp only [List.mem_append, List.mem_singleton] at hblk
              rcases hblk with hblk | rfl
              · rcases hr.2.1 blk (by rw [ha2]; exact hblk) with ⟨off, len, rfl, hle⟩
                exact ⟨off, len, rfl, by simp; omega⟩
              · exact ⟨_, _, rfl, by simp⟩
            · show content (w.temp ++ ss.buffer ++ data) _ = b.2 ++ data
              rw [← hr.2.2, ha2]
              unfold content
              simp only [List.flatMap_append, List.flatMap_cons, List.flatMap_nil, List.append_nil, blockBytes]
              have hold : ss.blocks.flatMap (blockBytes (w.temp ++ ss.buffer ++ data) [])
                  = ss.blocks.flatMap (blockBytes w.temp ss.buffer) := by
                apply flatMap_congr'
                intro blk hblk
                rcases hr.2.1 blk (by rw [ha2]; exact hblk) with ⟨off, len, rfl, hle⟩
                simp only [blockBytes]
                rw [List.append_assoc]
                exact slice_append w.temp _ off len hle
              rw [hold]
              have hnew : ((w.temp ++ ss.buffer ++ data).drop w.temp.length).take (ss.buffer.length + data.length)
                  = ss.buffer ++ data := by
                rw [List.append_assoc, List.drop_left]
                rw [List.take_of_length_le (by simp)]
              rw [hnew]; simp
          · rw [if_neg hn, if_neg hn]
            have := content_append_temp w.temp (ss.buffer ++ data) a.2 hr.2.1
            rw [← List.append_assoc] at this
            exact ⟨hr.1, this.2, by rw [this.1]; exact hr.2.2⟩
        · show ((w.streams.map fun p => if (p.1 == name) = true then (name, _) else p).map (·.1)).Nodup
          rw [names_upd]; exact hnd
      · simp only [hflush, ↓reduceIte]
        refine ⟨?_, ?_⟩
        · apply forall₂_map _ _ hrel
          intro a b ha hr
          rw [← hr.1]
          by_cases hn : (a.1 == name) = true
          · rw [if_pos hn, if_pos hn]
            have ha2 := huniq a ha hn
            refine ⟨(by simpa using hn : a.1 = name).symm, ?_, ?_⟩
            · intro blk hblk
              exact hr.2.1 blk (by rw [ha2]; exact hblk)
            · show content w.temp _ = b.2 ++ data
              rw [← hr.2.2, ha2]
              unfold content
              simp only
              have hold : ss.blocks.flatMap (blockBytes w.temp (ss.buffer ++ data))
                  = ss.blocks.flatMap (blockBytes w.temp ss.buffer) := by
                apply flatMap_congr'
                intro blk hblk
                rcases hr.2.1 blk (by rw [ha2]; exact hblk) with ⟨off, len, rfl, _⟩
                rfl
              rw [hold]; simp
          · rw [if_neg hn, if_neg hn]
            exact hr
        · show ((w.streams.map fun p => if (p.1 == name) = true then (name, _) else p).map (·.1)).Nodup
          rw [names_upd]; exact hnd

end WM.C20
