import WM.Model.Collect
/-! Helper lemmas for C05: order facts, the sorted-list heap, the characterisation of the top k,
    and the loop invariant of `ScoredCollector.matches` + `TopCollector._collect`
    (DESIGN.md Appendix E, last paragraph). -/
namespace WM.Collect
open WM.Rank

theorem rankLe_total (a b : Hit) : (rankLe a b || rankLe b a) = true := by
  simp [rankLe]; grind

theorem rankLe_trans (a b c : Hit) : rankLe a b = true → rankLe b c = true → rankLe a c = true := by
  simp [rankLe]; grind

theorem rankLe_antisymm (a b : Hit) : rankLe a b = true → rankLe b a = true → a = b := by
  cases a; cases b; simp [rankLe]; grind

theorem rankLe_refl (a : Hit) : rankLe a a = true := by simp [rankLe]

theorem heapLe_eq_rankLe (a b : Hit) : heapLe a b = rankLe b a := by
  rw [Bool.eq_iff_iff]; simp [heapLe, rankLe]; grind

/-! ### top k of a bag split into winners and losers -/

theorem topK_of_split (k : Nat) (L R losers : List Hit)
    (hperm : L.Perm (R ++ losers))
    (hsorted : R.Pairwise (fun a b => rankLe a b = true))
    (hlen : R.length ≤ k)
    (hlos : ∀ l ∈ losers, R.length = k ∧ ∀ r ∈ R, rankLe r l = true) :
    topK k L = R := by
  have hs1 : (L.mergeSort rankLe).Pairwise (fun a b => rankLe a b = true) :=
    List.pairwise_mergeSort rankLe_trans rankLe_total L
  have hs2 : (losers.mergeSort rankLe).Pairwise (fun a b => rankLe a b = true) :=
    List.pairwise_mergeSort rankLe_trans rankLe_total losers
  have hp2 : (losers.mergeSort rankLe).Perm losers := List.mergeSort_perm losers rankLe
  have hs3 : (R ++ losers.mergeSort rankLe).Pairwise (fun a b => rankLe a b = true) := by
    rw [List.pairwise_append]
    refine ⟨hsorted, hs2, ?_⟩
    intro a ha b hb
    exact (hlos b (hp2.subset hb)).2 a ha
  have hp : (L.mergeSort rankLe).Perm (R ++ losers.mergeSort rankLe) :=
    (List.mergeSort_perm L rankLe).trans (hperm.trans (List.Perm.append_left R hp2.symm))
  have heq : L.mergeSort rankLe = R ++ losers.mergeSort rankLe :=
    List.Perm.eq_of_pairwise (fun a b _ _ h1 h2 => rankLe_antisymm a b h1 h2) hs1 hs3 hp
  unfold topK rankAll
  rw [heq]
  cases hl : losers with
  | nil =>
    simp only [List.mergeSort_nil, List.append_nil]
    exact List.take_of_length_le hlen
  | cons l ls =>
    have := (hlos l (by simp [hl])).1
    rw [← this]
    simp

/-! ### the heap -/

theorem heapPush_perm (e : Hit) (l : List Hit) : (heapPush e l).Perm (e :: l) := by
  induction l with
  | nil => simp [heapPush]
  | cons h t ih =>
    simp only [heapPush]
    split
    · exact List.Perm.refl _
    · exact (List.Perm.cons h ih).trans (List.Perm.swap e h t)

theorem heapPush_length (e : Hit) (l : List Hit) : (heapPush e l).length = l.length + 1 := by
  simpa using (heapPush_perm e l).length_eq

theorem mem_heapPush {e x : Hit} {l : List Hit} : x ∈ heapPush e l ↔ x = e ∨ x ∈ l := by
  rw [(heapPush_perm e l).mem_iff]; simp

theorem heapLe_total (a b : Hit) : heapLe a b = true ∨ heapLe b a = true := by
  have := rankLe_total a b
  rw [heapLe_eq_rankLe, heapLe_eq_rankLe]
  simp only [Bool.or_eq_true] at this
  exact this.symm

theorem heapLe_trans (a b c : Hit) : heapLe a b = true → heapLe b c = true → heapLe a c = true := by
  rw [heapLe_eq_rankLe, heapLe_eq_rankLe, heapLe_eq_rankLe]
  exact fun h1 h2 => rankLe_trans c b a h2 h1

theorem heapPush_sorted (e : Hit) (l : List Hit) (hl : l.Pairwise (fun a b => heapLe a b = true)) :
    (heapPush e l).Pairwise (fun a b => heapLe a b = true) := by
  induction l with
  | nil => simp [heapPush]
  | cons h t ih =>
    simp only [heapPush]
    split
    · next he =>
      rw [List.pairwise_cons]
      refine ⟨?_, hl⟩
      intro x hx
      rcases List.mem_cons.mp hx with rfl | hx
      · exact he
      · exact heapLe_trans e h x he (List.rel_of_pairwise_cons hl hx)
    · next he =>
      rw [List.pairwise_cons] at hl ⊢
      refine ⟨?_, ih hl.2⟩
      intro x hx
      rcases mem_heapPush.mp hx with rfl | hx
      · rcases heapLe_total x h with h1 | h1
        · exact absurd h1 he
        · exact h1
      · exact hl.1 x hx

/-! ### what the schedule may drop -/

theorem dropMasked_split (thr : Rat) (mask : List Bool) (m : List Posting) :
    ∃ d, (dropMasked thr mask m ++ d).Perm m ∧ (∀ p ∈ d, p.score ≤ thr) ∧
      (dropMasked thr mask m).Sublist m ∧ d.Sublist m := by
  induction m generalizing mask with
  | nil => exact ⟨[], by cases mask <;> simp [dropMasked]⟩
  | cons p ps ih =>
    cases mask with
    | nil => exact ⟨[], by simp [dropMasked]⟩
    | cons b bs =>
      obtain ⟨d, hp, hd, hs, hds⟩ := ih bs
      simp only [dropMasked]
      split
      · next hb =>
        refine ⟨p :: d, ?_, ?_, hs.cons p, hds.cons_cons p⟩
        · exact List.perm_middle.trans (List.Perm.cons p hp)
        · intro q hq
          rcases List.mem_cons.mp hq with rfl | hq
          · simp only [Bool.and_eq_true, decide_eq_true_eq] at hb; exact hb.2
          · exact hd q hq
      · exact ⟨d, List.Perm.cons p hp, hd, hs.cons_cons p, hds.cons p⟩

theorem skipDrop_split (thr : Rat) (n : Nat) (m : List Posting) :
    ∃ d, (d ++ (skipDrop thr n m).1) = m ∧ (∀ p ∈ d, p.score ≤ thr) := by
  induction n generalizing m with
  | zero => exact ⟨[], by simp [skipDrop]⟩
  | succ n ih =>
    cases m with
    | nil => exact ⟨[], by simp [skipDrop]⟩
    | cons p ps =>
      simp only [skipDrop]
      split
      · next hp =>
        obtain ⟨d, hd, hs⟩ := ih ps
        refine ⟨p :: d, by simp [hd], ?_⟩
        intro q hq
        rcases List.mem_cons.mp hq with rfl | hq
        · exact hp
        · exact hs q hq
      · exact ⟨[], by simp⟩

/-! ### the invariant of the collection loop (DESIGN.md Appendix E) -/

/-- `thr` is a threshold the collector may hand to the matcher: 0, or (heap full) a lower bound of
    every score on the heap. -/
def ThrOK (k : Nat) (items : List Hit) (thr : Rat) : Prop :=
  thr = 0 ∨ (items.length = k ∧ ∀ h ∈ items, thr ≤ h.score)

/-- The heap is sorted and holds at most `k` hits, all with document numbers below everything still
    to come (`fut`); every hit lost so far (dropped by the schedule or refused/evicted by the
    heap) is beaten by all `k` hits of a full heap. -/
structure Inv (k : Nat) (fut : List Nat) (st : TopState) (losers : List Hit) : Prop where
  sorted : st.items.Pairwise (fun a b => heapLe a b = true)
  len : st.items.length ≤ k
  docs : ∀ h ∈ st.items, ∀ g ∈ fut, h.doc < g
  beat : ∀ l ∈ losers, st.items.length = k ∧ ∀ h ∈ st.items, rankLe h l = true

theorem Inv.mono {k : Nat} {fut fut' : List Nat} {st : TopState} {losers : List Hit}
    (h : Inv k fut st losers) (hsub : ∀ g ∈ fut', g ∈ fut) : Inv k fut' st losers :=
  ⟨h.sorted, h.len, fun x hx g hg => h.docs x hx g (hsub g hg), h.beat⟩

/-- Hits dropped under a legal threshold join the losers. -/
theorem Inv.absorb {k : Nat} {fut : List Nat} {st : TopState} {losers : List Hit} {thr : Rat}
    (h : Inv k fut st losers) (hthr : ThrOK k st.items thr) (d : List Hit)
    (hd : ∀ x ∈ d, x.score ≤ thr ∧ 0 < x.score ∧ x.doc ∈ fut) : Inv k fut st (losers ++ d) := by
  refine ⟨h.sorted, h.len, h.docs, ?_⟩
  intro l hl
  rcases List.mem_append.mp hl with hl | hl
  · exact h.beat l hl
  · obtain ⟨h1, h2, h3⟩ := hd l hl
    rcases hthr with h0 | ⟨hfull, hall⟩
    · subst h0; grind
    · refine ⟨hfull, fun x hx => ?_⟩
      have hx1 := hall x hx
      have hx2 := h.docs x hx l.doc h3
      simp [rankLe]; grind

/-- One `TopCollector._collect` on the next hit in document order. -/
theorem collect_inv {k : Nat} (hk : 1 ≤ k) {fut : List Nat} {st : TopState} {losers : List Hit} (e : Hit)
    (hinv : Inv k (e.doc :: fut) st losers) (hfut : ∀ g ∈ fut, e.doc < g)
    (hmin : ThrOK k st.items st.minscore) :
    ∃ st' losers', st.collect k e = .ok st' ∧ Inv k fut st' losers' ∧
      (st'.items ++ losers').Perm (e :: (st.items ++ losers)) ∧
      ThrOK k st'.items st'.minscore ∧
      (∀ thr, ThrOK k st.items thr → ThrOK k st'.items thr) := by
  unfold TopState.collect
  by_cases hlt : st.items.length < k
  · -- the heap is not full: push
    simp only [hlt, if_true]
    have hnol : ∀ l ∈ losers, False := fun l hl => by have := (hinv.beat l hl).1; omega
    refine ⟨_, losers, rfl, ⟨?_, ?_, ?_, ?_⟩, ?_, ?_, ?_⟩
    · exact heapPush_sorted e _ hinv.sorted
    · simp only [heapPush_length]; omega
    · intro x hx g hg
      rcases mem_heapPush.mp hx with rfl | hx
      · exact hfut g hg
      · exact hinv.docs x hx g (List.mem_cons_of_mem _ hg)
    · intro l hl; exact (hnol l hl).elim
    · exact ((heapPush_perm e st.items).append_right losers)
    · rcases hmin with h0 | ⟨hf, _⟩
      · exact Or.inl h0
      · omega
    · intro thr hthr
      rcases hthr with h0 | ⟨hf, _⟩
      · exact Or.inl h0
      · omega
  · simp only [hlt, if_false]
    have hfull : st.items.length = k := by have := hinv.len; omega
    match hitems : st.items with
    | [] => simp [hitems] at hfull; omega
    | m :: rest =>
      have hsorted := hinv.sorted
      rw [hitems] at hsorted
      have hmle : ∀ x ∈ rest, heapLe m x = true := fun x hx => List.rel_of_pairwise_cons hsorted hx
      by_cases hadm : m.score < e.score
      · -- heapreplace
        simp only [hadm, if_true]
        have hne : heapPush e rest ≠ [] := by
          intro h; have := heapPush_length e rest; rw [h] at this; simp at this
        match hpush : heapPush e rest with
        | [] => exact absurd hpush hne
        | x :: xs =>
          have hps : (x :: xs).Pairwise (fun a b => heapLe a b = true) := by
            rw [← hpush]; exact heapPush_sorted e rest (List.Pairwise.of_cons hsorted)
          have hpp : (x :: xs).Perm (e :: rest) := by rw [← hpush]; exact heapPush_perm e rest
          have hlen : (x :: xs).length = k := by
            rw [hpp.length_eq]; rw [hitems] at hfull; simpa using hfull
          have hmem : ∀ y ∈ x :: xs, y = e ∨ y ∈ rest := fun y hy => by
            simpa using hpp.mem_iff.mp hy
          have hbeat_m : ∀ y ∈ x :: xs, rankLe y m = true := by
            intro y hy
            rcases hmem y hy with rfl | hy
            · simp [rankLe]; grind
            · rw [← heapLe_eq_rankLe]; exact hmle y hy
          refine ⟨_, m :: losers, rfl, ⟨hps, Nat.le_of_eq hlen, ?_, ?_⟩, ?_, ?_, ?_⟩
          · intro y hy g hg
            rcases hmem y hy with rfl | hy
            · exact hfut g hg
            · exact hinv.docs y (by rw [hitems]; exact List.mem_cons_of_mem _ hy) g (List.mem_cons_of_mem _ hg)
          · intro l hl
            refine ⟨hlen, fun y hy => ?_⟩
            rcases List.mem_cons.mp hl with rfl | hl
            · exact hbeat_m y hy
            · have hml : rankLe m l = true := (hinv.beat l hl).2 m (by rw [hitems]; simp)
              exact rankLe_trans y m l (hbeat_m y hy) hml
          · show (x :: xs ++ m :: losers).Perm (e :: (m :: rest ++ losers))
            have h1 : (x :: xs ++ m :: losers).Perm (e :: rest ++ m :: losers) := hpp.append_right _
            refine h1.trans ?_
            simp only [List.cons_append]
            refine List.Perm.cons e ?_
            exact (List.perm_middle).trans (List.Perm.refl _)
          · refine Or.inr ⟨hlen, fun y hy => ?_⟩
            rcases List.mem_cons.mp hy with rfl | hy
            · exact Rat.le_refl
            · have := List.rel_of_pairwise_cons hps hy
              simp [heapLe] at this; grind
          · intro thr hthr
            rcases hthr with h0 | ⟨_, hall⟩
            · exact Or.inl h0
            · refine Or.inr ⟨hlen, fun y hy => ?_⟩
              rcases hmem y hy with rfl | hy
              · have := hall m (by simp); grind
              · exact hall y (List.mem_cons_of_mem _ hy)
      · -- refused
        simp only [hadm, if_false]
        refine ⟨_, e :: losers, rfl, ⟨?_, ?_, ?_, ?_⟩, ?_, ?_, ?_⟩
        · simpa [hitems] using hinv.sorted
        · simpa [hitems] using hinv.len
        · intro y hy g hg
          exact hinv.docs y (by simpa [hitems] using hy) g (List.mem_cons_of_mem _ hg)
        · intro l hl
          refine ⟨by simpa [hitems] using hfull, fun y hy => ?_⟩
          rcases List.mem_cons.mp hl with rfl | hl
          · have hy' : y ∈ st.items := by rw [hitems]; exact hy
            have hdoc := hinv.docs y hy' l.doc (by simp)
            have hmy : m.score ≤ y.score := by
              rcases List.mem_cons.mp hy with rfl | hy
              · exact Rat.le_refl
              · have := hmle y hy; simp [heapLe] at this; grind
            simp [rankLe]; grind
          · exact (hinv.beat l hl).2 y (by rw [hitems]; exact hy)
        · show (m :: rest ++ e :: losers).Perm (e :: (m :: rest ++ losers))
          exact List.perm_middle
        · simpa [hitems] using hmin
        · intro thr hthr; simpa [hitems] using hthr

/-! ### the two optimisation phases only ever drop what the contract allows -/

theorem replacePhase_spec (cfg : Cfg) (selfMin : Rat) (step : Step) (m : List Posting) (lv : Locals)
    (tr : Trace) :
    ∃ d, ((replacePhase cfg selfMin step m lv tr).1 ++ d).Perm m ∧
      (replacePhase cfg selfMin step m lv tr).1.Sublist m ∧ d.Sublist m ∧
      (∀ p ∈ d, p.score ≤ replaceThreshold cfg lv) ∧
      ((replacePhase cfg selfMin step m lv tr).2.1.minscore = lv.minscore ∨
        (replacePhase cfg selfMin step m lv tr).2.1.minscore = selfMin) ∧
      ((replacePhase cfg selfMin step m lv tr).2.1.usequality = true →
        lv.usequality = true ∨ cfg.useFinal = false) ∧
      ((replacePhase cfg selfMin step m lv tr).2.2.2 = true →
        (replacePhase cfg selfMin step m lv tr).1 = []) := by
  have triv : ∃ d : List Posting, (m ++ d).Perm m ∧ m.Sublist m ∧ d.Sublist m ∧
      (∀ p ∈ d, p.score ≤ replaceThreshold cfg lv) :=
    ⟨[], by simp, List.Sublist.refl _, List.nil_sublist _, by simp⟩
  unfold replacePhase
  by_cases h1 : (cfg.replace != 0) = true
  · simp only [h1, if_true]
    by_cases h2 : (lv.replacecounter == 0 || selfMin != lv.minscore) = true
    · simp only [h2, if_true]
      obtain ⟨d, hp, hd, hs, hds⟩ := dropMasked_split (replaceThreshold cfg lv) step.mask m
      by_cases h3 : (dropMasked (replaceThreshold cfg lv) step.mask m).isEmpty = true
      · simp only [h3, if_true]
        refine ⟨d, hp, hs, hds, hd, by simp, fun h => Or.inl h, fun _ => ?_⟩
        simpa using h3
      · simp only [h3]
        refine ⟨d, hp, hs, hds, hd, ?_, ?_, by simp⟩
        · by_cases h4 : (selfMin != lv.minscore) = true
          · simp [h4]
          · simp [h4]
        · intro hu
          right
          by_cases h4 : (selfMin != lv.minscore) = true
          · simp [h4, useBlockQuality] at hu
            exact hu.1.2
          · simp [h4, useBlockQuality] at hu
            exact hu.1.2
    · simp only [h2]
      obtain ⟨d, hp, hs, hds, hd⟩ := triv
      exact ⟨d, hp, hs, hds, hd, Or.inl rfl, fun h => Or.inl h, by simp⟩
  · simp only [h1]
    obtain ⟨d, hp, hs, hds, hd⟩ := triv
    exact ⟨d, hp, hs, hds, hd, Or.inl rfl, fun h => Or.inl h, by simp⟩

theorem skipPhase_spec (step : Step) (m : List Posting) (lv : Locals) (tr : Trace) :
    ∃ d, d ++ (skipPhase step m lv tr).1 = m ∧ (∀ p ∈ d, lv.usequality = true ∧ p.score ≤ lv.minscore) := by
  unfold skipPhase
  by_cases h : (lv.usequality && lv.checkquality) = true
  · simp only [h, if_true]
    obtain ⟨d, hd, hs⟩ := skipDrop_split lv.minscore step.skip m
    refine ⟨d, hd, fun p hp => ⟨?_, hs p hp⟩⟩
    simp only [Bool.and_eq_true] at h; exact h.1
  · simp only [h]
    exact ⟨[], by simp⟩

def futOf (off : Nat) (m : List Posting) : List Nat := m.map fun p => off + p.doc

theorem futOf_sublist {off : Nat} {a b : List Posting} (h : a.Sublist b) : (futOf off a).Sublist (futOf off b) :=
  h.map _

theorem toHit_doc (cfg : Cfg) (final : Nat → Rat → Rat) (off : Nat) (p : Posting) :
    (toHit cfg final off p).doc = off + p.doc := rfl

theorem toHit_score_nofinal (cfg : Cfg) (final : Nat → Rat → Rat) (off : Nat) (p : Posting)
    (h : cfg.useFinal = false) : (toHit cfg final off p).score = p.score := by
  simp [toHit, h]

/-- A consumer that, for every yielded posting, either hands the hit to `TopCollector._collect`
    (`keep`) or leaves the `TopCollector` alone (filtered out). `topOf` projects the `TopCollector`
    out of the consumer's state. Both `TopCollector` alone and the Filter/Terms stack are of this form. -/
structure FilterCollects {σ : Type} (cfg : Cfg) (final : Nat → Rat → Rat) (topOf : σ → TopState)
    (consume : σ → Nat → Posting → Except Err σ) (keep : Nat → Bool) : Prop where
  kept : ∀ c off p t', keep (off + p.doc) = true →
    (topOf c).collect cfg.limit (toHit cfg final off p) = .ok t' →
    ∃ c', consume c off p = .ok c' ∧ topOf c' = t'
  dropped : ∀ c off p, keep (off + p.doc) = false → ∃ c', consume c off p = .ok c' ∧ topOf c' = topOf c

def keepP (keep : Nat → Bool) (off : Nat) (p : Posting) : Bool := keep (off + p.doc)

/-- The hits of the postings `l` of one segment that pass the filter. -/
def keptMap (cfg : Cfg) (final : Nat → Rat → Rat) (keep : Nat → Bool) (off : Nat) (l : List Posting) : List Hit :=
  (l.filter (keepP keep off)).map (toHit cfg final off)

theorem keptMap_nil (cfg : Cfg) (final : Nat → Rat → Rat) (keep : Nat → Bool) (off : Nat) :
    keptMap cfg final keep off [] = [] := rfl

theorem keptMap_append (cfg : Cfg) (final : Nat → Rat → Rat) (keep : Nat → Bool) (off : Nat)
    (a b : List Posting) :
    keptMap cfg final keep off (a ++ b) = keptMap cfg final keep off a ++ keptMap cfg final keep off b := by
  simp [keptMap]

theorem keptMap_cons_pos (cfg : Cfg) (final : Nat → Rat → Rat) (keep : Nat → Bool) (off : Nat)
    (p : Posting) (l : List Posting) (h : keep (off + p.doc) = true) :
    keptMap cfg final keep off (p :: l) = toHit cfg final off p :: keptMap cfg final keep off l := by
  simp [keptMap, keepP, h]

theorem keptMap_cons_neg (cfg : Cfg) (final : Nat → Rat → Rat) (keep : Nat → Bool) (off : Nat)
    (p : Posting) (l : List Posting) (h : keep (off + p.doc) = false) :
    keptMap cfg final keep off (p :: l) = keptMap cfg final keep off l := by
  simp [keptMap, keepP, h]

theorem keptMap_perm (cfg : Cfg) (final : Nat → Rat → Rat) (keep : Nat → Bool) (off : Nat)
    {a b : List Posting} (h : a.Perm b) :
    (keptMap cfg final keep off a).Perm (keptMap cfg final keep off b) :=
  (h.filter _).map _

theorem mem_keptMap {cfg : Cfg} {final : Nat → Rat → Rat} {keep : Nat → Bool} {off : Nat}
    {l : List Posting} {x : Hit} (hx : x ∈ keptMap cfg final keep off l) :
    ∃ p ∈ l, x = toHit cfg final off p := by
  obtain ⟨p, hp, rfl⟩ := List.mem_map.mp hx
  exact ⟨p, (List.mem_filter.mp hp).1, rfl⟩

/-- The loop of one segment keeps the invariant and loses nothing but losers. -/
theorem matchesLoop_gen {σ : Type} (cfg : Cfg) (final : Nat → Rat → Rat) (topOf : σ → TopState)
    (consume : σ → Nat → Posting → Except Err σ) (keep : Nat → Bool)
    (hfc : FilterCollects cfg final topOf consume keep)
    (hk : 1 ≤ cfg.limit) (off : Nat) (later : List Nat) :
    ∀ (n : Nat) (m : List Posting), m.length = n →
    ∀ (sched : List Step) (lv : Locals) (c : σ) (tr : Trace) (losers : List Hit),
      Inv cfg.limit (futOf off m ++ later) (topOf c) losers →
      ThrOK cfg.limit (topOf c).items (topOf c).minscore →
      ThrOK cfg.limit (topOf c).items lv.minscore →
      (lv.usequality = true → cfg.useFinal = false) →
      (∀ p ∈ m, 0 < p.score) →
      (futOf off m ++ later).Pairwise (· < ·) →
      ∃ c' sched' tr' losers',
        matchesLoop cfg consume (fun c => (topOf c).minscore) off sched m lv c tr
          = .ok (c', sched', tr') ∧
        Inv cfg.limit later (topOf c') losers' ∧ ThrOK cfg.limit (topOf c').items (topOf c').minscore ∧
        ((topOf c').items ++ losers').Perm
          ((topOf c).items ++ losers ++ keptMap cfg final keep off m) := by
  intro n
  induction n using Nat.strongRecOn with
  | _ n ih =>
    intro m hmn sched lv c tr losers hinv hmin hloc huse hpos hasc
    rw [matchesLoop]
    by_cases hem : m.isEmpty = true
    · rw [if_pos hem]
      have : m = [] := by simpa using hem
      subst this
      refine ⟨c, sched, tr, losers, rfl, hinv.mono (by simp [futOf]), hmin, by simp [keptMap_nil]⟩
    · rw [if_neg hem]
      dsimp only
      -- replace phase
      obtain ⟨d1, hp1, hs1, hds1, hd1, hmin1, huse1, hbrk⟩ :=
        replacePhase_spec cfg (topOf c).minscore (sched.headD Step.none) m lv tr
      generalize hr : replacePhase cfg (topOf c).minscore (sched.headD Step.none) m lv tr = r at *
      have hthr1 : ThrOK cfg.limit (topOf c).items (replaceThreshold cfg lv) := by
        unfold replaceThreshold
        split
        · exact Or.inl rfl
        · exact hloc
      have hmemfut : ∀ p ∈ m, (toHit cfg final off p).doc ∈ futOf off m ++ later := by
        intro p hp
        apply List.mem_append_left
        exact List.mem_map.mpr ⟨p, hp, rfl⟩
      have hinv1 : Inv cfg.limit (futOf off m ++ later) (topOf c) (losers ++ keptMap cfg final keep off d1) := by
        apply hinv.absorb hthr1
        intro x hx
        obtain ⟨p, hp, rfl⟩ := mem_keptMap hx
        have hpm := hds1.subset hp
        have hsc := hd1 p hp
        have hps := hpos p hpm
        unfold replaceThreshold at hsc ⊢
        by_cases hf : (cfg.useFinal || !lv.supports) = true
        · simp only [hf, if_true] at hsc; grind
        · have hf' : cfg.useFinal = false := by
            simp only [Bool.or_eq_true, not_or, Bool.not_eq_true] at hf; exact hf.1
          simp only [hf] at hsc ⊢
          rw [toHit_score_nofinal cfg final off p hf']
          exact ⟨hsc, hps, hmemfut p hpm⟩
      have hperm1 : (keptMap cfg final keep off m).Perm (keptMap cfg final keep off r.1 ++ keptMap cfg final keep off d1) := by
        rw [← keptMap_append]
        exact (keptMap_perm cfg final keep off hp1).symm
      by_cases hb : r.2.2.2 = true
      · rw [if_pos hb]
        have hr1 : r.1 = [] := hbrk hb
        refine ⟨c, sched.tail, r.2.2.1, losers ++ keptMap cfg final keep off d1, rfl,
          hinv1.mono (fun g hg => List.mem_append_right _ hg), hmin, ?_⟩
        rw [hr1] at hperm1
        rw [keptMap_nil, List.nil_append] at hperm1
        rw [← List.append_assoc]
        exact List.Perm.append_left _ hperm1.symm
      · rw [if_neg hb]
        -- skip phase
        obtain ⟨d2, hd2eq, hd2⟩ := skipPhase_spec (sched.headD Step.none) r.1 r.2.1 r.2.2.1
        generalize hs : skipPhase (sched.headD Step.none) r.1 r.2.1 r.2.2.1 = s at *
        have huse2 : r.2.1.usequality = true → cfg.useFinal = false := by
          intro h
          rcases huse1 h with h | h
          · exact huse h
          · exact h
        have hloc1 : ThrOK cfg.limit (topOf c).items r.2.1.minscore := by
          rcases hmin1 with h | h
          · rw [h]; exact hloc
          · rw [h]; exact hmin
        have hs1sub : s.1.Sublist m := by
          have : s.1.Sublist r.1 := by rw [← hd2eq]; exact List.sublist_append_right _ _
          exact this.trans hs1
        have hd2sub : d2.Sublist m := by
          have : d2.Sublist r.1 := by rw [← hd2eq]; exact List.sublist_append_left _ _
          exact this.trans hs1
        have hinv2 : Inv cfg.limit (futOf off m ++ later) (topOf c) (losers ++ keptMap cfg final keep off d1 ++ keptMap cfg final keep off d2) := by
          apply hinv1.absorb hloc1
          intro x hx
          obtain ⟨p, hp, rfl⟩ := mem_keptMap hx
          have hpm := hd2sub.subset hp
          obtain ⟨hu, hsc⟩ := hd2 p hp
          rw [toHit_score_nofinal cfg final off p (huse2 hu)]
          exact ⟨hsc, hpos p hpm, hmemfut p hpm⟩
        have hperm2 : (keptMap cfg final keep off m).Perm (keptMap cfg final keep off d1 ++ keptMap cfg final keep off d2 ++ keptMap cfg final keep off s.1) := by
          refine hperm1.trans ?_
          have : keptMap cfg final keep off r.1 = keptMap cfg final keep off d2 ++ keptMap cfg final keep off s.1 := by
            rw [← hd2eq, keptMap_append]
          rw [this]
          refine (List.perm_append_comm).trans ?_
          rw [List.append_assoc]
        split
        · next hs1 =>
          refine ⟨c, sched.tail, s.2, _, rfl, hinv2.mono (fun g hg => List.mem_append_right _ hg), hmin, ?_⟩
          rw [hs1] at hperm2
          rw [keptMap_nil, List.append_nil] at hperm2
          rw [List.append_assoc, List.append_assoc]
          refine List.Perm.append_left _ (List.Perm.append_left _ ?_)
          exact hperm2.symm
        · next p rest hs1 =>
          have hsubfut : (futOf off (p :: rest) ++ later).Sublist (futOf off m ++ later) := by
            rw [← hs1]; exact (futOf_sublist hs1sub).append_right later
          have hasc' : (futOf off (p :: rest) ++ later).Pairwise (· < ·) := hasc.sublist hsubfut
          have hrl : rest.length < n := by
            have := hs1sub.length_le
            rw [hs1] at this
            simp only [List.length_cons] at this
            omega
          have hpos' : ∀ q ∈ rest, 0 < q.score := fun q hq =>
            hpos q (hs1sub.subset (by rw [hs1]; exact List.mem_cons_of_mem _ hq))
          have hasc'' : (futOf off rest ++ later).Pairwise (· < ·) := by
            simp only [futOf, List.map_cons, List.cons_append] at hasc'
            exact List.Pairwise.of_cons hasc'
          rw [hs1] at hperm2
          by_cases hkeep : keep (off + p.doc) = true
          · -- the hit goes to `_collect`
            have hinv3 : Inv cfg.limit ((toHit cfg final off p).doc :: (futOf off rest ++ later)) (topOf c)
                (losers ++ keptMap cfg final keep off d1 ++ keptMap cfg final keep off d2) :=
              hinv2.mono (fun g hg => hsubfut.subset (by simpa [futOf, toHit_doc] using hg))
            have hfut : ∀ g ∈ futOf off rest ++ later, (toHit cfg final off p).doc < g := by
              intro g hg
              simp only [futOf, List.map_cons, List.cons_append] at hasc'
              exact List.rel_of_pairwise_cons hasc' (by simpa [futOf] using hg)
            obtain ⟨t', losers', hc, hinv', hperm', hmin', hthr'⟩ :=
              collect_inv hk (toHit cfg final off p) hinv3 hfut hmin
            obtain ⟨c', hcons, htop⟩ := hfc.kept c off p t' hkeep hc
            simp only [hcons]
            subst htop
            obtain ⟨c'', sched'', tr'', losers'', hrun, hinv'', hmin'', hperm''⟩ :=
              ih rest.length hrl rest rfl sched.tail
                { r.2.1 with checkquality := nextFlag rest }
                c' s.2 losers' hinv' hmin' (hthr' _ hloc1) huse2 hpos' hasc''
            refine ⟨c'', sched'', tr'', losers'', hrun, hinv'', hmin'', ?_⟩
            refine hperm''.trans ?_
            have hFp : keptMap cfg final keep off (p :: rest) = toHit cfg final off p :: keptMap cfg final keep off rest :=
              keptMap_cons_pos cfg final keep off p rest hkeep
            rw [hFp] at hperm2
            have h1 : ((topOf c').items ++ losers' ++ keptMap cfg final keep off rest).Perm
                ((toHit cfg final off p) :: ((topOf c).items ++ (losers ++ keptMap cfg final keep off d1 ++ keptMap cfg final keep off d2)) ++ keptMap cfg final keep off rest) :=
              hperm'.append_right _
            refine h1.trans ?_
            have h2 : ((topOf c).items ++ losers ++ keptMap cfg final keep off m).Perm
                ((topOf c).items ++ losers ++ (keptMap cfg final keep off d1 ++ keptMap cfg final keep off d2 ++ (toHit cfg final off p :: keptMap cfg final keep off rest))) :=
              List.Perm.append_left _ hperm2
            refine List.Perm.trans ?_ h2.symm
            have h3 := (List.perm_middle (a := toHit cfg final off p)
              (l₁ := (topOf c).items ++ (losers ++ (keptMap cfg final keep off d1 ++ keptMap cfg final keep off d2)))
              (l₂ := keptMap cfg final keep off rest)).symm
            simpa [List.append_assoc] using h3
          · -- the hit is filtered out before it reaches the `TopCollector`
            have hkeep' : keep (off + p.doc) = false := by simpa using hkeep
            obtain ⟨c', hcons, htop⟩ := hfc.dropped c off p hkeep'
            simp only [hcons]
            have hinv3 : Inv cfg.limit (futOf off rest ++ later) (topOf c') (losers ++ keptMap cfg final keep off d1 ++ keptMap cfg final keep off d2) := by
              rw [htop]
              exact hinv2.mono (fun g hg => hsubfut.subset (by
                simp only [futOf, List.map_cons, List.cons_append]
                exact List.mem_cons_of_mem _ (by simpa [futOf] using hg)))
            obtain ⟨c'', sched'', tr'', losers'', hrun, hinv'', hmin'', hperm''⟩ :=
              ih rest.length hrl rest rfl sched.tail
                { r.2.1 with checkquality := nextFlag rest }
                c' s.2 (losers ++ keptMap cfg final keep off d1 ++ keptMap cfg final keep off d2) hinv3 (by rw [htop]; exact hmin)
                (by rw [htop]; exact hloc1) huse2 hpos' hasc''
            refine ⟨c'', sched'', tr'', losers'', hrun, hinv'', hmin'', ?_⟩
            refine hperm''.trans ?_
            rw [htop]
            have hFp : keptMap cfg final keep off (p :: rest) = keptMap cfg final keep off rest :=
              keptMap_cons_neg cfg final keep off p rest hkeep'
            rw [hFp] at hperm2
            have h2 : ((topOf c).items ++ losers ++ keptMap cfg final keep off m).Perm
                ((topOf c).items ++ losers ++ (keptMap cfg final keep off d1 ++ keptMap cfg final keep off d2 ++ keptMap cfg final keep off rest)) :=
              List.Perm.append_left _ hperm2
            refine List.Perm.trans ?_ h2.symm
            simp [List.append_assoc]

theorem globalDocs_cons (s : Seg) (segs : List Seg) :
    globalDocs (s :: segs) = futOf s.off s.postings ++ globalDocs segs := by
  simp [globalDocs, futOf]

theorem allHits_cons (cfg : Cfg) (final : Nat → Rat → Rat) (s : Seg) (segs : List Seg) :
    allHits cfg final (s :: segs) = s.postings.map (toHit cfg final s.off) ++ allHits cfg final segs := by
  simp [allHits]

/-- The hits of the query that pass the filter. -/
def keptHits (cfg : Cfg) (final : Nat → Rat → Rat) (keep : Nat → Bool) (segs : List Seg) : List Hit :=
  segs.flatMap fun s => keptMap cfg final keep s.off s.postings

theorem keptHits_cons (cfg : Cfg) (final : Nat → Rat → Rat) (keep : Nat → Bool) (s : Seg) (segs : List Seg) :
    keptHits cfg final keep (s :: segs) =
      keptMap cfg final keep s.off s.postings ++ keptHits cfg final keep segs := by
  simp [keptHits]

/-- `Collector.run` over all segments keeps the invariant. -/
theorem runSegs_gen {σ : Type} (cfg : Cfg) (final : Nat → Rat → Rat) (topOf : σ → TopState)
    (consume : σ → Nat → Posting → Except Err σ) (keep : Nat → Bool)
    (hfc : FilterCollects cfg final topOf consume keep) (hk : 1 ≤ cfg.limit) :
    ∀ (segs : List Seg) (sched : List Step) (c : σ) (tr : Trace) (losers : List Hit),
      Inv cfg.limit (globalDocs segs) (topOf c) losers →
      ThrOK cfg.limit (topOf c).items (topOf c).minscore →
      (∀ s ∈ segs, ∀ p ∈ s.postings, 0 < p.score) →
      (globalDocs segs).Pairwise (· < ·) →
      ∃ c' sched' tr' losers',
        runSegs cfg consume (fun c => (topOf c).minscore) segs sched c tr = .ok (c', sched', tr') ∧
        Inv cfg.limit [] (topOf c') losers' ∧
        ((topOf c').items ++ losers').Perm ((topOf c).items ++ losers ++ keptHits cfg final keep segs) := by
  intro segs
  induction segs with
  | nil =>
    intro sched c tr losers hinv _ _ _
    exact ⟨c, sched, tr, losers, rfl, hinv.mono (by simp), by simp [keptHits]⟩
  | cons s segs ih =>
    intro sched c tr losers hinv hmin hpos hasc
    rw [globalDocs_cons] at hinv hasc
    obtain ⟨c', sched', tr', losers', hrun, hinv', hmin', hperm'⟩ :=
      matchesLoop_gen cfg final topOf consume keep hfc hk s.off (globalDocs segs) s.postings.length
        s.postings rfl sched
        { supports := s.supports, minscore := (topOf c).minscore,
          usequality := useBlockQuality cfg s.supports, replacecounter := 0, checkquality := true }
        c { tr with supports := s.supports } losers hinv hmin hmin
        (by intro h; simp [useBlockQuality] at h; exact h.1.2)
        (hpos s (by simp)) hasc
    obtain ⟨c'', sched'', tr'', losers'', hrun', hinv'', hperm''⟩ :=
      ih sched' c' tr' losers' hinv' hmin'
        (fun s' hs' => hpos s' (List.mem_cons_of_mem _ hs'))
        (hasc.sublist (List.sublist_append_right _ _))
    refine ⟨c'', sched'', tr'', losers'', ?_, hinv'', ?_⟩
    · simp only [runSegs, hrun, hrun']
    · refine hperm''.trans ?_
      rw [keptHits_cons]
      refine (hperm'.append_right _).trans ?_
      simp [List.append_assoc]

/-- The end of the run: heap + losers is everything that passed the filter, so the heap read out
    in reverse is the top `k` of it. -/
theorem results_eq_topK {k : Nat} {st : TopState} {losers hits : List Hit}
    (hinv : Inv k [] st losers) (hperm : (st.items ++ losers).Perm hits) :
    st.results = topK k hits := by
  symm
  apply topK_of_split k _ _ losers
  · simp only [TopState.results]
    exact hperm.symm.trans ((List.reverse_perm _).symm.append_right _)
  · simp only [TopState.results, List.pairwise_reverse]
    refine hinv.sorted.imp ?_
    intro a b h
    rw [← heapLe_eq_rankLe]; exact h
  · simpa [TopState.results] using hinv.len
  · intro l hl
    obtain ⟨h1, h2⟩ := hinv.beat l hl
    exact ⟨by simpa [TopState.results] using h1, fun r hr => h2 r (by simpa [TopState.results] using hr)⟩

theorem inv_init (k : Nat) (fut : List Nat) : Inv k fut ({} : TopState) [] :=
  ⟨List.Pairwise.nil, Nat.zero_le _, fun h hh => by simp at hh, fun l hl => by simp at hl⟩

end WM.Collect
