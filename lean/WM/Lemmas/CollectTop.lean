import WM.Model.Collect
/-! Helper lemmas for C05: order facts, the sorted-list heap, the characterisation of the top k,
    and the loop invariant of `ScoredCollector.matches` + `TopCollector._collect`
    (DESIGN.md Appendix E, last paragraph). -/
namespace WM.Collect
open WM.Rank

theorem rankLe_total (a b : Hit) : (rankLe a b || rankLe b a) = true := by
  simp [rankLe]; grind

theorem rankLe_trans (a b c : Hit) : rankLe a b = true → rankLe b c = true → rankLe a c = true := by
  simp [rankLe]; grind

theorem rankLe_antisymm (a b : Hit) : rankLe a b = true → rankLe b a = true → a = b := by
  cases a; cases b; simp [rankLe]; grind

theorem rankLe_refl (a : Hit) : rankLe a a = true := by simp [rankLe]

theorem heapLe_eq_rankLe (a b : Hit) : heapLe a b = rankLe b a := by
  rw [Bool.eq_iff_iff]; simp [heapLe, rankLe]; grind

/-! ### top k of a bag split into winners and losers -/

theorem topK_of_split (k : Nat) (L R losers : List Hit)
    (hperm : L.Perm (R ++ losers))
    (hsorted : R.Pairwise (fun a b => rankLe a b = true))
    (hlen : R.length ≤ k)
    (hlos : ∀ l ∈ losers, R.length = k ∧ ∀ r ∈ R, rankLe r l = true) :
    topK k L = R := by
  have hs1 : (L.mergeSort rankLe).Pairwise (fun a b => rankLe a b = true) :=
    List.pairwise_mergeSort rankLe_trans rankLe_total L
  have hs2 : (losers.mergeSort rankLe).Pairwise (fun a b => rankLe a b = true) :=
    List.pairwise_mergeSort rankLe_trans rankLe_total losers
  have hp2 : (losers.mergeSort rankLe).Perm losers := List.mergeSort_perm losers rankLe
  have hs3 : (R ++ losers.mergeSort rankLe).Pairwise (fun a b => rankLe a b = true) := by
    rw [List.pairwise_append]
    refine ⟨hsorted, hs2, ?_⟩
    intro a ha b hb
    exact (hlos b (hp2.subset hb)).2 a ha
  have hp : (L.mergeSort rankLe).Perm (R ++ losers.mergeSort rankLe) :=
    (List.mergeSort_perm L rankLe).trans (hperm.trans (List.Perm.append_left R hp2.symm))
  have heq : L.mergeSort rankLe = R ++ losers.mergeSort rankLe :=
    List.Perm.eq_of_pairwise (fun a b _ _ h1 h2 => rankLe_antisymm a b h1 h2) hs1 hs3 hp
  unfold topK rankAll
  rw [heq]
  cases hl : losers with
  | nil =>
    simp only [List.mergeSort_nil, List.append_nil]
    exact List.take_of_length_le hlen
  | cons l ls =>
    have := (hlos l (by simp [hl])).1
    rw [← this]
    simp

/-! ### the heap -/

theorem heapPush_perm (e : Hit) (l : List Hit) : (heapPush e l).Perm (e :: l) := by
  induction l with
  | nil => simp [heapPush]
  | cons h t ih =>
    simp only [heapPush]
    split
    · exact List.Perm.refl _
    · exact (List.Perm.cons h ih).trans (List.Perm.swap e h t)

theorem heapPush_length (e : Hit) (l : List Hit) : (heapPush e l).length = l.length + 1 := by
  simpa using (heapPush_perm e l).length_eq

theorem mem_heapPush {e x : Hit} {l : List Hit} : x ∈ heapPush e l ↔ x = e ∨ x ∈ l := by
  rw [(heapPush_perm e l).mem_iff]; simp

theorem heapLe_total (a b : Hit) : heapLe a b = true ∨ heapLe b a = true := by
  have := rankLe_total a b
  rw [heapLe_eq_rankLe, heapLe_eq_rankLe]
  simp only [Bool.or_eq_true] at this
  exact this.symm

theorem heapLe_trans (a b c : Hit) : heapLe a b = true → heapLe b c = true → heapLe a c = true := by
  rw [heapLe_eq_rankLe, heapLe_eq_rankLe, heapLe_eq_rankLe]
  exact fun h1 h2 => rankLe_trans c b a h2 h1

theorem heapPush_sorted (e : Hit) (l : List Hit) (hl : l.Pairwise (fun a b => heapLe a b = true)) :
    (heapPush e l).Pairwise (fun a b => heapLe a b = true) := by
  induction l with
  | nil => simp [heapPush]
  | cons h t ih =>
    simp only [heapPush]
    split
    · next he =>
      rw [List.pairwise_cons]
      refine ⟨?_, hl⟩
      intro x hx
      rcases List.mem_cons.mp hx with rfl | hx
      · exact he
      · exact heapLe_trans e h x he (List.rel_of_pairwise_cons hl hx)
    · next he =>
      rw [List.pairwise_cons] at hl ⊢
      refine ⟨?_, ih hl.2⟩
      intro x hx
      rcases mem_heapPush.mp hx with rfl | hx
      · rcases heapLe_total x h with h1 | h1
        · exact absurd h1 he
        · exact h1
      · exact hl.1 x hx

/-! ### what the schedule may do to the pending postings -/

/-- `q` is the posting `p`, possibly with a lowered score — lowered only if `p` was at or below the
    (non-zero) threshold. -/
def DescOf (thr : Rat) (q p : Posting) : Prop :=
  q.doc = p.doc ∧ q.orig = p.orig ∧ q.newBlock = p.newBlock ∧ q.score ≤ p.score ∧
    (q = p ∨ (p.score ≤ thr ∧ thr ≠ 0))

/-- `m'` (kept, possibly lowered) and `d` (dropped) account for the pending list `m` after a call with
    threshold `thr` that abides by the contract. -/
structure Shrinks (thr : Rat) (m' d m : List Posting) : Prop where
  perm : (m'.map Posting.origP ++ d.map Posting.origP).Perm (m.map Posting.origP)
  docs : (m'.map (·.doc)).Sublist (m.map (·.doc))
  kept : ∀ q ∈ m', ∃ p ∈ m, DescOf thr q p
  dropped : ∀ q ∈ d, ∃ p ∈ m, DescOf thr q p ∧ p.score ≤ thr ∧ thr ≠ 0

theorem DescOf.refl (thr : Rat) (p : Posting) : DescOf thr p p :=
  ⟨rfl, rfl, rfl, Rat.le_refl, Or.inl rfl⟩

theorem DescOf.origP {thr : Rat} {q p : Posting} (h : DescOf thr q p) : q.origP = p.origP := by
  obtain ⟨h1, h2, h3, _, _⟩ := h
  cases q; cases p; simp_all [Posting.origP]

theorem DescOf.trans {thr : Rat} {q p1 p : Posting} (h1 : DescOf thr q p1) (h2 : DescOf thr p1 p) :
    DescOf thr q p := by
  obtain ⟨a1, a2, a3, a4, a5⟩ := h1
  obtain ⟨b1, b2, b3, b4, b5⟩ := h2
  refine ⟨a1.trans b1, a2.trans b2, a3.trans b3, Rat.le_trans a4 b4, ?_⟩
  rcases a5 with rfl | ⟨c1, c2⟩
  · exact b5
  · right
    rcases b5 with rfl | b5
    · exact ⟨c1, c2⟩
    · exact b5

theorem Shrinks.refl (thr : Rat) (m : List Posting) : Shrinks thr m [] m :=
  ⟨by simp, List.Sublist.refl _, fun q hq => ⟨q, hq, DescOf.refl thr q⟩, fun q hq => by simp at hq⟩

theorem Shrinks.trans {thr : Rat} {m2 d2 m1 d1 m : List Posting}
    (h2 : Shrinks thr m2 d2 m1) (h1 : Shrinks thr m1 d1 m) : Shrinks thr m2 (d1 ++ d2) m := by
  refine ⟨?_, h2.docs.trans h1.docs, ?_, ?_⟩
  · have := h2.perm.append_right (d1.map Posting.origP)
    refine List.Perm.trans ?_ (this.trans h1.perm)
    simp only [List.map_append, List.append_assoc]
    exact List.Perm.append_left _ List.perm_append_comm
  · intro q hq
    obtain ⟨p1, hp1, hd1⟩ := h2.kept q hq
    obtain ⟨p, hp, hd⟩ := h1.kept p1 hp1
    exact ⟨p, hp, hd1.trans hd⟩
  · intro q hq
    rcases List.mem_append.mp hq with hq | hq
    · exact h1.dropped q hq
    · obtain ⟨p1, hp1, hd1, hle, hne⟩ := h2.dropped q hq
      obtain ⟨p, hp, hd⟩ := h1.kept p1 hp1
      refine ⟨p, hp, hd1.trans hd, ?_, hne⟩
      rcases hd.2.2.2.2 with rfl | ⟨h, _⟩
      · exact hle
      · exact h

theorem dropMasked_shrinks (thr : Rat) (mask : List Wish) (m : List Posting) :
    ∃ d, Shrinks thr (dropMasked thr mask m) d m := by
  induction m generalizing mask with
  | nil => exact ⟨[], by cases mask <;> simpa [dropMasked] using Shrinks.refl thr []⟩
  | cons p ps ih =>
    cases mask with
    | nil => exact ⟨[], by simpa [dropMasked] using Shrinks.refl thr (p :: ps)⟩
    | cons w ws =>
      obtain ⟨d, hs⟩ := ih ws
      -- keeping a descendant `q` of `p` in front
      have keepq : ∀ q, DescOf thr q p → Shrinks thr (q :: dropMasked thr ws ps) d (p :: ps) := by
        intro q hq
        refine ⟨?_, ?_, ?_, ?_⟩
        · simp only [List.map_cons, List.cons_append, hq.origP]
          exact List.Perm.cons _ hs.perm
        · simp only [List.map_cons, hq.1]
          exact hs.docs.cons_cons _
        · intro x hx
          rcases List.mem_cons.mp hx with rfl | hx
          · exact ⟨p, by simp, hq⟩
          · obtain ⟨y, hy, hd⟩ := hs.kept x hx
            exact ⟨y, List.mem_cons_of_mem _ hy, hd⟩
        · intro x hx
          obtain ⟨y, hy, hd⟩ := hs.dropped x hx
          exact ⟨y, List.mem_cons_of_mem _ hy, hd⟩
      simp only [dropMasked]
      split
      · next hb =>
        simp only [Bool.and_eq_true, decide_eq_true_eq, bne_iff_ne, ne_eq] at hb
        cases w with
        | keep => exact ⟨d, keepq p (DescOf.refl thr p)⟩
        | drop =>
          refine ⟨p :: d, ?_, hs.docs.cons _, ?_, ?_⟩
          · simp only [List.map_cons]
            exact List.perm_middle.trans (List.Perm.cons _ hs.perm)
          · intro x hx
            obtain ⟨y, hy, hd⟩ := hs.kept x hx
            exact ⟨y, List.mem_cons_of_mem _ hy, hd⟩
          · intro x hx
            rcases List.mem_cons.mp hx with rfl | hx
            · exact ⟨x, by simp, DescOf.refl thr x, hb.2, hb.1⟩
            · obtain ⟨y, hy, hd⟩ := hs.dropped x hx
              exact ⟨y, List.mem_cons_of_mem _ hy, hd⟩
        | lower s =>
          dsimp only
          split
          · next hsle =>
            exact ⟨d, keepq { p with score := s } ⟨rfl, rfl, rfl, hsle, Or.inr ⟨hb.2, hb.1⟩⟩⟩
          · exact ⟨d, keepq p (DescOf.refl thr p)⟩
      · exact ⟨d, keepq p (DescOf.refl thr p)⟩

theorem skipDrop_shrinks (thr : Rat) (hthr : thr ≠ 0) (n : Nat) (m : List Posting) :
    ∃ d, Shrinks thr (skipDrop thr n m).1 d m := by
  induction n generalizing m with
  | zero => exact ⟨[], by simpa [skipDrop] using Shrinks.refl thr m⟩
  | succ n ih =>
    cases m with
    | nil => exact ⟨[], by simpa [skipDrop] using Shrinks.refl thr []⟩
    | cons p ps =>
      simp only [skipDrop]
      split
      · next hp =>
        obtain ⟨d, hs⟩ := ih ps
        refine ⟨p :: d, ?_, hs.docs.cons _, ?_, ?_⟩
        · simp only [List.map_cons]
          exact List.perm_middle.trans (List.Perm.cons _ hs.perm)
        · intro x hx
          obtain ⟨y, hy, hd⟩ := hs.kept x hx
          exact ⟨y, List.mem_cons_of_mem _ hy, hd⟩
        · intro x hx
          rcases List.mem_cons.mp hx with rfl | hx
          · exact ⟨x, by simp, DescOf.refl thr x, hp, hthr⟩
          · obtain ⟨y, hy, hd⟩ := hs.dropped x hx
            exact ⟨y, List.mem_cons_of_mem _ hy, hd⟩
      · exact ⟨[], Shrinks.refl thr _⟩

/-! ### the invariant of the collection loop (DESIGN.md Appendix E) -/

/-- The heap is full and `b` is a lower bound of every score on it. -/
structure FullBound (k : Nat) (items : List Hit) (b : Rat) : Prop where
  full : items.length = k
  le : ∀ h ∈ items, b ≤ h.score

theorem FullBound.mono {k : Nat} {items : List Hit} {a b : Rat} (h : FullBound k items b) (hab : a ≤ b) :
    FullBound k items a :=
  ⟨h.full, fun x hx => Rat.le_trans hab (h.le x hx)⟩

/-- `thr` is a threshold the collector may hand to the matcher: 0, or (heap full) a lower bound of
    every score on the heap. -/
def ThrOK (k : Nat) (items : List Hit) (thr : Rat) : Prop :=
  thr = 0 ∨ FullBound k items thr

theorem ThrOK.mono {k : Nat} {items items' : List Hit} {thr : Rat} (h : ThrOK k items thr)
    (hm : ∀ b, FullBound k items b → FullBound k items' b) : ThrOK k items' thr := by
  rcases h with h | h
  · exact Or.inl h
  · exact Or.inr (hm _ h)

/-- The heap is sorted and holds at most `k` hits, all with document numbers below everything still
    to come (`fut`); every hit lost so far (dropped by the schedule or refused/evicted by the
    heap) is beaten by all `k` hits of a full heap. -/
structure Inv (k : Nat) (fut : List Nat) (st : TopState) (losers : List Hit) : Prop where
  sorted : st.items.Pairwise (fun a b => heapLe a b = true)
  len : st.items.length ≤ k
  docs : ∀ h ∈ st.items, ∀ g ∈ fut, h.doc < g
  beat : ∀ l ∈ losers, st.items.length = k ∧ ∀ h ∈ st.items, rankLe h l = true

theorem Inv.mono {k : Nat} {fut fut' : List Nat} {st : TopState} {losers : List Hit}
    (h : Inv k fut st losers) (hsub : ∀ g ∈ fut', g ∈ fut) : Inv k fut' st losers :=
  ⟨h.sorted, h.len, fun x hx g hg => h.docs x hx g (hsub g hg), h.beat⟩

theorem Inv.congr {k : Nat} {fut : List Nat} {st st' : TopState} {losers : List Hit}
    (h : Inv k fut st losers) (he : st'.items = st.items) : Inv k fut st' losers := by
  refine ⟨?_, ?_, ?_, ?_⟩ <;> rw [he]
  · exact h.sorted
  · exact h.len
  · exact h.docs
  · exact h.beat

/-- Hits whose score is a lower bound of a full heap, and that come later in document order, join
    the losers. -/
theorem Inv.absorb {k : Nat} {fut : List Nat} {st : TopState} {losers : List Hit}
    (h : Inv k fut st losers) (d : List Hit)
    (hd : ∀ x ∈ d, FullBound k st.items x.score ∧ x.doc ∈ fut) : Inv k fut st (losers ++ d) := by
  refine ⟨h.sorted, h.len, h.docs, ?_⟩
  intro l hl
  rcases List.mem_append.mp hl with hl | hl
  · exact h.beat l hl
  · obtain ⟨⟨hfull, hall⟩, h3⟩ := hd l hl
    refine ⟨hfull, fun x hx => ?_⟩
    have hx1 := hall x hx
    have hx2 := h.docs x hx l.doc h3
    simp [rankLe]; grind

/-- A hit at or below a lower bound of a full heap is refused: only `total` moves. -/
theorem collect_refuse {k : Nat} (hk : 1 ≤ k) (st : TopState) (e : Hit) {b : Rat}
    (hb : FullBound k st.items b) (he : e.score ≤ b) :
    st.collect k e = .ok { st with total := st.total + 1 } := by
  unfold TopState.collect
  have hnlt : ¬ st.items.length < k := by have := hb.full; omega
  simp only [hnlt, if_false]
  split
  · next h => have := hb.full; simp [h] at this; omega
  · next m rest h =>
    have hm : ¬ m.score < e.score := by
      have := hb.le m (by simp [h]); grind
    simp [hm]

/-- One `TopCollector._collect` on the next hit in document order. -/
theorem collect_inv {k : Nat} (hk : 1 ≤ k) {fut : List Nat} {st : TopState} {losers : List Hit} (e : Hit)
    (hinv : Inv k (e.doc :: fut) st losers) (hfut : ∀ g ∈ fut, e.doc < g)
    (hmin : ThrOK k st.items st.minscore) :
    ∃ st' losers', st.collect k e = .ok st' ∧ Inv k fut st' losers' ∧
      (st'.items ++ losers').Perm (e :: (st.items ++ losers)) ∧
      ThrOK k st'.items st'.minscore ∧
      (∀ b, FullBound k st.items b → FullBound k st'.items b) := by
  unfold TopState.collect
  by_cases hlt : st.items.length < k
  · -- the heap is not full: push
    simp only [hlt, if_true]
    have hnol : ∀ l ∈ losers, False := fun l hl => by have := (hinv.beat l hl).1; omega
    refine ⟨_, losers, rfl, ⟨?_, ?_, ?_, ?_⟩, ?_, ?_, ?_⟩
    · exact heapPush_sorted e _ hinv.sorted
    · simp only [heapPush_length]; omega
    · intro x hx g hg
      rcases mem_heapPush.mp hx with rfl | hx
      · exact hfut g hg
      · exact hinv.docs x hx g (List.mem_cons_of_mem _ hg)
    · intro l hl; exact (hnol l hl).elim
    · exact ((heapPush_perm e st.items).append_right losers)
    · rcases hmin with h0 | ⟨hf, _⟩
      · exact Or.inl h0
      · omega
    · intro b hb
      have := hb.full
      omega
  · simp only [hlt, if_false]
    have hfull : st.items.length = k := by have := hinv.len; omega
    match hitems : st.items with
    | [] => simp [hitems] at hfull; omega
    | m :: rest =>
      have hsorted := hinv.sorted
      rw [hitems] at hsorted
      have hmle : ∀ x ∈ rest, heapLe m x = true := fun x hx => List.rel_of_pairwise_cons hsorted hx
      by_cases hadm : m.score < e.score
      · -- heapreplace
        simp only [hadm, if_true]
        have hne : heapPush e rest ≠ [] := by
          intro h; have := heapPush_length e rest; rw [h] at this; simp at this
        match hpush : heapPush e rest with
        | [] => exact absurd hpush hne
        | x :: xs =>
          have hps : (x :: xs).Pairwise (fun a b => heapLe a b = true) := by
            rw [← hpush]; exact heapPush_sorted e rest (List.Pairwise.of_cons hsorted)
          have hpp : (x :: xs).Perm (e :: rest) := by rw [← hpush]; exact heapPush_perm e rest
          have hlen : (x :: xs).length = k := by
            rw [hpp.length_eq]; rw [hitems] at hfull; simpa using hfull
          have hmem : ∀ y ∈ x :: xs, y = e ∨ y ∈ rest := fun y hy => by
            simpa using hpp.mem_iff.mp hy
          have hbeat_m : ∀ y ∈ x :: xs, rankLe y m = true := by
            intro y hy
            rcases hmem y hy with rfl | hy
            · simp [rankLe]; grind
            · rw [← heapLe_eq_rankLe]; exact hmle y hy
          refine ⟨_, m :: losers, rfl, ⟨hps, Nat.le_of_eq hlen, ?_, ?_⟩, ?_, ?_, ?_⟩
          · intro y hy g hg
            rcases hmem y hy with rfl | hy
            · exact hfut g hg
            · exact hinv.docs y (by rw [hitems]; exact List.mem_cons_of_mem _ hy) g (List.mem_cons_of_mem _ hg)
          · intro l hl
            refine ⟨hlen, fun y hy => ?_⟩
            rcases List.mem_cons.mp hl with rfl | hl
            · exact hbeat_m y hy
            · have hml : rankLe m l = true := (hinv.beat l hl).2 m (by rw [hitems]; simp)
              exact rankLe_trans y m l (hbeat_m y hy) hml
          · show (x :: xs ++ m :: losers).Perm (e :: (m :: rest ++ losers))
            have h1 : (x :: xs ++ m :: losers).Perm (e :: rest ++ m :: losers) := hpp.append_right _
            refine h1.trans ?_
            simp only [List.cons_append]
            refine List.Perm.cons e ?_
            exact (List.perm_middle).trans (List.Perm.refl _)
          · refine Or.inr ⟨hlen, fun y hy => ?_⟩
            rcases List.mem_cons.mp hy with rfl | hy
            · exact Rat.le_refl
            · have := List.rel_of_pairwise_cons hps hy
              simp [heapLe] at this; grind
          · intro b hb
            obtain ⟨_, hall⟩ := hb
            refine ⟨hlen, fun y hy => ?_⟩
            rcases hmem y hy with rfl | hy
            · have := hall m (by simp); grind
            · exact hall y (List.mem_cons_of_mem _ hy)
      · -- refused
        simp only [hadm, if_false]
        refine ⟨_, e :: losers, rfl, ⟨?_, ?_, ?_, ?_⟩, ?_, ?_, ?_⟩
        · simpa [hitems] using hinv.sorted
        · simpa [hitems] using hinv.len
        · intro y hy g hg
          exact hinv.docs y (by simpa [hitems] using hy) g (List.mem_cons_of_mem _ hg)
        · intro l hl
          refine ⟨by simpa [hitems] using hfull, fun y hy => ?_⟩
          rcases List.mem_cons.mp hl with rfl | hl
          · have hy' : y ∈ st.items := by rw [hitems]; exact hy
            have hdoc := hinv.docs y hy' l.doc (by simp)
            have hmy : m.score ≤ y.score := by
              rcases List.mem_cons.mp hy with rfl | hy
              · exact Rat.le_refl
              · have := hmle y hy; simp [heapLe] at this; grind
            simp [rankLe]; grind
          · exact (hinv.beat l hl).2 y (by rw [hitems]; exact hy)
        · show (m :: rest ++ e :: losers).Perm (e :: (m :: rest ++ losers))
          exact List.perm_middle
        · simpa [hitems] using hmin
        · intro thr hthr; simpa [hitems] using hthr

/-! ### the two optimisation phases only ever do what the contract allows -/

theorem replacePhase_spec (cfg : Cfg) (selfMin : Rat) (step : Step) (m : List Posting) (lv : Locals)
    (tr : Trace) :
    ∃ d, Shrinks (replaceThreshold cfg lv) (replacePhase cfg selfMin step m lv tr).1 d m ∧
      ((replacePhase cfg selfMin step m lv tr).2.1.minscore = lv.minscore ∨
        (replacePhase cfg selfMin step m lv tr).2.1.minscore = selfMin) ∧
      ((replacePhase cfg selfMin step m lv tr).2.1.usequality = true →
        lv.usequality = true ∨ cfg.useFinal = false) ∧
      ((replacePhase cfg selfMin step m lv tr).2.2.2 = true →
        (replacePhase cfg selfMin step m lv tr).1 = []) := by
  unfold replacePhase
  by_cases h1 : (cfg.replace != 0) = true
  · simp only [h1, if_true]
    by_cases h2 : (lv.replacecounter == 0 || selfMin != lv.minscore) = true
    · simp only [h2, if_true]
      obtain ⟨d, hs⟩ := dropMasked_shrinks (replaceThreshold cfg lv) step.mask m
      by_cases h3 : (dropMasked (replaceThreshold cfg lv) step.mask m).isEmpty = true
      · simp only [h3, if_true]
        refine ⟨d, hs, by simp, fun h => Or.inl h, fun _ => ?_⟩
        simpa using h3
      · simp only [h3]
        refine ⟨d, hs, ?_, ?_, by simp⟩
        · by_cases h4 : (selfMin != lv.minscore) = true
          · simp [h4]
          · simp [h4]
        · intro hu
          right
          by_cases h4 : (selfMin != lv.minscore) = true
          · simp [h4, useBlockQuality] at hu
            exact hu.1.2
          · simp [h4, useBlockQuality] at hu
            exact hu.1.2
    · simp only [h2]
      exact ⟨[], Shrinks.refl _ m, Or.inl rfl, fun h => Or.inl h, by simp⟩
  · simp only [h1]
    exact ⟨[], Shrinks.refl _ m, Or.inl rfl, fun h => Or.inl h, by simp⟩

theorem skipPhase_spec (step : Step) (m : List Posting) (lv : Locals) (tr : Trace) :
    ∃ d thr, Shrinks thr (skipPhase step m lv tr).1 d m ∧
      (thr = 0 ∨ (lv.usequality = true ∧ thr = lv.minscore)) := by
  unfold skipPhase
  by_cases h : (lv.usequality && lv.checkquality && lv.minscore != 0) = true
  · simp only [h, if_true]
    simp only [Bool.and_eq_true, bne_iff_ne, ne_eq] at h
    obtain ⟨d1, hs1⟩ := skipDrop_shrinks lv.minscore h.2 step.skip m
    obtain ⟨d2, hs2⟩ := dropMasked_shrinks lv.minscore step.skipMask (skipDrop lv.minscore step.skip m).1
    exact ⟨d1 ++ d2, lv.minscore, hs2.trans hs1, Or.inr ⟨h.1.1, rfl⟩⟩
  · simp only [h]
    exact ⟨[], 0, Shrinks.refl 0 m, Or.inl rfl⟩

/-! ### pending postings whose score was lowered -/

/-- A pending posting never scores above its original score, and if it scores below, the heap is
    full of hits that score at least the original score (and there is no final hook). -/
def PendOK (cfg : Cfg) (items : List Hit) (p : Posting) : Prop :=
  p.score ≤ p.orig ∧ (p.score = p.orig ∨ (cfg.useFinal = false ∧ FullBound cfg.limit items p.orig))

theorem PendOK.mono {cfg : Cfg} {items items' : List Hit} {p : Posting} (h : PendOK cfg items p)
    (hm : ∀ b, FullBound cfg.limit items b → FullBound cfg.limit items' b) : PendOK cfg items' p := by
  obtain ⟨h1, h2⟩ := h
  refine ⟨h1, ?_⟩
  rcases h2 with h2 | ⟨h2, h3⟩
  · exact Or.inl h2
  · exact Or.inr ⟨h2, hm _ h3⟩

theorem origP_of_eq {p : Posting} (h : p.score = p.orig) : p.origP = p := by
  cases p; simp_all [Posting.origP]

theorem Shrinks.pendOK {cfg : Cfg} {items : List Hit} {thr : Rat} {m' d m : List Posting}
    (hs : Shrinks thr m' d m) (hthr : ThrOK cfg.limit items thr) (hf : thr ≠ 0 → cfg.useFinal = false)
    (hm : ∀ p ∈ m, PendOK cfg items p) :
    (∀ q ∈ m', PendOK cfg items q) ∧
    (∀ q ∈ d, cfg.useFinal = false ∧ FullBound cfg.limit items q.orig) := by
  have key : ∀ q p, p ∈ m → DescOf thr q p → p.score ≤ thr → thr ≠ 0 →
      cfg.useFinal = false ∧ FullBound cfg.limit items q.orig := by
    intro q p hp hd hle hne
    refine ⟨hf hne, ?_⟩
    rw [hd.2.1]
    obtain ⟨h1, h2⟩ := hm p hp
    rcases h2 with h2 | ⟨_, h2⟩
    · rcases hthr with h0 | hfb
      · exact absurd h0 hne
      · exact hfb.mono (by rw [← h2]; exact hle)
    · exact h2
  constructor
  · intro q hq
    obtain ⟨p, hp, hd⟩ := hs.kept q hq
    obtain ⟨h1, h2⟩ := hm p hp
    refine ⟨?_, ?_⟩
    · rw [hd.2.1]; exact Rat.le_trans hd.2.2.2.1 h1
    · rcases hd.2.2.2.2 with rfl | ⟨hle, hne⟩
      · exact h2
      · exact Or.inr (key q p hp hd hle hne)
  · intro q hq
    obtain ⟨p, hp, hd, hle, hne⟩ := hs.dropped q hq
    exact key q p hp hd hle hne

def futOf (off : Nat) (m : List Posting) : List Nat := m.map fun p => off + p.doc

theorem futOf_sublist {off : Nat} {a b : List Posting} (h : (a.map (·.doc)).Sublist (b.map (·.doc))) :
    (futOf off a).Sublist (futOf off b) := by
  have := h.map (fun d => off + d)
  simpa [futOf, List.map_map, Function.comp_def] using this

theorem toHit_doc (cfg : Cfg) (final : Nat → Rat → Rat) (off : Nat) (p : Posting) :
    (toHit cfg final off p).doc = off + p.doc := rfl

theorem toHit_score_nofinal (cfg : Cfg) (final : Nat → Rat → Rat) (off : Nat) (p : Posting)
    (h : cfg.useFinal = false) : (toHit cfg final off p).score = p.score := by
  simp [toHit, h]

/-- A consumer that, for every yielded posting, either hands the hit to `TopCollector._collect`
    (`keep`) or leaves the `TopCollector` alone (filtered out). `topOf` projects the `TopCollector`
    out of the consumer's state. Both `TopCollector` alone and the Filter/Terms stack are of this form. -/
structure FilterCollects {σ : Type} (cfg : Cfg) (final : Nat → Rat → Rat) (topOf : σ → TopState)
    (consume : σ → Nat → Posting → Except Err σ) (keep : Nat → Bool) : Prop where
  kept : ∀ c off p t', keep (off + p.doc) = true →
    (topOf c).collect cfg.limit (toHit cfg final off p) = .ok t' →
    ∃ c', consume c off p = .ok c' ∧ topOf c' = t'
  dropped : ∀ c off p, keep (off + p.doc) = false → ∃ c', consume c off p = .ok c' ∧ topOf c' = topOf c

def keepP (keep : Nat → Bool) (off : Nat) (p : Posting) : Bool := keep (off + p.doc)

/-- The hits of the postings `l` of one segment that pass the filter. -/
def keptMap (cfg : Cfg) (final : Nat → Rat → Rat) (keep : Nat → Bool) (off : Nat) (l : List Posting) : List Hit :=
  (l.filter (keepP keep off)).map (toHit cfg final off)

/-- The same with every posting at its original score: what an exhaustive search sees. -/
def keptO (cfg : Cfg) (final : Nat → Rat → Rat) (keep : Nat → Bool) (off : Nat) (l : List Posting) : List Hit :=
  keptMap cfg final keep off (l.map Posting.origP)

theorem keptO_nil (cfg : Cfg) (final : Nat → Rat → Rat) (keep : Nat → Bool) (off : Nat) :
    keptO cfg final keep off [] = [] := rfl

theorem keptO_append (cfg : Cfg) (final : Nat → Rat → Rat) (keep : Nat → Bool) (off : Nat)
    (a b : List Posting) :
    keptO cfg final keep off (a ++ b) = keptO cfg final keep off a ++ keptO cfg final keep off b := by
  simp [keptO, keptMap]

theorem keptO_cons_pos (cfg : Cfg) (final : Nat → Rat → Rat) (keep : Nat → Bool) (off : Nat)
    (p : Posting) (l : List Posting) (h : keep (off + p.doc) = true) :
    keptO cfg final keep off (p :: l) = toHit cfg final off p.origP :: keptO cfg final keep off l := by
  simp [keptO, keptMap, keepP, Posting.origP, h]

theorem keptO_cons_neg (cfg : Cfg) (final : Nat → Rat → Rat) (keep : Nat → Bool) (off : Nat)
    (p : Posting) (l : List Posting) (h : keep (off + p.doc) = false) :
    keptO cfg final keep off (p :: l) = keptO cfg final keep off l := by
  simp [keptO, keptMap, keepP, Posting.origP, h]

theorem keptO_perm (cfg : Cfg) (final : Nat → Rat → Rat) (keep : Nat → Bool) (off : Nat)
    {a b : List Posting} (h : (a.map Posting.origP).Perm (b.map Posting.origP)) :
    (keptO cfg final keep off a).Perm (keptO cfg final keep off b) :=
  (h.filter _).map _

theorem mem_keptO {cfg : Cfg} {final : Nat → Rat → Rat} {keep : Nat → Bool} {off : Nat}
    {l : List Posting} {x : Hit} (hx : x ∈ keptO cfg final keep off l) :
    ∃ p ∈ l, x = toHit cfg final off p.origP := by
  obtain ⟨q, hq, rfl⟩ := List.mem_map.mp hx
  obtain ⟨p, hp, rfl⟩ := List.mem_map.mp (List.mem_filter.mp hq).1
  exact ⟨p, hp, rfl⟩

theorem keptO_fresh (cfg : Cfg) (final : Nat → Rat → Rat) (keep : Nat → Bool) (off : Nat)
    (l : List Posting) (h : ∀ p ∈ l, p.orig = p.score) :
    keptO cfg final keep off l = keptMap cfg final keep off l := by
  have : l.map Posting.origP = l := by
    conv => rhs; rw [← List.map_id l]
    exact List.map_congr_left fun p hp => origP_of_eq (h p hp).symm
  rw [keptO, this]

theorem Shrinks.keptO_perm {thr : Rat} {m' d m : List Posting} (hs : Shrinks thr m' d m)
    (cfg : Cfg) (final : Nat → Rat → Rat) (keep : Nat → Bool) (off : Nat) :
    (keptO cfg final keep off m).Perm (keptO cfg final keep off m' ++ keptO cfg final keep off d) := by
  rw [← keptO_append]
  exact (WM.Collect.keptO_perm cfg final keep off (by simpa using hs.perm)).symm

/-- The loop of one segment keeps the invariant and loses nothing but losers — where "nothing" is
    measured at the *original* scores, whatever the matcher lowered on the way. -/
theorem matchesLoop_gen {σ : Type} (cfg : Cfg) (final : Nat → Rat → Rat) (topOf : σ → TopState)
    (consume : σ → Nat → Posting → Except Err σ) (keep : Nat → Bool)
    (hfc : FilterCollects cfg final topOf consume keep)
    (hk : 1 ≤ cfg.limit) (off : Nat) (later : List Nat) :
    ∀ (n : Nat) (m : List Posting), m.length = n →
    ∀ (sched : List Step) (lv : Locals) (c : σ) (tr : Trace) (losers : List Hit),
      Inv cfg.limit (futOf off m ++ later) (topOf c) losers →
      ThrOK cfg.limit (topOf c).items (topOf c).minscore →
      ThrOK cfg.limit (topOf c).items lv.minscore →
      (lv.usequality = true → cfg.useFinal = false) →
      (futOf off m ++ later).Pairwise (· < ·) →
      (∀ p ∈ m, PendOK cfg (topOf c).items p) →
      ∃ c' sched' tr' losers',
        matchesLoop cfg consume (fun c => (topOf c).minscore) off sched m lv c tr
          = .ok (c', sched', tr') ∧
        Inv cfg.limit later (topOf c') losers' ∧ ThrOK cfg.limit (topOf c').items (topOf c').minscore ∧
        ((topOf c').items ++ losers').Perm
          ((topOf c).items ++ losers ++ keptO cfg final keep off m) := by
  intro n
  induction n using Nat.strongRecOn with
  | _ n ih =>
    intro m hmn sched lv c tr losers hinv hmin hloc huse hasc hpend
    rw [matchesLoop]
    by_cases hem : m.isEmpty = true
    · rw [if_pos hem]
      have : m = [] := by simpa using hem
      subst this
      refine ⟨c, sched, tr, losers, rfl, hinv.mono (by simp [futOf]), hmin, by simp [keptO_nil]⟩
    · rw [if_neg hem]
      dsimp only
      -- replace phase
      obtain ⟨d1, hsh1, hmin1, huse1, hbrk⟩ :=
        replacePhase_spec cfg (topOf c).minscore (sched.headD Step.none) m lv tr
      generalize hr : replacePhase cfg (topOf c).minscore (sched.headD Step.none) m lv tr = r at *
      have hthr1 : ThrOK cfg.limit (topOf c).items (replaceThreshold cfg lv) := by
        unfold replaceThreshold
        split
        · exact Or.inl rfl
        · exact hloc
      have hnf1 : replaceThreshold cfg lv ≠ 0 → cfg.useFinal = false := by
        intro hne
        unfold replaceThreshold at hne
        by_cases hf : (cfg.useFinal || !lv.supports) = true
        · simp [hf] at hne
        · simp only [Bool.or_eq_true, not_or, Bool.not_eq_true] at hf; exact hf.1
      obtain ⟨hpend1, hdrop1⟩ := hsh1.pendOK hthr1 hnf1 hpend
      have hdocfut : ∀ q p : Posting, p ∈ m → q.doc = p.doc →
          (toHit cfg final off q.origP).doc ∈ futOf off m ++ later := by
        intro q p hp hqp
        apply List.mem_append_left
        exact List.mem_map.mpr ⟨p, hp, by simp [toHit_doc, Posting.origP, hqp]⟩
      have hinv1 : Inv cfg.limit (futOf off m ++ later) (topOf c) (losers ++ keptO cfg final keep off d1) := by
        apply hinv.absorb
        intro x hx
        obtain ⟨q, hq, rfl⟩ := mem_keptO hx
        obtain ⟨hf', hfb⟩ := hdrop1 q hq
        obtain ⟨p, hp, hd, _⟩ := hsh1.dropped q hq
        refine ⟨?_, hdocfut q p hp hd.1⟩
        rw [toHit_score_nofinal cfg final off _ hf']
        exact hfb
      have hperm1 := hsh1.keptO_perm cfg final keep off
      by_cases hb : r.2.2.2 = true
      · rw [if_pos hb]
        have hr1 : r.1 = [] := hbrk hb
        refine ⟨c, sched.tail, r.2.2.1, losers ++ keptO cfg final keep off d1, rfl,
          hinv1.mono (fun g hg => List.mem_append_right _ hg), hmin, ?_⟩
        rw [hr1] at hperm1
        rw [keptO_nil, List.nil_append] at hperm1
        rw [← List.append_assoc]
        exact List.Perm.append_left _ hperm1.symm
      · rw [if_neg hb]
        -- skip phase
        obtain ⟨d2, thr2, hsh2, hthr2c⟩ := skipPhase_spec (sched.headD Step.none) r.1 r.2.1 r.2.2.1
        generalize hs : skipPhase (sched.headD Step.none) r.1 r.2.1 r.2.2.1 = s at *
        have huse2 : r.2.1.usequality = true → cfg.useFinal = false := by
          intro h
          rcases huse1 h with h | h
          · exact huse h
          · exact h
        have hloc1 : ThrOK cfg.limit (topOf c).items r.2.1.minscore := by
          rcases hmin1 with h | h
          · rw [h]; exact hloc
          · rw [h]; exact hmin
        have hthr2 : ThrOK cfg.limit (topOf c).items thr2 := by
          rcases hthr2c with h | ⟨_, h⟩
          · exact Or.inl h
          · rw [h]; exact hloc1
        have hnf2 : thr2 ≠ 0 → cfg.useFinal = false := by
          intro hne
          rcases hthr2c with h | ⟨hu, _⟩
          · exact absurd h hne
          · exact huse2 hu
        obtain ⟨hpend2, hdrop2⟩ := hsh2.pendOK hthr2 hnf2 hpend1
        have hdocs : (s.1.map (·.doc)).Sublist (m.map (·.doc)) := hsh2.docs.trans hsh1.docs
        have hmem1 : ∀ p ∈ r.1, ∃ p0 ∈ m, p.doc = p0.doc := by
          intro p hp
          obtain ⟨p0, hp0, hd⟩ := hsh1.kept p hp
          exact ⟨p0, hp0, hd.1⟩
        have hinv2 : Inv cfg.limit (futOf off m ++ later) (topOf c)
            (losers ++ keptO cfg final keep off d1 ++ keptO cfg final keep off d2) := by
          apply hinv1.absorb
          intro x hx
          obtain ⟨q, hq, rfl⟩ := mem_keptO hx
          obtain ⟨hf', hfb⟩ := hdrop2 q hq
          obtain ⟨p, hp, hd, _⟩ := hsh2.dropped q hq
          obtain ⟨p0, hp0, hpp0⟩ := hmem1 p hp
          refine ⟨?_, hdocfut q p0 hp0 (hd.1.trans hpp0)⟩
          rw [toHit_score_nofinal cfg final off _ hf']
          exact hfb
        have hperm2 : (keptO cfg final keep off m).Perm
            (keptO cfg final keep off d1 ++ keptO cfg final keep off d2 ++ keptO cfg final keep off s.1) := by
          refine hperm1.trans ?_
          refine ((hsh2.keptO_perm cfg final keep off).append_right _).trans ?_
          refine (List.perm_append_comm).trans ?_
          rw [List.append_assoc]
          exact List.Perm.append_left _ List.perm_append_comm
        split
        · next hs1 =>
          refine ⟨c, sched.tail, s.2, _, rfl, hinv2.mono (fun g hg => List.mem_append_right _ hg), hmin, ?_⟩
          rw [hs1] at hperm2
          rw [keptO_nil, List.append_nil] at hperm2
          rw [List.append_assoc, List.append_assoc]
          refine List.Perm.append_left _ (List.Perm.append_left _ ?_)
          exact hperm2.symm
        · next p rest hs1 =>
          have hsubfut : (futOf off (p :: rest) ++ later).Sublist (futOf off m ++ later) := by
            rw [← hs1]; exact (futOf_sublist hdocs).append_right later
          have hasc' : (futOf off (p :: rest) ++ later).Pairwise (· < ·) := hasc.sublist hsubfut
          have hrl : rest.length < n := by
            have := hdocs.length_le
            rw [hs1] at this
            simp only [List.length_map, List.length_cons] at this
            omega
          have hasc'' : (futOf off rest ++ later).Pairwise (· < ·) := by
            simp only [futOf, List.map_cons, List.cons_append] at hasc'
            exact List.Pairwise.of_cons hasc'
          rw [hs1] at hperm2 hpend2
          have hpp : PendOK cfg (topOf c).items p := hpend2 p (by simp)
          have hprest : ∀ q ∈ rest, PendOK cfg (topOf c).items q :=
            fun q hq => hpend2 q (List.mem_cons_of_mem _ hq)
          have hsubrest : ∀ g ∈ futOf off rest ++ later, g ∈ futOf off m ++ later := by
            intro g hg
            refine hsubfut.subset ?_
            simp only [futOf, List.map_cons, List.cons_append]
            exact List.mem_cons_of_mem _ (by simpa [futOf] using hg)
          have hpfut : (toHit cfg final off p.origP).doc ∈ futOf off m ++ later := by
            refine hsubfut.subset ?_
            simp [futOf, toHit_doc, Posting.origP]
          -- the way on when the `TopCollector`'s heap is untouched and the hit `p` joins the losers
          -- (or did not pass the filter: `extra = []`)
          have untouched : ∀ (c' : σ) (extra : List Hit),
              consume c off p = .ok c' → (topOf c').items = (topOf c).items →
              (topOf c').minscore = (topOf c).minscore →
              (∀ x ∈ extra, FullBound cfg.limit (topOf c).items x.score ∧ x.doc ∈ futOf off m ++ later) →
              (keptO cfg final keep off (p :: rest)).Perm (extra ++ keptO cfg final keep off rest) →
              ∃ c'' sched'' tr'' losers'',
                (match consume c off p with
                  | .error e => (.error e : Except Err (σ × List Step × Trace))
                  | .ok c1 =>
                    matchesLoop cfg consume (fun c => (topOf c).minscore) off sched.tail rest
                      { r.2.1 with checkquality := nextFlag rest } c1 s.2) = .ok (c'', sched'', tr'') ∧
                Inv cfg.limit later (topOf c'') losers'' ∧
                ThrOK cfg.limit (topOf c'').items (topOf c'').minscore ∧
                ((topOf c'').items ++ losers'').Perm
                  ((topOf c).items ++ losers ++ keptO cfg final keep off m) := by
            intro c' extra hcons hitems hminsc hextra hpermx
            simp only [hcons]
            have hinv3 : Inv cfg.limit (futOf off rest ++ later) (topOf c')
                (losers ++ keptO cfg final keep off d1 ++ keptO cfg final keep off d2 ++ extra) :=
              ((hinv2.absorb extra hextra).mono hsubrest).congr hitems
            obtain ⟨c'', sched'', tr'', losers'', hrun, hinv'', hmin'', hperm''⟩ :=
              ih rest.length hrl rest rfl sched.tail
                { r.2.1 with checkquality := nextFlag rest }
                c' s.2 _ hinv3 (by rw [hitems, hminsc]; exact hmin)
                (by rw [hitems]; exact hloc1) huse2 hasc'' (by rw [hitems]; exact hprest)
            refine ⟨c'', sched'', tr'', losers'', hrun, hinv'', hmin'', ?_⟩
            refine hperm''.trans ?_
            rw [hitems]
            have h2 : ((topOf c).items ++ losers ++ keptO cfg final keep off m).Perm
                ((topOf c).items ++ losers ++ (keptO cfg final keep off d1 ++ keptO cfg final keep off d2 ++
                  (extra ++ keptO cfg final keep off rest))) :=
              List.Perm.append_left _ (hperm2.trans (List.Perm.append_left _ hpermx))
            refine List.Perm.trans ?_ h2.symm
            simp [List.append_assoc]
          by_cases hkeep : keep (off + p.doc) = true
          · have hFp := keptO_cons_pos cfg final keep off p rest hkeep
            rcases hpp.2 with heq | ⟨hfin, hfb⟩
            · -- the hit goes to `_collect` with its original score
              have hpo : p.origP = p := origP_of_eq heq
              rw [hpo] at hFp
              have hinv3 : Inv cfg.limit ((toHit cfg final off p).doc :: (futOf off rest ++ later)) (topOf c)
                  (losers ++ keptO cfg final keep off d1 ++ keptO cfg final keep off d2) :=
                hinv2.mono (fun g hg => hsubfut.subset (by simpa [futOf, toHit_doc] using hg))
              have hfut : ∀ g ∈ futOf off rest ++ later, (toHit cfg final off p).doc < g := by
                intro g hg
                simp only [futOf, List.map_cons, List.cons_append] at hasc'
                exact List.rel_of_pairwise_cons hasc' (by simpa [futOf] using hg)
              obtain ⟨t', losers', hc, hinv', hperm', hmin', hfb'⟩ :=
                collect_inv hk (toHit cfg final off p) hinv3 hfut hmin
              obtain ⟨c', hcons, htop⟩ := hfc.kept c off p t' hkeep hc
              simp only [hcons]
              subst htop
              obtain ⟨c'', sched'', tr'', losers'', hrun, hinv'', hmin'', hperm''⟩ :=
                ih rest.length hrl rest rfl sched.tail
                  { r.2.1 with checkquality := nextFlag rest }
                  c' s.2 losers' hinv' hmin' (hloc1.mono hfb') huse2 hasc''
                  (fun q hq => (hprest q hq).mono hfb')
              refine ⟨c'', sched'', tr'', losers'', hrun, hinv'', hmin'', ?_⟩
              refine hperm''.trans ?_
              rw [hFp] at hperm2
              have h1 : ((topOf c').items ++ losers' ++ keptO cfg final keep off rest).Perm
                  ((toHit cfg final off p) :: ((topOf c).items ++ (losers ++ keptO cfg final keep off d1 ++ keptO cfg final keep off d2)) ++ keptO cfg final keep off rest) :=
                hperm'.append_right _
              refine h1.trans ?_
              have h2 : ((topOf c).items ++ losers ++ keptO cfg final keep off m).Perm
                  ((topOf c).items ++ losers ++ (keptO cfg final keep off d1 ++ keptO cfg final keep off d2 ++ (toHit cfg final off p :: keptO cfg final keep off rest))) :=
                List.Perm.append_left _ hperm2
              refine List.Perm.trans ?_ h2.symm
              have h3 := (List.perm_middle (a := toHit cfg final off p)
                (l₁ := (topOf c).items ++ (losers ++ (keptO cfg final keep off d1 ++ keptO cfg final keep off d2)))
                (l₂ := keptO cfg final keep off rest)).symm
              simpa [List.append_assoc] using h3
            · -- the matcher lowered the score of this posting: the full heap refuses it, as it
              -- would refuse the original score
              have hc : (topOf c).collect cfg.limit (toHit cfg final off p)
                  = .ok { topOf c with total := (topOf c).total + 1 } :=
                collect_refuse hk (topOf c) _ hfb (by
                  rw [toHit_score_nofinal cfg final off p hfin]; exact hpp.1)
              obtain ⟨c', hcons, htop⟩ := hfc.kept c off p _ hkeep hc
              refine untouched c' [toHit cfg final off p.origP] hcons (by rw [htop]) (by rw [htop]) ?_
                (by rw [hFp]; exact List.Perm.refl _)
              intro x hx
              have : x = toHit cfg final off p.origP := by simpa using hx
              subst this
              refine ⟨?_, hpfut⟩
              rw [toHit_score_nofinal cfg final off _ hfin]
              exact hfb
          · -- the hit is filtered out before it reaches the `TopCollector`
            have hkeep' : keep (off + p.doc) = false := by simpa using hkeep
            obtain ⟨c', hcons, htop⟩ := hfc.dropped c off p hkeep'
            refine untouched c' [] hcons (by rw [htop]) (by rw [htop]) (by simp) ?_
            rw [keptO_cons_neg cfg final keep off p rest hkeep']
            simp

theorem globalDocs_cons (s : Seg) (segs : List Seg) :
    globalDocs (s :: segs) = futOf s.off s.postings ++ globalDocs segs := by
  simp [globalDocs, futOf]

theorem allHits_cons (cfg : Cfg) (final : Nat → Rat → Rat) (s : Seg) (segs : List Seg) :
    allHits cfg final (s :: segs) = s.postings.map (toHit cfg final s.off) ++ allHits cfg final segs := by
  simp [allHits]

/-- The hits of the query that pass the filter. -/
def keptHits (cfg : Cfg) (final : Nat → Rat → Rat) (keep : Nat → Bool) (segs : List Seg) : List Hit :=
  segs.flatMap fun s => keptMap cfg final keep s.off s.postings

theorem keptHits_cons (cfg : Cfg) (final : Nat → Rat → Rat) (keep : Nat → Bool) (s : Seg) (segs : List Seg) :
    keptHits cfg final keep (s :: segs) =
      keptMap cfg final keep s.off s.postings ++ keptHits cfg final keep segs := by
  simp [keptHits]

/-- The postings a search starts from are at their original scores. -/
def Fresh (segs : List Seg) : Prop := ∀ s ∈ segs, ∀ p ∈ s.postings, p.orig = p.score

instance (segs : List Seg) : Decidable (Fresh segs) := by unfold Fresh; infer_instance

/-- `Collector.run` over all segments keeps the invariant. -/
theorem runSegs_gen {σ : Type} (cfg : Cfg) (final : Nat → Rat → Rat) (topOf : σ → TopState)
    (consume : σ → Nat → Posting → Except Err σ) (keep : Nat → Bool)
    (hfc : FilterCollects cfg final topOf consume keep) (hk : 1 ≤ cfg.limit) :
    ∀ (segs : List Seg) (sched : List Step) (c : σ) (tr : Trace) (losers : List Hit),
      Inv cfg.limit (globalDocs segs) (topOf c) losers →
      ThrOK cfg.limit (topOf c).items (topOf c).minscore →
      (globalDocs segs).Pairwise (· < ·) →
      Fresh segs →
      ∃ c' sched' tr' losers',
        runSegs cfg consume (fun c => (topOf c).minscore) segs sched c tr = .ok (c', sched', tr') ∧
        Inv cfg.limit [] (topOf c') losers' ∧
        ((topOf c').items ++ losers').Perm ((topOf c).items ++ losers ++ keptHits cfg final keep segs) := by
  intro segs
  induction segs with
  | nil =>
    intro sched c tr losers hinv _ _ _
    exact ⟨c, sched, tr, losers, rfl, hinv.mono (by simp), by simp [keptHits]⟩
  | cons s segs ih =>
    intro sched c tr losers hinv hmin hasc hfresh
    rw [globalDocs_cons] at hinv hasc
    have hfs : ∀ p ∈ s.postings, p.orig = p.score := hfresh s (by simp)
    obtain ⟨c', sched', tr', losers', hrun, hinv', hmin', hperm'⟩ :=
      matchesLoop_gen cfg final topOf consume keep hfc hk s.off (globalDocs segs) s.postings.length
        s.postings rfl sched
        { supports := s.supports, minscore := (topOf c).minscore,
          usequality := useBlockQuality cfg s.supports, replacecounter := 0, checkquality := true }
        c { tr with supports := s.supports } losers hinv hmin hmin
        (by intro h; simp [useBlockQuality] at h; exact h.1.2)
        hasc (fun p hp => ⟨by rw [hfs p hp]; exact Rat.le_refl, Or.inl (hfs p hp).symm⟩)
    rw [keptO_fresh cfg final keep s.off s.postings hfs] at hperm'
    obtain ⟨c'', sched'', tr'', losers'', hrun', hinv'', hperm''⟩ :=
      ih sched' c' tr' losers' hinv' hmin'
        (hasc.sublist (List.sublist_append_right _ _))
        (fun s' hs' => hfresh s' (List.mem_cons_of_mem _ hs'))
    refine ⟨c'', sched'', tr'', losers'', ?_, hinv'', ?_⟩
    · simp only [runSegs, hrun, hrun']
    · refine hperm''.trans ?_
      rw [keptHits_cons]
      refine (hperm'.append_right _).trans ?_
      simp [List.append_assoc]

/-- The end of the run: heap + losers is everything that passed the filter, so the heap read out
    in reverse is the top `k` of it. -/
theorem results_eq_topK {k : Nat} {st : TopState} {losers hits : List Hit}
    (hinv : Inv k [] st losers) (hperm : (st.items ++ losers).Perm hits) :
    st.results = topK k hits := by
  symm
  apply topK_of_split k _ _ losers
  · simp only [TopState.results]
    exact hperm.symm.trans ((List.reverse_perm _).symm.append_right _)
  · simp only [TopState.results, List.pairwise_reverse]
    refine hinv.sorted.imp ?_
    intro a b h
    rw [← heapLe_eq_rankLe]; exact h
  · simpa [TopState.results] using hinv.len
  · intro l hl
    obtain ⟨h1, h2⟩ := hinv.beat l hl
    exact ⟨by simpa [TopState.results] using h1, fun r hr => h2 r (by simpa [TopState.results] using hr)⟩

theorem inv_init (k : Nat) (fut : List Nat) : Inv k fut ({} : TopState) [] :=
  ⟨List.Pairwise.nil, Nat.zero_le _, fun h hh => by simp at hh, fun l hl => by simp at hl⟩

end WM.Collect
