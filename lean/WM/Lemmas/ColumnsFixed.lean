import WM.Lemmas.ColumnsBytes
import WM.Lemmas.ColumnsRows
/-! Fixed-width columns (`FixedBytesColumn`, `NumericColumn`, `StructColumn`). -/
namespace WM.Columns

/-- Rows of equal width: the file length gives the row count, slicing gives the row. -/
theorem flatten_uniform_length (k : Nat) (rows : List Bytes) (h : ∀ r ∈ rows, r.length = k) :
    rows.flatten.length = k * rows.length := by
  induction rows with
  | nil => simp
  | cons r rows ih =>
    simp only [List.flatten_cons, List.length_append, List.length_cons]
    rw [ih (fun x hx => h x (by simp [hx])), h r (by simp), Nat.mul_add, Nat.mul_one, Nat.add_comm]

theorem slice_uniform (k : Nat) (rows : List Bytes) (h : ∀ r ∈ rows, r.length = k) (d : Nat)
    (row : Bytes) (hr : rows[d]? = some row) : slice rows.flatten (k * d) k = row := by
  have hsum : ((rows.take d).map List.length).sum = k * d := by
    have hd : d < rows.length := (List.getElem?_eq_some_iff.mp hr).1
    have h1 := flatten_uniform_length k (rows.take d) (fun r hr' => h r (List.mem_of_mem_take hr'))
    rw [flatten_length_eq_sum, List.length_take, Nat.min_eq_left (by omega)] at h1
    exact h1
  have hk : row.length = k := h row (List.mem_of_getElem? hr)
  have := slice_flatten rows [] d row hr
  rw [hsum, hk, List.append_nil] at this
  exact this

/-- Writer invariant: the rows laid down so far, all of width `k`. -/
structure FixW.Inv (k : Nat) (w : FixW) (rows : List Bytes) : Prop where
  out : w.out = rows.flatten
  count : w.count = rows.length
  width : ∀ r ∈ rows, r.length = k

/-- The adds that are actually written (non-default ones), as `(docnum, bytes)`. -/
def written (adds : List (Nat × Bool × Bytes)) : List (Nat × Bytes) :=
  (adds.filter fun p => !p.2.1).map fun p => (p.1, p.2.2)

theorem written_increasing (adds : List (Nat × Bool × Bytes)) (h : Increasing adds) :
    Increasing (written adds) := by
  unfold written Increasing at *
  rw [List.pairwise_map]
  exact (h.filter _).imp (fun hab => hab)

theorem FixW.addAll_inv (k : Nat) (db : Bytes) (chk : Bool) (hdb : db.length = k)
    (adds : List (Nat × Bool × Bytes)) (w : FixW) (rows : List Bytes) (h : FixW.Inv k w rows)
    (hinc : Increasing adds) (hge : ∀ p ∈ adds, rows.length ≤ p.1)
    (hw : ∀ p ∈ adds, p.2.2.length = k) :
    ∃ w', FixW.addAll k db chk w adds = .ok w' ∧ FixW.Inv k w' (extendRows db rows (written adds)) := by
  induction adds generalizing w rows with
  | nil => exact ⟨w, rfl, by simpa [written, extendRows] using h⟩
  | cons p rest ih =>
    obtain ⟨d, isd, vb⟩ := p
    have hinc' : Increasing rest := (List.pairwise_cons.mp hinc).2
    have hgt : ∀ q ∈ rest, d < q.1 := fun q hq => (List.pairwise_cons.mp hinc).1 q hq
    have hd : rows.length ≤ d := hge (d, isd, vb) (by simp)
    have hvb : vb.length = k := hw (d, isd, vb) (by simp)
    cases isd with
    | true =>
      obtain ⟨w', h1, h2⟩ := ih w rows h hinc' (fun q hq => by have := hgt q hq; omega)
        (fun q hq => hw q (by simp [hq]))
      refine ⟨w', by simp [FixW.addAll, FixW.add, h1], ?_⟩
      simpa [written] using h2
    | false =>
      have hlen1 : (rows ++ List.replicate (d - rows.length) db ++ [vb]).length = d + 1 := by
        simp only [List.length_append, List.length_replicate, List.length_singleton]; omega
      have hout : (if d > w.count then FixW.fill db w d else w).out
          = rows.flatten ++ (List.replicate (d - rows.length) db).flatten := by
        by_cases hgtc : d > w.count
        · rw [if_pos hgtc]
          unfold FixW.fill
          rw [if_pos hgtc, h.out, h.count]
        · rw [if_neg hgtc, h.out]
          have : d - rows.length = 0 := by rw [← h.count]; omega
          simp [this]
      have hinv1 : FixW.Inv k
          { out := (if d > w.count then FixW.fill db w d else w).out ++ vb, count := d + 1 }
          (rows ++ List.replicate (d - rows.length) db ++ [vb]) := by
        constructor
        · simp only [hout]; simp
        · simp only [hlen1]
        · intro r hr
          simp only [List.mem_append, List.mem_replicate, List.mem_singleton] at hr
          rcases hr with (hr | ⟨_, rfl⟩) | rfl
          · exact h.width r hr
          · exact hdb
          · exact hvb
      obtain ⟨w', h1, h2⟩ := ih _ _ hinv1 hinc' (fun q hq => by rw [hlen1]; have := hgt q hq; omega)
        (fun q hq => hw q (by simp [hq]))
      refine ⟨w', ?_, by simpa [written, extendRows] using h2⟩
      have hchk : (chk && (vb.length != k)) = false := by simp [hvb]
      simp only [FixW.addAll, FixW.add, Bool.false_eq_true, if_false, hchk]
      exact h1

/-- What a fixed-width reader shows: the bytes of the last non-default add for the document, the
    default bytes otherwise. -/
theorem fixGet_rows (k : Nat) (hk : 0 < k) (db : Bytes) (rows : List Bytes)
    (hw : ∀ r ∈ rows, r.length = k) (d : Nat) :
    fixGet k db rows.flatten d = (rows[d]?).getD db := by
  unfold fixGet
  rw [flatten_uniform_length k rows hw, Nat.mul_div_cancel_left _ hk]
  by_cases hd : d ≥ rows.length
  · simp [hd, List.getElem?_eq_none hd]
  · simp only [hd, if_false]
    have hlt : d < rows.length := by omega
    rw [slice_uniform k rows hw d rows[d] (List.getElem?_eq_getElem hlt)]
    simp [List.getElem?_eq_getElem hlt]

/-- The rows on disk against the spec: non-default adds at their documents, default elsewhere —
    for every document number, also beyond the last row. -/
theorem extendRows_getD (db : Bytes) (ws : List (Nat × Bytes)) (hinc : Increasing ws) (d : Nat) :
    ((extendRows db [] ws)[d]?).getD db = cell db ws d := by
  obtain ⟨_, hall, _, hget⟩ := extendRows_spec db ws [] hinc (fun p _ => Nat.zero_le _)
  rw [hget d]
  simp only [List.length_nil, Nat.not_lt_zero, if_false]
  by_cases hd : d < (extendRows db [] ws).length
  · simp [hd]
  · simp only [hd, if_false, Option.getD_none]
    have : lookup ws d = none := by
      unfold lookup
      rw [List.find?_eq_none.mpr]
      · rfl
      · intro p hp; have := hall p hp; simp; omega
    simp [cell, this]

end WM.Columns

namespace WM.Columns

/-- Reading the spec off the list of adds that carry their "is default" flag. -/
theorem cell_written (db : Bytes) (adds : List (Nat × Bool × Bytes)) (hinc : Increasing adds) (d : Nat) :
    cell db (written adds) d = (match lookup adds d with
      | some (isd, vb) => if isd then db else vb
      | none => db) := by
  induction adds with
  | nil => rfl
  | cons p rest ih =>
    obtain ⟨d0, isd, vb⟩ := p
    have hinc' : Increasing rest := (List.pairwise_cons.mp hinc).2
    have hgt : ∀ q ∈ rest, d0 < q.1 := fun q hq => (List.pairwise_cons.mp hinc).1 q hq
    by_cases hd : d0 = d
    · subst hd
      rw [lookup_cons_eq]
      have hrest : lookup (written rest) d0 = none := by
        apply lookup_none_of_lt
        intro q hq
        simp only [written, List.mem_map, List.mem_filter] at hq
        obtain ⟨q', ⟨hq', _⟩, rfl⟩ := hq
        exact hgt q' hq'
      cases isd with
      | true => simp [written, cell] at hrest ⊢; simp [cell, written, hrest]
      | false =>
        have : written ((d0, false, vb) :: rest) = (d0, vb) :: written rest := by simp [written]
        rw [this]
        simp [cell, lookup_cons_eq]
    · rw [lookup_cons_ne d0 d _ rest hd, ← ih hinc']
      cases isd with
      | true => simp [written]
      | false =>
        have : written ((d0, false, vb) :: rest) = (d0, vb) :: written rest := by simp [written]
        rw [this]
        simp [cell, lookup_cons_ne d0 d vb _ hd]

theorem lookup_map {α β : Type} (f : α → β) (adds : List (Nat × α)) (d : Nat) :
    lookup (adds.map fun p => (p.1, f p.2)) d = (lookup adds d).map f := by
  induction adds with
  | nil => rfl
  | cons p rest ih =>
    obtain ⟨d0, v⟩ := p
    by_cases hd : d0 = d
    · subst hd; simp [lookup]
    · simp only [List.map_cons]
      rw [lookup_cons_ne d0 d _ _ hd, lookup_cons_ne d0 d _ _ hd, ih]

theorem increasing_map {α β : Type} (f : α → β) (adds : List (Nat × α)) (h : Increasing adds) :
    Increasing (adds.map fun p => (p.1, f p.2)) := by
  unfold Increasing at *
  rw [List.pairwise_map]
  exact h

/-! Integer packing -/

theorem NumCode.pow_size (c : NumCode) : 256 ^ c.size = c.modulus := by
  cases c <;> decide

theorem NumCode.pack_length (c : NumCode) (v : Int) (bs : Bytes) (h : c.pack v = .ok bs) :
    bs.length = c.size := by
  unfold NumCode.pack at h
  by_cases hr : c.lo ≤ v ∧ v ≤ c.hi
  · rw [if_pos hr] at h; cases h; exact be_length _ _
  · rw [if_neg hr] at h; cases h

/-- `struct.unpack ∘ struct.pack = id` on the values `pack` accepts. -/
theorem NumCode.unpack_pack (c : NumCode) (v : Int) (bs : Bytes) (h : c.pack v = .ok bs) :
    c.unpack bs = v := by
  unfold NumCode.pack at h
  by_cases hr : c.lo ≤ v ∧ v ≤ c.hi
  · rw [if_pos hr] at h
    cases h
    unfold NumCode.unpack
    have hlt : (if v < 0 then (v + (c.modulus : Int)).toNat else v.toNat) < 256 ^ c.size := by
      rw [c.pow_size]
      cases c <;> simp only [NumCode.lo, NumCode.hi, NumCode.modulus] at hr ⊢ <;> (split <;> omega)
    simp only [unbe_be _ _ hlt]
    by_cases hv : v < 0
    · simp only [hv, if_true]
      cases c <;> simp only [NumCode.lo, NumCode.hi, NumCode.modulus, NumCode.signed, if_true,
        Bool.false_eq_true, if_false] at hr ⊢ <;> first | omega | (split <;> omega)
    · simp only [hv, if_false]
      cases c <;> simp only [NumCode.lo, NumCode.hi, NumCode.modulus, NumCode.signed, if_true,
        Bool.false_eq_true, if_false] at hr ⊢ <;> first | omega | (split <;> omega)
  · rw [if_neg hr] at h; cases h

end WM.Columns

namespace WM.Columns

/-- The packed bytes of an in-range value (`[]` is never used: see `numWrite_eq`). -/
def packD (c : NumCode) (v : Int) : Bytes :=
  match c.pack v with
  | .ok b => b
  | .error _ => []

/-- `NumericColumn.Writer` is the fixed-width writer over the packed values. -/
theorem numWrite_eq (c : NumCode) (default : Int) (db : Bytes) (hdb : c.pack default = .ok db)
    (adds : List (Nat × Int)) (w : FixW) (hr : ∀ p ∈ adds, ∃ bs, c.pack p.2 = .ok bs) :
    numWrite c default w adds =
      match FixW.addAll c.size db false w (adds.map fun p => (p.1, decide (p.2 = default), packD c p.2)) with
      | .ok w' => .ok w'.out
      | .error e => .error e := by
  induction adds generalizing w with
  | nil => rfl
  | cons p rest ih =>
    obtain ⟨d, v⟩ := p
    have hr' : ∀ q ∈ rest, ∃ bs, c.pack q.2 = .ok bs := fun q hq => hr q (by simp [hq])
    simp only [numWrite, hdb, List.map_cons, FixW.addAll]
    by_cases hv : v = default
    · subst hv
      simp only [if_true, decide_true, FixW.add, if_true]
      exact ih w hr'
    · obtain ⟨vb, hvb⟩ := hr (d, v) (by simp)
      have hpd : packD c v = vb := by simp [packD, hvb]
      simp only [hv, if_false, hvb, decide_false, hpd]
      cases hadd : FixW.add c.size db false w d false vb with
      | error e => rfl
      | ok w' => exact ih w' hr'

theorem NumCode.size_pos (c : NumCode) : 0 < c.size := by cases c <;> decide

end WM.Columns
