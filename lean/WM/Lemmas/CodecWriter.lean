import WM.Lemmas.CodecBasic
/-! The writer in closed form: `W3PostingsWriter` writes the chunks of `split blocklimit ps`. -/
namespace WM.Codec

variable {ι μ : Type}

theorem bufOf_nil (c : Cfg ι μ) : bufOf c [] = {} := rfl

theorem Buf.add_bufOf (c : Cfg ι μ) (ch : List (Posting ι)) (p : Posting ι)
    (hv : c.ids.valid p.id = true) :
    Buf.add c (bufOf c ch) p = .ok (bufOf c (ch ++ [p])) := by
  unfold Buf.add
  simp only [hv, Bool.not_true, Bool.false_eq_true, if_false]
  congr 1
  simp only [bufOf, storedValues, minLen, maxLen, maxW, List.map_append, List.filter_append,
    List.foldl_append, List.map_cons, List.map_nil, List.foldl_cons, List.foldl_nil]
  congr 1
  by_cases h : p.value = [] <;> simp [h]

/-- Statistics after `add_block` of the chunk `ch`. -/
def tiAddCh (c : Cfg ι μ) (t : TermInfo ι) (ch : List (Posting ι)) : TermInfo ι :=
  { t with
    weight := t.weight + sumW c.f32 ch
    df := t.df + ch.length
    minlength := (match t.minlength, minLen ch with
      | some m, some l => some (min m l)
      | _, l => l)
    maxlength := max t.maxlength (maxLen ch)
    maxweight := wStep t.maxweight (maxW c.f32 ch)
    minid := (match t.minid with
      | none => ch.head?.map (·.id)
      | some x => some x)
    maxid := ch.getLast?.map (·.id) }

theorem addBlock_bufOf (c : Cfg ι μ) (t : TermInfo ι) (ch : List (Posting ι)) (hne : ch ≠ [])
    (hok : t.minlength = none ∨ minLen ch ≠ none) :
    t.addBlock (bufOf c ch) = .ok (tiAddCh c t ch) := by
  obtain ⟨f, hf⟩ : ∃ f, ch.head? = some f := by
    cases ch with
    | nil => exact absurd rfl hne
    | cons a l => exact ⟨a, rfl⟩
  obtain ⟨l, hl⟩ : ∃ l, ch.getLast? = some l := by
    cases h : ch.getLast? with
    | none => exact absurd (List.getLast?_eq_none_iff.mp h) hne
    | some l => exact ⟨l, rfl⟩
  unfold TermInfo.addBlock tiAddCh
  simp only [bufOf, List.head?_map, List.getLast?_map, hf, hl, Option.map_some, List.length_map]
  rcases hok with h | h
  · rw [h]
    cases hm : minLen ch <;> simp [sumW] <;> (cases t.minid <;> rfl)
  · cases hm : minLen ch with
    | none => exact absurd hm h
    | some x => cases ht : t.minlength <;> simp [sumW] <;> (cases t.minid <;> rfl)

/-- Closed chunks and their (unflagged) block records, in order. -/
inductive BlocksOf (c : Cfg ι μ) : List (List (Posting ι)) → List (DiskBlock ι μ) → Prop
  | nil : BlocksOf c [] []
  | cons {ch chs b bs} : BlockOf c false ch b → BlocksOf c chs bs → BlocksOf c (ch :: chs) (b :: bs)

theorem BlocksOf.length_eq {c : Cfg ι μ} {chs bs} (h : BlocksOf c chs bs) : chs.length = bs.length := by
  induction h with
  | nil => rfl
  | cons _ _ ih => simp [ih]

theorem writeBlock_bufOf (c : Cfg ι μ) (st : WState ι μ) (r : List (Posting ι)) (last : Bool)
    (hbuf : st.buf = bufOf c r) (hne : r ≠ [])
    (hok : st.terminfo.minlength = none ∨ minLen r ≠ none) :
    ∃ b, BlockOf c last r b ∧
      writeBlock c st last = .ok { blockcount := st.blockcount + 1, buf := {}
                                   terminfo := tiAddCh c st.terminfo r, out := st.out ++ [b] } := by
  obtain ⟨l, hl⟩ : ∃ l, r.getLast? = some l := by
    cases h : r.getLast? with
    | none => exact absurd (List.getLast?_eq_none_iff.mp h) hne
    | some l => exact ⟨l, rfl⟩
  refine ⟨encodeBlock c last r l.id, ⟨l, hl, rfl⟩, ?_⟩
  unfold writeBlock
  rw [hbuf, addBlock_bufOf c _ r hne hok]
  simp only [bufOf, List.getLast?_map, hl, Option.map_some, List.length_map, encodeBlock]

theorem minStep_isSome (acc l : Option Nat) : (minStep acc l).isSome = (acc.isSome || truthy l) := by
  unfold minStep truthy
  split
  · split <;> simp
    split <;> simp
  · next h =>
    cases l with
    | none => simp
    | some n => cases n with
      | zero => simp
      | succ n => exact absurd rfl (h n)

theorem foldl_minStep_isSome (acc : Option Nat) (r : List (Posting ι)) :
    (r.foldl (fun acc p => minStep acc p.length) acc).isSome
      = (acc.isSome || r.any (fun p => truthy p.length)) := by
  induction r generalizing acc with
  | nil => simp
  | cons p r ih => simp [ih, minStep_isSome, Bool.or_assoc]

theorem minLen_ne_none (r : List (Posting ι)) (hne : r ≠ []) (h : ∀ p ∈ r, truthy p.length = true) :
    minLen r ≠ none := by
  have := foldl_minStep_isSome none r
  cases r with
  | nil => exact absurd rfl hne
  | cons p r =>
    intro hn
    unfold minLen at hn
    rw [hn] at this
    simp [h p (by simp)] at this

theorem minLen_eq_none (r : List (Posting ι)) (h : ∀ p ∈ r, truthy p.length = false) :
    minLen r = none := by
  have := foldl_minStep_isSome none r
  have hany : r.any (fun p => truthy p.length) = false := by
    simp only [List.any_eq_false]; intro p hp; simp [h p hp]
  unfold minLen
  cases hm : r.foldl (fun acc p => minStep acc p.length) none with
  | none => rfl
  | some x => rw [hm, hany] at this; simp at this

theorem bufOf_ids_length (c : Cfg ι μ) (r : List (Posting ι)) : (bufOf c r).ids.length = r.length := by
  simp [bufOf]

/-- The uniformity invariant the writer needs so that `add_block` never meets `min(int, None)`. -/
def UInv (t : TermInfo ι) (xs : List (Posting ι)) : Prop :=
  (∀ p ∈ xs, truthy p.length = true) ∨ ((∀ p ∈ xs, truthy p.length = false) ∧ t.minlength = none)

theorem UInv.ok {t : TermInfo ι} {r xs : List (Posting ι)} (h : UInv t xs) (hsub : ∀ p ∈ r, p ∈ xs)
    (hne : r ≠ []) : t.minlength = none ∨ minLen r ≠ none := by
  rcases h with h | ⟨_, h⟩
  · exact Or.inr (minLen_ne_none r hne (fun p hp => h p (hsub p hp)))
  · exact Or.inl h

theorem UInv.step {c : Cfg ι μ} {t : TermInfo ι} {r xs ys : List (Posting ι)} (h : UInv t xs)
    (hr : ∀ p ∈ r, p ∈ xs) (hy : ∀ p ∈ ys, p ∈ xs) : UInv (tiAddCh c t r) ys := by
  rcases h with h | ⟨h, ht⟩
  · exact Or.inl (fun p hp => h p (hy p hp))
  · refine Or.inr ⟨fun p hp => h p (hy p hp), ?_⟩
    have : minLen r = none := minLen_eq_none r (fun p hp => h p (hr p hp))
    simp [tiAddCh, ht, this]

theorem addAll_split (c : Cfg ι μ) (hbl : 1 ≤ c.blocklimit) :
    ∀ (qs r : List (Posting ι)) (st : WState ι μ),
      st.buf = bufOf c r → r.length ≤ c.blocklimit →
      (∀ p ∈ qs, c.ids.valid p.id = true) →
      UInv st.terminfo (r ++ qs) →
      ∃ st' bs, addAll c st qs = .ok st' ∧
        st'.buf = bufOf c (splitAux c.blocklimit r qs).2 ∧
        st'.blockcount = st.blockcount + bs.length ∧
        st'.terminfo = (splitAux c.blocklimit r qs).1.foldl (tiAddCh c) st.terminfo ∧
        st'.out = st.out ++ bs ∧ BlocksOf c (splitAux c.blocklimit r qs).1 bs ∧
        UInv st'.terminfo (splitAux c.blocklimit r qs).2 := by
  intro qs
  induction qs with
  | nil =>
    intro r st hbuf _ _ hu
    exact ⟨st, [], rfl, by simpa [splitAux] using hbuf, by simp, by simp [splitAux], by simp,
      by simpa [splitAux] using BlocksOf.nil, by simpa [splitAux] using hu⟩
  | cons q qs ih =>
    intro r st hbuf hlen hvalid hu
    have hvq : c.ids.valid q.id = true := hvalid q (by simp)
    have hlen' : st.buf.ids.length = r.length := by rw [hbuf, bufOf_ids_length]
    have hvqs : ∀ p ∈ qs, c.ids.valid p.id = true := fun p hp => hvalid p (by simp [hp])
    by_cases hge : r.length ≥ c.blocklimit
    · -- the buffer is full: it is written out, `q` starts a new one
      have hne : r ≠ [] := by intro e; subst e; simp at hge; omega
      obtain ⟨b, hb, hw⟩ := writeBlock_bufOf c st r false hbuf hne
        (hu.ok (fun p hp => by simp [hp]) hne)
      have hadd : addPosting c st q = .ok
          { blockcount := st.blockcount + 1, buf := bufOf c [q]
            terminfo := tiAddCh c st.terminfo r, out := st.out ++ [b] } := by
        unfold addPosting
        rw [hlen', if_pos hge, hw]
        simp only
        have := Buf.add_bufOf c [] q hvq
        rw [bufOf_nil] at this
        rw [this]
        rfl
      obtain ⟨st', bs, h1, h2, h3, h4, h5, h6, h7⟩ :=
        ih [q] { blockcount := st.blockcount + 1, buf := bufOf c [q]
                 terminfo := tiAddCh c st.terminfo r, out := st.out ++ [b] } rfl
          (by simpa using hbl) hvqs
          (hu.step (fun p hp => by simp [hp]) (fun p hp => by
            simp only [List.mem_append, List.mem_cons, List.not_mem_nil, or_false] at hp ⊢
            rcases hp with hp | hp
            · exact Or.inr (Or.inl hp)
            · exact Or.inr (Or.inr hp)))
      rcases hs : splitAux c.blocklimit [q] qs with ⟨cs, rem⟩
      rw [hs] at h2 h4 h6 h7
      refine ⟨st', b :: bs, ?_, ?_, ?_, ?_, ?_, ?_, ?_⟩
      · simp only [addAll, hadd]; exact h1
      · simpa [splitAux, hge, hs] using h2
      · simp only [h3, List.length_cons]; omega
      · simpa [splitAux, hge, hs] using h4
      · simp [h5]
      · simpa [splitAux, hge, hs] using BlocksOf.cons hb h6
      · simpa [splitAux, hge, hs] using h7
    · -- room left in the buffer
      have hadd : addPosting c st q = .ok { st with buf := bufOf c (r ++ [q]) } := by
        unfold addPosting
        rw [hlen', if_neg hge]
        simp only
        rw [hbuf, Buf.add_bufOf c r q hvq]
      obtain ⟨st', bs, h1, h2, h3, h4, h5, h6, h7⟩ :=
        ih (r ++ [q]) { st with buf := bufOf c (r ++ [q]) } rfl
          (by simp only [List.length_append, List.length_singleton]; omega) hvqs
          (by simpa [List.append_assoc] using hu)
      refine ⟨st', bs, ?_, ?_, ?_, ?_, ?_, ?_, ?_⟩
      · simp only [addAll, hadd]; exact h1
      · simpa [splitAux, hge] using h2
      · simpa using h3
      · simpa [splitAux, hge] using h4
      · simpa using h5
      · simpa [splitAux, hge] using h6
      · simpa [splitAux, hge] using h7
