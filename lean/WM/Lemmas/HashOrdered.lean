import WM.Lemmas.HashFileThm
import WM.Lemmas.IdSetsSorted
/-! Helper lemmas for the ordered hash file (C20): the binary search over the position index. -/
set_option linter.unusedSimpArgs false
namespace WM.C20
open WM.HashFile

theorem getElem_layout_key {α} (vlen : α → Nat) : ∀ (kvs : List (Key × α)) (p k : Nat)
    (hk : k < (layout vlen p kvs).length) (hk' : k < kvs.length), ((layout vlen p kvs)[k]).key = (kvs[k]).1
  | [], _, _, hk, _ => by simp [layout] at hk
  | kv :: t, p, 0, _, _ => by simp [layout]
  | kv :: t, p, k + 1, hk, hk' => by
    simp only [layout, List.getElem_cons_succ]
    exact getElem_layout_key vlen t _ k (by simpa [layout] using hk) (by simpa using hk')

theorem length_layout {α} (vlen : α → Nat) : ∀ (kvs : List (Key × α)) (p : Nat),
    (layout vlen p kvs).length = kvs.length
  | [], _ => rfl
  | kv :: t, p => by simp [layout, length_layout vlen t]

theorem layout_drop {α} (vlen : α → Nat) : ∀ (kvs : List (Key × α)) (p k : Nat) (hk : k < kvs.length),
    ∃ pre, layout vlen p kvs = pre ++ layout vlen ((layout vlen p kvs)[k]'(by rw [length_layout]; exact hk)).pos (kvs.drop k)
      ∧ endPos vlen p kvs = endPos vlen ((layout vlen p kvs)[k]'(by rw [length_layout]; exact hk)).pos (kvs.drop k)
  | [], _, _, hk => by simp at hk
  | kv :: t, p, 0, _ => ⟨[], by simp [layout], by simp [layout]⟩
  | kv :: t, p, k + 1, hk => by
    rcases layout_drop vlen t (p + lengthsSize + kv.1.length + vlen kv.2) k (by simpa using hk)
      with ⟨pre, h1, h2⟩
    refine ⟨⟨p, kv.1, kv.2⟩ :: pre, ?_, ?_⟩
    · simp only [layout, List.getElem_cons_succ, List.drop_succ_cons, List.cons_append]
      rw [← h1]
    · simp only [layout, List.getElem_cons_succ, List.drop_succ_cons, endPos]
      exact h2

/-- The binary search of `closest_key_pos` over the position index of an ordered file. -/
theorem closest_pos_spec {α} (hash : Key → Nat) (vlen : α → Nat) (so : Nat) (kvs : List (Key × α))
    (f : File α) (hf : build hash vlen so kvs = some f)
    (hord : (kvs.map (·.1)).Pairwise (· < ·)) (key : Key) :
    ∃ lo, lo ≤ kvs.length ∧
      closestKeyPos f key = .ok ((f.recs[lo]?).map (·.pos)) ∧ f.recs.length = kvs.length ∧
      (∀ k (hk : k < kvs.length), k < lo → (kvs[k]).1 < key) ∧
      (∀ k (hk : k < kvs.length), lo ≤ k → ¬ (kvs[k]).1 < key) := by
  rcases build_spec hash vlen so kvs with ⟨f', hf', hb⟩
  rw [hf] at hf'
  cases Option.some.inj hf'
  have hsorted : f.recs.Pairwise (fun a b => a.pos < b.pos) := by
    rw [hb.recs]; exact layout_pos_sorted vlen kvs _
  have hlen : f.recs.length = kvs.length := by rw [hb.recs, length_layout]
  have hilen : f.index.length = kvs.length := by rw [hb.index, List.length_map, hlen]
  have hidx : ∀ k (hk : k < f.index.length), recAt f f.index[k] = some (f.recs[k]'(by omega)) := by
    intro k hk
    have hk' : k < f.recs.length := by omega
    have : f.index[k] = (f.recs[k]).pos := by simp [hb.index]
    rw [this]
    unfold recAt
    exact find_at_pos hsorted (List.getElem_mem hk')
  have hkey : ∀ k (hk : k < f.recs.length), (f.recs[k]).key = (kvs[k]'(by omega)).1 := by
    intro k hk
    have := getElem_layout_key vlen kvs (so + headerSize) k (by rw [← hb.recs]; exact hk) (by omega)
    simp only [hb.recs]
    exact this
  have hkeys : ∀ i j (hij : i < j) (hj : j < kvs.length), (kvs[i]).1 < (kvs[j]).1 := by
    intro i j hij hj
    have := (List.pairwise_iff_getElem.mp hord) i j (by simpa using (by omega : i < kvs.length)) (by simpa using hj) hij
    simpa using this
  unfold closestKeyPos
  rcases WM.IdSets.bisectBy_spec
      (keyBefore f key) f.index
      (by
        intro i j hij hj hp
        have hi : i < f.index.length := by omega
        unfold keyBefore at hp ⊢
        rw [hidx j hj] at hp
        rw [hidx i hi]
        simp only [decide_eq_true_eq] at hp ⊢
        rw [hkey j (by omega)] at hp
        rw [hkey i (by omega)]
        exact List.lt_trans (hkeys i j hij (by omega)) hp)
      f.index.length 0 f.index.length rfl (Nat.zero_le _) (Nat.le_refl _)
    with ⟨lo, hr, _, hlo, h3, h4⟩
  rw [hr]
  refine ⟨lo, by omega, ?_, hlen, ?_, ?_⟩
  · simp only [bind, Except.bind]
    by_cases hend : lo = f.index.length
    · rw [if_pos hend, List.getElem?_eq_none (by omega)]; rfl
    · rw [if_neg hend]
      have hlo' : lo < f.index.length := by omega
      rw [List.getElem?_eq_getElem hlo', List.getElem?_eq_getElem (by omega)]
      simp [hb.index]
  · intro k hk hklo
    have := h3 k (by omega) (Nat.zero_le _) hklo
    unfold keyBefore at this
    rw [hidx k (by omega)] at this
    simp only [decide_eq_true_eq] at this
    rw [hkey k (by omega)] at this
    exact this
  · intro k hk hlok
    have := h4 k (by omega) hlok (by omega)
    unfold keyBefore at this
    rw [hidx k (by omega)] at this
    simp only [decide_eq_false_iff_not] at this
    rw [hkey k (by omega)] at this
    exact this

end WM.C20
