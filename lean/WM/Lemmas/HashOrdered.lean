import WM.Lemmas.HashFileThm
import WM.Lemmas.IdSetsSorted
import WM.Props.C20NumLists
/-! Helper lemmas for the ordered hash file (C20): the binary search over the position index. -/
set_option linter.unusedSimpArgs false
namespace WM.C20
open WM.HashFile

theorem getElem_layout_key {α} (vlen : α → Nat) : ∀ (kvs : List (Key × α)) (p k : Nat)
    (hk : k < (layout vlen p kvs).length) (hk' : k < kvs.length), ((layout vlen p kvs)[k]).key = (kvs[k]).1
  | [], _, _, hk, _ => by simp [layout] at hk
  | kv :: t, p, 0, _, _ => by simp [layout]
  | kv :: t, p, k + 1, hk, hk' => by
    simp only [layout, List.getElem_cons_succ]
    exact getElem_layout_key vlen t _ k (by simpa [layout] using hk) (by simpa using hk')

theorem length_layout {α} (vlen : α → Nat) : ∀ (kvs : List (Key × α)) (p : Nat),
    (layout vlen p kvs).length = kvs.length
  | [], _ => rfl
  | kv :: t, p => by simp [layout, length_layout vlen t]

theorem layout_drop {α} (vlen : α → Nat) : ∀ (kvs : List (Key × α)) (p k : Nat) (hk : k < kvs.length),
    ∃ pre, layout vlen p kvs = pre ++ layout vlen ((layout vlen p kvs)[k]'(by rw [length_layout]; exact hk)).pos (kvs.drop k)
      ∧ endPos vlen p kvs = endPos vlen ((layout vlen p kvs)[k]'(by rw [length_layout]; exact hk)).pos (kvs.drop k)
  | [], _, _, hk => by simp at hk
  | kv :: t, p, 0, _ => ⟨[], by simp [layout], by simp [layout]⟩
  | kv :: t, p, k + 1, hk => by
    rcases layout_drop vlen t (p + lengthsSize + kv.1.length + vlen kv.2) k (by simpa using hk)
      with ⟨pre, h1, h2⟩
    refine ⟨⟨p, kv.1, kv.2⟩ :: pre, ?_, ?_⟩
    · simp only [layout, List.getElem_cons_succ, List.drop_succ_cons, List.cons_append]
      rw [← h1]
    · simp only [layout, List.getElem_cons_succ, List.drop_succ_cons, endPos]
      exact h2

open WM.NumLists in
theorem append_allowLongs (g : GA) (n : Int) : (g.append n).1.allowLongs = g.allowLongs := by
  unfold GA.append
  split
  · rfl
  · split
    · rfl
    · split
      · split <;> rfl
      · rfl

open WM.NumLists in
/-- Appending naturals below 2^63 one after the other never overflows; the array holds them all. -/
theorem extend_nat_ok : ∀ (ns : List Int) (g : GA), g.allowLongs = true →
    (∀ x ∈ g.items, 0 ≤ x ∧ g.tc.fits x = true) → (∀ n ∈ ns, 0 ≤ n ∧ n < 2 ^ 63) →
    (g.extend ns).2 = false ∧ (g.extend ns).1.items = g.items ++ ns ∧
      (∀ x ∈ (g.extend ns).1.items, (g.extend ns).1.tc.fits x = true)
  | [], g, _, hg, _ => ⟨rfl, by simp [GA.extend], fun x hx => (hg x (by simpa [GA.extend] using hx)).2⟩
  | n :: t, g, hal, hg, hns => by
    have hn := hns n (by simp)
    have hnf := growable_nat_never_fails g n hg hn.1 hn.2 (Or.inl hal)
    have hc := growable_contents g n
    have hfit := growable_fits g n (fun x hx => (hg x hx).2)
    rw [hnf] at hc
    simp only [Bool.false_eq_true, ↓reduceIte] at hc
    have hg' : ∀ x ∈ (g.append n).1.items, 0 ≤ x ∧ (g.append n).1.tc.fits x = true := by
      intro x hx
      refine ⟨?_, hfit x hx⟩
      rw [hc, List.mem_append, List.mem_singleton] at hx
      rcases hx with hx | rfl
      · exact (hg x hx).1
      · exact hn.1
    rcases extend_nat_ok t (g.append n).1 (by rw [append_allowLongs]; exact hal) hg'
      (fun m hm => hns m (List.mem_cons_of_mem _ hm)) with ⟨h1, h2, h3⟩
    have hext : g.extend (n :: t) = (g.append n).1.extend t := by
      rw [GA.extend]
      cases ha : g.append n with
      | mk g' e =>
        rw [ha] at hnf
        simp only at hnf
        subst hnf
        rfl
    rw [hext]
    refine ⟨h1, ?_, h3⟩
    rw [h2, hc]; simp

/-- Reading the stored position index back (`_get_pos`): item `k` is the position of record `k`,
    whatever typecode the array was retyped to, as long as positions are below 2^63. -/
theorem index_readback {α} {hash : Key → Nat} {vlen : α → Nat} {so : Nat} {kvs : List (Key × α)} {f : File α}
    (hb : Built hash vlen so kvs f) (hpos : ∀ r ∈ f.recs, r.pos < 2 ^ 63) :
    (indexArray (f.recs.map (·.pos))).2 = false ∧ f.indexLen = f.recs.length ∧
      ∀ k (hk : k < f.recs.length), getPos f k = some (f.recs[k]).pos := by
  have hns : ∀ n ∈ (f.recs.map (·.pos)).map Int.ofNat, (0 : Int) ≤ n ∧ n < 2 ^ 63 := by
    intro n hn
    rcases List.mem_map.mp hn with ⟨p, hp, rfl⟩
    rcases List.mem_map.mp hp with ⟨r, hr, rfl⟩
    have := hpos r hr
    simp only [Int.ofNat_eq_natCast]
    omega
  rcases extend_nat_ok _ (WM.NumLists.GA.mk .H [] true) rfl (by intro x hx; simp at hx) hns with ⟨h1, h2, h3⟩
  have hitems : (indexArray (f.recs.map (·.pos))).1.items = (f.recs.map (·.pos)).map Int.ofNat := by
    unfold indexArray; rw [h2]; rfl
  refine ⟨h1, ?_, ?_⟩
  · rw [hb.index.2.1, hitems]; simp
  · intro k hk
    unfold getPos
    rw [hb.index.1, hb.index.2.2]
    have hk' : k < (indexArray (f.recs.map (·.pos))).1.items.length := by rw [hitems]; simpa using hk
    have h3' : ∀ x ∈ (indexArray (f.recs.map (·.pos))).1.items,
        (indexArray (f.recs.map (·.pos))).1.tc.fits x = true := h3
    rw [growable_readback _ h3' k hk']
    simp only [hitems, List.getElem_map]
    have : (0 : Int) ≤ Int.ofNat (f.recs[k]).pos := Int.natCast_nonneg _
    simp [this]

/-- The binary search of `closest_key_pos` over the position index of an ordered file. -/
theorem closest_pos_spec {α} (hash : Key → Nat) (vlen : α → Nat) (so : Nat) (kvs : List (Key × α))
    (f : File α) (hf : build hash vlen so kvs = some f) (hpos : ∀ r ∈ f.recs, r.pos < 2 ^ 63)
    (hord : (kvs.map (·.1)).Pairwise (· < ·)) (key : Key) :
    ∃ lo, lo ≤ kvs.length ∧
      closestKeyPos f key = .ok ((f.recs[lo]?).map (·.pos)) ∧ f.recs.length = kvs.length ∧
      (∀ k (hk : k < kvs.length), k < lo → (kvs[k]).1 < key) ∧
      (∀ k (hk : k < kvs.length), lo ≤ k → ¬ (kvs[k]).1 < key) := by
  rcases build_spec hash vlen so kvs with ⟨f', hf', hb⟩
  rw [hf] at hf'
  cases Option.some.inj hf'
  have hsorted : f.recs.Pairwise (fun a b => a.pos < b.pos) := by
    rw [hb.recs]; exact layout_pos_sorted vlen kvs _
  have hlen : f.recs.length = kvs.length := by rw [hb.recs, length_layout]
  rcases index_readback hb hpos with ⟨_, hilen', hget⟩
  have hilen : f.indexLen = kvs.length := by rw [hilen', hlen]
  have hidx : ∀ k (hk : k < f.indexLen), keyBeforeIdx f key k = decide ((f.recs[k]'(by omega)).key < key) := by
    intro k hk
    have hk' : k < f.recs.length := by omega
    unfold keyBeforeIdx keyBefore
    rw [hget k hk']
    simp only
    unfold recAt
    rw [find_at_pos hsorted (List.getElem_mem hk')]
  have hkey : ∀ k (hk : k < f.recs.length), (f.recs[k]).key = (kvs[k]'(by omega)).1 := by
    intro k hk
    have := getElem_layout_key vlen kvs (so + headerSize) k (by rw [← hb.recs]; exact hk) (by omega)
    simp only [hb.recs]
    exact this
  have hkeys : ∀ i j (hij : i < j) (hj : j < kvs.length), (kvs[i]).1 < (kvs[j]).1 := by
    intro i j hij hj
    have := (List.pairwise_iff_getElem.mp hord) i j (by simpa using (by omega : i < kvs.length)) (by simpa using hj) hij
    simpa using this
  unfold closestKeyPos
  rcases WM.IdSets.bisectBy_spec (keyBeforeIdx f key) (List.range f.indexLen)
      (by
        intro i j hij hj hp
        simp only [List.length_range] at hj
        have hi : i < f.indexLen := by omega
        simp only [List.getElem_range] at hp ⊢
        rw [hidx j hj] at hp
        rw [hidx i hi]
        simp only [decide_eq_true_eq] at hp ⊢
        rw [hkey j (by omega)] at hp
        rw [hkey i (by omega)]
        exact List.lt_trans (hkeys i j hij (by omega)) hp)
      f.indexLen 0 f.indexLen rfl (Nat.zero_le _) (by simp)
    with ⟨lo, hr, _, hlo, h3, h4⟩
  rw [hr]
  refine ⟨lo, by omega, ?_, hlen, ?_, ?_⟩
  · simp only [bind, Except.bind]
    by_cases hend : lo = f.indexLen
    · rw [if_pos hend, List.getElem?_eq_none (by omega)]; rfl
    · rw [if_neg hend]
      have hlo' : lo < f.recs.length := by omega
      rw [hget lo hlo', List.getElem?_eq_getElem hlo']
      rfl
  · intro k hk hklo
    have := h3 k (by simp; omega) (Nat.zero_le _) hklo
    simp only [List.getElem_range] at this
    rw [hidx k (by omega)] at this
    simp only [decide_eq_true_eq] at this
    rw [hkey k (by omega)] at this
    exact this
  · intro k hk hlok
    have := h4 k (by simp; omega) hlok (by omega)
    simp only [List.getElem_range] at this
    rw [hidx k (by omega)] at this
    simp only [decide_eq_false_iff_not] at this
    rw [hkey k (by omega)] at this
    exact this

end WM.C20
