import WM.Lemmas.IndexUpdate
/-! Un-delete: `delete_document(n, delete=False)`. -/
namespace WM.Index
open WM.Dict

theorem Seg.isDeleted_undelete (s : Seg) (hn : s.deleted.Nodup) (l i : Nat) :
    (s.deleteDocument l false).isDeleted i = (s.isDeleted i && i != l) := by
  simp only [Seg.deleteDocument, Seg.isDeleted, Bool.false_eq_true, if_false]
  rw [Bool.eq_iff_iff]
  simp only [List.contains_iff_mem, Bool.and_eq_true, bne_iff_ne, ne_eq]
  rw [hn.mem_erase_iff]
  exact ⟨fun h => ⟨h.2, h.1⟩, fun h => ⟨h.2, h.1⟩⟩

theorem Seg.liveIdx_undelete_filter (s : Seg) (hn : s.deleted.Nodup) (l : Nat) :
    (s.deleteDocument l false).liveIdx.filter (fun p => p.2 != l) = s.liveIdx.filter (fun p => p.2 != l) := by
  simp only [Seg.liveIdx, Seg.deleteDocument_docs, List.filter_filter]
  apply List.filter_congr
  intro p _
  rw [Seg.isDeleted_undelete s hn]
  by_cases hp : p.2 = l <;> cases s.isDeleted p.2 <;> simp [hp, bne]

/-- modifying the segment that holds global number `m` by a function that keeps the doc count and the
    live entries other than the local number leaves every other live entry alone -/
theorem liveGlobal_modify_filter (segs : List Seg) (base m : Nat) (f : Seg → Seg) (h : m < docCountAllSegs segs)
    (hc : ∀ s, (f s).docCountAll = s.docCountAll)
    (hl : ∀ s, segs[(locate segs m).1]? = some s →
      (f s).liveIdx.filter (fun p => p.2 != (locate segs m).2) = s.liveIdx.filter (fun p => p.2 != (locate segs m).2)) :
    (liveGlobal (segs.modify (locate segs m).1 f) base).filter (fun p => p.2 != m + base)
      = (liveGlobal segs base).filter (fun p => p.2 != m + base) := by
  induction segs generalizing base m with
  | nil => simp [docCountAllSegs] at h
  | cons s r ih =>
    rw [docCountAllSegs_cons] at h
    simp only [locate] at hl ⊢
    by_cases hlt : m < s.docCountAll
    · simp only [hlt, if_true] at hl ⊢
      simp only [List.modify_cons, if_true, liveGlobal, hc, List.filter_append]
      congr 1
      have := hl s (by simp)
      rw [List.filter_map, List.filter_map]
      have e : ((fun p : DocRec × Nat => p.2 != m + base) ∘ fun p : DocRec × Nat => (p.1, p.2 + base))
          = fun p => p.2 != m := by
        funext p; simp [Function.comp_def, bne_add_right]
      rw [e, this]
    · simp only [hlt, if_false] at hl ⊢
      simp only [List.modify_succ_cons, liveGlobal, List.filter_append]
      congr 1
      have e : m + base = (m - s.docCountAll) + (base + s.docCountAll) := by omega
      rw [e]
      exact ih (base + s.docCountAll) (m - s.docCountAll) (by omega) (by intro s' hs'; exact hl s' (by simpa using hs'))

theorem docAt_modify (segs : List Seg) (i n : Nat) (f : Seg → Seg) (hd : ∀ s, (f s).docs = s.docs) :
    docAt (segs.modify i f) n = docAt segs n := by
  induction segs generalizing i n with
  | nil => simp
  | cons s r ih =>
    cases i with
    | zero =>
      show docAt (f s :: r) n = docAt (s :: r) n
      by_cases hlt : n < s.docs.length <;> simp [docAt, Seg.docCountAll, hd, hlt]
    | succ i => simp [List.modify_succ_cons, docAt, ih]

theorem isDeletedG_modify_undelete (segs : List Seg) (m : Nat) (h : m < docCountAllSegs segs)
    (hn : ∀ s ∈ segs, s.deleted.Nodup) :
    isDeletedG (segs.modify (locate segs m).1 (fun s => s.deleteDocument (locate segs m).2 false)) m = false := by
  induction segs generalizing m with
  | nil => simp [docCountAllSegs] at h
  | cons s r ih =>
    rw [docCountAllSegs_cons] at h
    simp only [locate]
    by_cases hlt : m < s.docCountAll
    · simp only [hlt, if_true, List.modify_cons, isDeletedG, Seg.deleteDocument_count]
      rw [Seg.isDeleted_undelete s (hn s (by simp))]
      simp
    · simp only [hlt, if_false, List.modify_succ_cons, isDeletedG]
      exact ih (m - s.docCountAll) (by omega) (fun x hx => hn x (by simp [hx]))

theorem modify_id_of {α} (l : List α) (i : Nat) (f : α → α) (h : ∀ a, l[i]? = some a → f a = a) : l.modify i f = l := by
  induction l generalizing i with
  | nil => simp
  | cons a r ih =>
    cases i with
    | zero => simp [List.modify_cons, h a (by simp)]
    | succ i => simp only [List.modify_succ_cons]; rw [ih i (by intro x hx; exact h x (by simpa using hx))]

theorem isDeletedG_locate (segs : List Seg) (m : Nat) (h : m < docCountAllSegs segs) (s : Seg)
    (hs : segs[(locate segs m).1]? = some s) : isDeletedG segs m = s.isDeleted (locate segs m).2 := by
  induction segs generalizing m with
  | nil => simp [docCountAllSegs] at h
  | cons s0 r ih =>
    rw [docCountAllSegs_cons] at h
    simp only [locate, isDeletedG] at hs ⊢
    by_cases hlt : m < s0.docCountAll
    · simp only [hlt, if_true] at hs ⊢
      simp at hs; rw [hs]
    · simp only [hlt, if_false] at hs ⊢
      simp only [List.getElem?_cons_succ] at hs
      exact ih (m - s0.docCountAll) (by omega) hs

/-- **un-delete.** For a valid number `delete_document(n, delete=False)` succeeds, touches only the
deleted sets, leaves every other document's liveness alone and makes document `n` live; when `n` was
not deleted nothing changes at all. -/
theorem Writer.undelete_spec (w : Writer) (hwf : w.WF) (n : Nat) (h : n < docCountAllSegs w.segs) :
    ∃ w', w.deleteDocument n false = .ok w' ∧ Frame w w' ∧
      (liveGlobal w'.segs 0).filter (fun p => p.2 != n) = (liveGlobal w.segs 0).filter (fun p => p.2 != n) ∧
      (∀ d, docAt w.segs n = some d → (d, n) ∈ liveGlobal w'.segs 0) ∧
      (isDeletedG w.segs n = false → w' = w) := by
  have hseg := Writer.deleteDocument_segs w n false h
  refine ⟨_, hseg, ?_, ?_, ?_, ?_⟩
  · exact ⟨rfl, rfl, rfl, rfl, rfl, modify_map_of_eq _ _ _ _ (fun s => Seg.deleteDocument_count s _ _),
      modify_map_of_eq _ _ _ _ (fun s => Seg.deleteDocument_docs s _ _),
      modify_map_of_eq _ _ _ _ (fun s => Seg.deleteDocument_posts s _ _)⟩
  · have := liveGlobal_modify_filter w.segs 0 n (fun s => s.deleteDocument (locate w.segs n).2 false) h
      (fun s => Seg.deleteDocument_count s _ _)
      (fun s hs => Seg.liveIdx_undelete_filter s (hwf.segs s (List.mem_of_getElem? hs)).delNodup _)
    simpa using this
  · intro d hd
    have hcnt : docCountAllSegs (w.segs.modify (locate w.segs n).1 (fun s => s.deleteDocument (locate w.segs n).2 false))
        = docCountAllSegs w.segs := by
      simp only [docCountAllSegs]
      rw [modify_map_of_eq _ _ _ _ (fun s => Seg.deleteDocument_count s _ _)]
    have := (liveGlobal_mem_iff _ 0 n d (by rw [hcnt]; exact h)).mpr
      ⟨by rw [docAt_modify _ _ _ _ (fun s => Seg.deleteDocument_docs s _ _)]; exact hd,
       isDeletedG_modify_undelete w.segs n h (fun s hs => (hwf.segs s hs).delNodup)⟩
    simpa using this
  · intro hnd
    obtain ⟨_, s, hs, _⟩ := locate_fst_lt w.segs n h
    have hs' : s.isDeleted (locate w.segs n).2 = false := by rw [← isDeletedG_locate w.segs n h s hs]; exact hnd
    have : w.segs.modify (locate w.segs n).1 (fun s => s.deleteDocument (locate w.segs n).2 false) = w.segs := by
      apply modify_id_of
      intro a ha
      rw [hs] at ha; cases ha
      simp only [Seg.deleteDocument, Bool.false_eq_true, if_false]
      have hnm : (locate w.segs n).2 ∉ s.deleted := by
        simpa [Seg.isDeleted] using hs'
      rw [List.erase_eq_self_iff.mpr hnm]
    rw [this]

theorem step_undelDoc (w : Writer) (ss : Sess) (h : SRel w ss) (hwf : w.WF) (n : Nat) :
    SRel (w.step (.undelDoc n)).1 (ss.step (w.specOp (.undelDoc n))) := by
  by_cases hn : n < docCountAllSegs w.segs
  · obtain ⟨w', h1, f1, hfil, hmem, hsame⟩ := Writer.undelete_spec w hwf n hn
    simp only [Writer.step, h1, Writer.specOp, hn, if_true]
    rw [Writer.isDeleted_eq w n hn]
    cases hg : isDeletedG w.segs n with
    | false =>
      have : w' = w := hsame hg
      subst this
      cases docAt w'.segs n <;> exact h
    | true =>
      cases hd : docAt w.segs n with
      | none => 
        simp only [Sess.step]
        -- cannot happen for a valid number, but nothing is claimed then: liveness of others unchanged
        have hnone : ∀ d, (d, n) ∉ liveGlobal w'.segs 0 := by
          intro d hm
          have hcnt : docCountAllSegs w'.segs = docCountAllSegs w.segs := f1.total
          have := (liveGlobal_mem_iff w'.segs 0 n d (by rw [hcnt]; exact hn)).mp (by simpa using hm)
          have hd' : docAt w'.segs n = docAt w.segs n := by
            rw [Writer.deleteDocument_segs w n false hn] at h1
            cases h1
            exact docAt_modify _ _ _ _ (fun s => Seg.deleteDocument_docs s _ _)
          rw [hd', hd] at this
          exact absurd this.1 (by simp)
        have hnone0 : ∀ d, (d, n) ∉ liveGlobal w.segs 0 := by
          intro d hm
          have := (liveGlobal_mem_iff w.segs 0 n d hn).mp (by simpa using hm)
          rw [hd] at this; exact absurd this.1 (by simp)
        refine h.of_frame f1 rfl rfl ?_
        rw [contentOf_eq_liveGlobal _ _ 0, f1.schema, ← liveGlobal_filter_absent w'.segs n hnone, hfil,
          liveGlobal_filter_absent w.segs n hnone0, ← contentOf_eq_liveGlobal]
        exact h.committed
      | some d =>
        simp only [Sess.step, Sess.restore]
        refine h.of_frame f1 rfl rfl ?_
        have hm := hmem d hd
        have hsplit := liveGlobal_split w'.segs (fun p => restrict w.schema p.1) d n hm
        have hnone0 : ∀ d', (d', n) ∉ liveGlobal w.segs 0 := by
          intro d' hm'
          have := (liveGlobal_mem_iff w.segs 0 n d' hn).mp (by simpa using hm')
          rw [hg] at this; exact absurd this.2 (by simp)
        rw [hfil, liveGlobal_filter_absent w.segs n hnone0] at hsplit
        rw [← contentOf_eq_liveGlobal w.schema w'.segs 0, ← contentOf_eq_liveGlobal w.schema w.segs 0] at hsplit
        rw [f1.schema]
        exact hsplit.trans ((List.Perm.cons _ h.committed).trans (List.perm_append_singleton _ _).symm)
  · have he := Writer.deleteDocument_err w n false hn
    simp only [Writer.step, he, Writer.specOp, hn, if_false, Sess.step]
    exact h

end WM.Index
