import WM.Model.LengthByte
/-! Lemmas about `bisect_left` followed by `__getitem__` on a strictly ascending table. -/
namespace WM.LengthByte

/-- strictly ascending, as a Boolean check (so that the 256-entry table is decided by evaluation) -/
def ascending : List Nat → Bool
  | [] => true
  | [_] => true
  | a :: b :: rest => decide (a < b) && ascending (b :: rest)

theorem pairwise_of_ascending : ∀ (l : List Nat), ascending l = true → l.Pairwise (· < ·)
  | [], _ => List.Pairwise.nil
  | [a], _ => List.pairwise_singleton _ a
  | a :: b :: rest, h => by
    simp only [ascending, Bool.and_eq_true, decide_eq_true_eq] at h
    have ih := pairwise_of_ascending (b :: rest) h.2
    refine List.pairwise_cons.mpr ⟨?_, ih⟩
    intro x hx
    rcases List.mem_cons.mp hx with rfl | hx
    · exact h.1
    · exact Nat.lt_trans h.1 ((List.pairwise_cons.mp ih).1 x hx)

/-- indexing at the length of the `takeWhile` prefix is `find?` of the complement -/
theorem getElem?_takeWhile_length (p : Nat → Bool) (l : List Nat) :
    l[(l.takeWhile p).length]? = l.find? (fun e => !p e) := by
  induction l with
  | nil => rfl
  | cons a l ih =>
    rw [List.takeWhile_cons, List.find?_cons]
    cases hp : p a with
    | true => simpa using ih
    | false => simp

theorem find_self {l : List Nat} (hs : l.Pairwise (· < ·)) {e : Nat} (he : e ∈ l) :
    l.find? (fun x => decide (e ≤ x)) = some e := by
  induction l with
  | nil => cases he
  | cons a l ih =>
    rw [List.find?_cons]
    rcases List.mem_cons.mp he with rfl | he'
    · simp
    · have hlt : a < e := (List.pairwise_cons.mp hs).1 e he'
      have : decide (e ≤ a) = false := by simp; omega
      rw [this]
      exact ih (List.pairwise_cons.mp hs).2 he'

theorem find_mono {l : List Nat} (hs : l.Pairwise (· < ·)) {m n a b : Nat} (hmn : m ≤ n)
    (ha : l.find? (fun x => decide (m ≤ x)) = some a) (hb : l.find? (fun x => decide (n ≤ x)) = some b) :
    a ≤ b := by
  induction l with
  | nil => cases ha
  | cons x l ih =>
    rw [List.find?_cons] at ha hb
    by_cases hm : m ≤ x
    · simp only [hm, decide_true, Option.some.injEq] at ha
      by_cases hn : n ≤ x
      · simp only [hn, decide_true, Option.some.injEq] at hb
        omega
      · simp only [hn, decide_false] at hb
        have hmem := List.mem_of_find?_eq_some hb
        have := (List.pairwise_cons.mp hs).1 b hmem
        omega
    · have hn : ¬ n ≤ x := by omega
      simp only [hm, decide_false] at ha
      simp only [hn, decide_false] at hb
      exact ih (List.pairwise_cons.mp hs).2 ha hb

theorem find_exists {l : List Nat} {n e : Nat} (he : e ∈ l) (hne : n ≤ e) :
    ∃ a, l.find? (fun x => decide (n ≤ x)) = some a := by
  cases h : l.find? (fun x => decide (n ≤ x)) with
  | some a => exact ⟨a, rfl⟩
  | none =>
    have := List.find?_eq_none.mp h e he
    simp at this
    omega

/-! ### the table of the implementation -/

theorem table_ascending : table.Pairwise (· < ·) := pairwise_of_ascending table (by decide +kernel)

theorem table_length : table.length = 256 := by decide +kernel

theorem table_last : table[255]? = some 106374 := by decide +kernel

theorem table_le_last : ∀ e ∈ table, e ≤ 106374 := by decide +kernel

theorem last_mem : 106374 ∈ table := by decide +kernel

/-- what the scorer sees, as a search in the table -/
theorem approx_spec (n : Nat) :
    byteToLength (lengthToByte n) =
      if 106374 ≤ n then some 106374 else table.find? (fun e => decide (n ≤ e)) := by
  unfold byteToLength lengthToByte
  split
  · exact table_last
  · unfold bisectLeft
    rw [getElem?_takeWhile_length]
    congr 1
    funext e
    by_cases h : e < n
    · have : ¬ n ≤ e := by omega
      simp [h, this]
    · have : n ≤ e := by omega
      simp [h, this]


end WM.LengthByte
