import WM.Model.FSReader
import WM.Lemmas.FSReader
import WM.Lemmas.FSInterleave
/-! Linearizability of `ix.reader(reuse=old)` (`Searcher.refresh()`) under interleaved writer
events: the step machine `xstep` with recycling (C03). -/
namespace WM.FS

/-- a segment id names one set of files, and deletion sets are written canonically -/
def Stable (t0 t : Toc) : Prop :=
  ∀ s0 ∈ t0.segs, ∀ s ∈ t.segs, s.sid = s0.sid →
    s0.files = s.files ∧ (sameSet s0.deleted s.deleted = true → s0.deleted = s.deleted)

theorem freshReader_leaves (eager : Name → Bool) (fs : FS) (t : Toc) :
    (freshReader eager fs t).leaves = t.segs.map (freshSeg eager fs t.schema t.gen) := by
  unfold freshReader
  cases t.segs with
  | nil => rfl
  | cons a l => cases l <;> rfl

/-- Taking over the recycled sub-reader of a segment whose deletions did not change gives exactly
    the sub-reader a fresh open at `fsj` would give (names are never re-bound between `fs0`, where
    the old reader was opened, and `fsj`, where the new TOC was read). -/
theorem recycle_eq_fresh (eager : Name → Bool) (fs0 : FS) (t0 t : Toc) (trj : List Event)
    (hwf : WF fs0) (h0 : readable fs0 t0 = true) (hfr : freshNames fs0 trj = true)
    (hr : readable (run fs0 trj) t = true) (hst : Stable t0 t)
    (x : SegReader) (hx : x ∈ (freshReader eager fs0 t0).leaves) (s : SegRef) (hs : s ∈ t.segs)
    (hsid : s.sid = x.seg.sid) (hsame : sameSet x.seg.deleted s.deleted = true) :
    ({ x with schema := t.schema, gen := some t.gen } : SegReader)
      = freshSeg eager (run fs0 trj) t.schema t.gen s := by
  rw [freshReader_leaves] at hx
  obtain ⟨s0, hs0, rfl⟩ := List.mem_map.1 hx
  simp only [freshSeg] at hsid hsame ⊢
  obtain ⟨e1, e3⟩ := hst s0 hs0 s hs hsid
  have e3' := e3 hsame
  have hseg : s0 = s := by
    cases s0 with
    | mk sid files deleted =>
      cases s with
      | mk sid' files' deleted' =>
        simp only at e1 e3' hsid
        rw [e1, e3', hsid]
  subst hseg
  congr 1
  apply handles_stable hwf trj hfr
  · intro f hf
    exact bound_of_isComplete ((readable_iff fs0 t0).1 h0 f (mem_toc_files hs0 (List.mem_filter.1 hf).1))
  · intro f hf
    exact bound_of_isComplete ((readable_iff _ t).1 hr f (mem_toc_files hs (List.mem_filter.1 hf).1))

/-- the invariant of the refresh machine; `P` says which directories count as "a moment of the
    schedule", `G x` what is known about such a moment -/
def XInv (P : FS → Prop) (eager : Name → Bool) (ix : Name) (fs0 : FS) (t0 : Toc) (fs : FS) :
    RRefresh → Prop
  | .start _ => True
  | .failed _ => True
  | .segs _ t acc d rest =>
    ∃ fsj tr trj pre, P fsj ∧ fsj = run fs0 trj ∧ freshNames fs0 trj = true ∧
      readToc ix fsj = .ok t ∧ readable fsj t = true ∧ Stable t0 t ∧
      fs = run fsj tr ∧ freshNames fsj tr = true ∧
      t.segs = pre ++ rest ∧ acc = pre.map (freshSeg eager fsj t.schema t.gen) ∧
      (∀ p ∈ d, p.2 ∈ (freshReader eager fs0 t0).leaves ∧ p.1 = p.2.seg.sid)
  | .files _ t acc d s todo got rest =>
    ∃ fsj tr trj pre, P fsj ∧ fsj = run fs0 trj ∧ freshNames fs0 trj = true ∧
      readToc ix fsj = .ok t ∧ readable fsj t = true ∧ Stable t0 t ∧
      fs = run fsj tr ∧ freshNames fsj tr = true ∧
      t.segs = pre ++ s :: rest ∧ acc = pre.map (freshSeg eager fsj t.schema t.gen) ∧
      (∀ p ∈ d, p.2 ∈ (freshReader eager fs0 t0).leaves ∧ p.1 = p.2.seg.sid) ∧
      got ++ (todo.filterMap fun f => (fsj.dir f).map fun i => (f, i))
        = (freshSeg eager fsj t.schema t.gen s).handles ∧
      (∀ f ∈ todo, f ∈ s.files)
  | .done t r =>
    ∃ fsj, P fsj ∧ readToc ix fsj = .ok t ∧ readable fsj t = true ∧ r = freshReader eager fsj t

theorem carryOver_fresh (eager : Name → Bool) (fs0 : FS) (t0 : Toc) (segs : List SegRef) :
    carryOver segs (freshReader eager fs0 t0).leaves = segs := by
  apply carryOver_versioned
  intro sr hsr
  rw [freshReader_leaves] at hsr
  obtain ⟨s0, _, rfl⟩ := List.mem_map.1 hsr
  rfl

theorem xinv_xstep (P : FS → Prop) (eager : Name → Bool) (ix : Name) (fs0 : FS) (t0 : Toc) (fs : FS)
    (hwf0 : WF fs0) (h0 : readable fs0 t0 = true)
    (hP : P fs) (hnow : ∃ trj, fs = run fs0 trj ∧ freshNames fs0 trj = true)
    (hlr : LatestReadable ix fs) (hst : ∀ t, readToc ix fs = .ok t → Stable t0 t)
    (ro : RRefresh) (h : XInv P eager ix fs0 t0 fs ro) :
    XInv P eager ix fs0 t0 fs (xstep eager ix (freshReader eager fs0 t0) fs ro) := by
  cases ro with
  | start n =>
    simp only [xstep]
    cases hr : readToc ix fs with
    | ok t =>
      simp only
      rw [carryOver_fresh]
      obtain ⟨trj, hfs, hfrj⟩ := hnow
      exact ⟨fs, [], trj, [], hP, hfs, hfrj, hr, hlr t hr, hst t hr, rfl, rfl, by simp, rfl,
        mkReusable_ok _⟩
    | error e =>
      cases e with
      | ioError => simp only [retryOr]; split <;> trivial
      | emptyIndex => trivial
      | badToc => trivial
  | failed e => exact h
  | done t r => exact h
  | segs n t acc d rest =>
    obtain ⟨fsj, tr, trj, pre, hPj, hfsj, hfrj, htoc, hrd, hstab, hfs, hfr, hsegs, hacc, hd⟩ := h
    cases rest with
    | nil =>
      simp only [xstep]
      refine ⟨fsj, hPj, htoc, hrd, ?_⟩
      rw [hacc]
      unfold freshReader
      rw [hsegs]; simp
    | cons s rest =>
      have hs : s ∈ t.segs := by rw [hsegs]; simp
      simp only [xstep]
      have hfiles : XInv P eager ix fs0 t0 fs
          (.files n t acc d s (s.files.filter eager) [] rest) :=
        ⟨fsj, tr, trj, pre, hPj, hfsj, hfrj, htoc, hrd, hstab, hfs, hfr, hsegs, hacc, hd,
          by simp [freshSeg], fun f hf => (List.mem_filter.1 hf).1⟩
      cases hl : lookupSid d s.sid with
      | none => exact hfiles
      | some x =>
        obtain ⟨hmem, hsid⟩ := hd _ (lookupSid_mem d s.sid x hl)
        simp only at hmem hsid
        have hver : x.gen.isNone = false := by
          have := hmem
          rw [freshReader_leaves] at this
          obtain ⟨s0, _, rfl⟩ := List.mem_map.1 this
          rfl
        simp only [hver, Bool.false_eq_true, if_false]
        by_cases hsame : sameSet x.seg.deleted s.deleted = true
        · rw [if_pos hsame]
          have heq := recycle_eq_fresh eager fs0 t0 t trj hwf0 h0 hfrj (by rw [← hfsj]; exact hrd)
            hstab x hmem s hs hsid hsame
          rw [← hfsj] at heq
          refine ⟨fsj, tr, trj, pre ++ [s], hPj, hfsj, hfrj, htoc, hrd, hstab, hfs, hfr,
            by rw [hsegs]; simp, ?_, fun p hp => hd p (List.mem_filter.1 hp).1⟩
          rw [hacc, heq]; simp
        · rw [if_neg hsame]
          exact hfiles
  | files n t acc d s todo got rest =>
    obtain ⟨fsj, tr, trj, pre, hPj, hfsj, hfrj, htoc, hrd, hstab, hfs, hfr, hsegs, hacc, hd, hgot, hsub⟩ := h
    have hs : s ∈ t.segs := by rw [hsegs]; simp
    cases todo with
    | nil =>
      simp only [xstep]
      refine ⟨fsj, tr, trj, pre ++ [s], hPj, hfsj, hfrj, htoc, hrd, hstab, hfs, hfr,
        by rw [hsegs]; simp, ?_, hd⟩
      have : got = (freshSeg eager fsj t.schema t.gen s).handles := by simpa using hgot
      rw [hacc, this]
      simp [freshSeg]
    | cons f todo =>
      simp only [xstep]
      cases hdir : fs.dir f with
      | none => simp only [retryOr]; split <;> trivial
      | some i =>
        simp only
        have hwfj : WF fsj := by rw [hfsj]; exact run_wf_fresh hwf0 trj hfrj
        have hb : (fsj.dir f).isSome :=
          bound_of_isComplete ((readable_iff fsj t).1 hrd f (mem_toc_files hs (hsub f (by simp))))
        have hmem : f ∈ fsj.names := hwfj.support f hb
        rw [hfs] at hdir
        have hj := dir_stable hwfj tr hfr f hmem i hdir
        refine ⟨fsj, tr, trj, pre, hPj, hfsj, hfrj, htoc, hrd, hstab, hfs, hfr, hsegs, hacc, hd, ?_,
          fun g hg => hsub g (by simp [hg])⟩
        rw [← hgot]
        simp [hj]

theorem xinv_wstep (P : FS → Prop) (eager : Name → Bool) (ix : Name) (fs0 : FS) (t0 : Toc) (fs : FS)
    (e : Event) (hfe : freshNames fs [e] = true) (ro : RRefresh) (h : XInv P eager ix fs0 t0 fs ro) :
    XInv P eager ix fs0 t0 (step fs e) ro := by
  cases ro with
  | start n => trivial
  | failed e => trivial
  | done t r => exact h
  | segs n t acc d rest =>
    obtain ⟨fsj, tr, trj, pre, hPj, hfsj, hfrj, htoc, hrd, hstab, hfs, hfr, rest'⟩ := h
    refine ⟨fsj, tr ++ [e], trj, pre, hPj, hfsj, hfrj, htoc, hrd, hstab, ?_, ?_, rest'⟩
    · rw [run_append, ← hfs]; rfl
    · rw [freshNames_append, hfr, ← hfs, hfe]; rfl
  | files n t acc d s todo got rest =>
    obtain ⟨fsj, tr, trj, pre, hPj, hfsj, hfrj, htoc, hrd, hstab, hfs, hfr, rest'⟩ := h
    refine ⟨fsj, tr ++ [e], trj, pre, hPj, hfsj, hfrj, htoc, hrd, hstab, ?_, ?_, rest'⟩
    · rw [run_append, ← hfs]; rfl
    · rw [freshNames_append, hfr, ← hfs, hfe]; rfl

theorem xinv_mono {P Q : FS → Prop} (hPQ : ∀ x, P x → Q x) (eager : Name → Bool) (ix : Name)
    (fs0 : FS) (t0 : Toc) (fs : FS) (ro : RRefresh) (h : XInv P eager ix fs0 t0 fs ro) :
    XInv Q eager ix fs0 t0 fs ro := by
  cases ro with
  | start n => trivial
  | failed e => trivial
  | done t r =>
    obtain ⟨fsj, hPj, rest⟩ := h
    exact ⟨fsj, hPQ _ hPj, rest⟩
  | segs n t acc d rest =>
    obtain ⟨fsj, tr, trj, pre, hPj, rest'⟩ := h
    exact ⟨fsj, tr, trj, pre, hPQ _ hPj, rest'⟩
  | files n t acc d s todo got rest =>
    obtain ⟨fsj, tr, trj, pre, hPj, rest'⟩ := h
    exact ⟨fsj, tr, trj, pre, hPQ _ hPj, rest'⟩

theorem xmrun_fs (eager : Name → Bool) (ix : Name) (old : Reader) (s : FS × RRefresh) (ms : List MStep) :
    (xmrun eager ix old s ms).1 = run s.1 (wevents ms) := by
  induction ms generalizing s with
  | nil => rfl
  | cons m ms ih =>
    cases m with
    | w e => simp only [xmrun, List.foldl_cons, wevents] at *; rw [ih]; rfl
    | r => simp only [xmrun, List.foldl_cons, wevents] at *; rw [ih]; rfl

theorem xmrun_inv (eager : Name → Bool) (ix : Name) (fs0 : FS) (t0 : Toc) (n : Nat) (ms : List MStep)
    (hwf : WF fs0) (h0 : readable fs0 t0 = true) (hfr : freshNames fs0 (wevents ms) = true)
    (hlr : ∀ k, k ≤ ms.length → LatestReadable ix (fsAt fs0 ms k))
    (hst : ∀ k, k ≤ ms.length → ∀ t, readToc ix (fsAt fs0 ms k) = .ok t → Stable t0 t) :
    XInv (fun x => ∃ k, k ≤ ms.length ∧ x = fsAt fs0 ms k) eager ix fs0 t0
      (xmrun eager ix (freshReader eager fs0 t0) (fs0, .start n) ms).1
      (xmrun eager ix (freshReader eager fs0 t0) (fs0, .start n) ms).2 := by
  revert hfr hlr hst
  refine list_snoc_induction (motive := fun ms =>
    freshNames fs0 (wevents ms) = true →
    (∀ k, k ≤ ms.length → LatestReadable ix (fsAt fs0 ms k)) →
    (∀ k, k ≤ ms.length → ∀ t, readToc ix (fsAt fs0 ms k) = .ok t → Stable t0 t) →
    XInv (fun x => ∃ k, k ≤ ms.length ∧ x = fsAt fs0 ms k) eager ix fs0 t0
      (xmrun eager ix (freshReader eager fs0 t0) (fs0, .start n) ms).1
      (xmrun eager ix (freshReader eager fs0 t0) (fs0, .start n) ms).2) ?_ ?_ ms
  · intro _ _ _; trivial
  · intro l a ih hfr hlr hst
    rw [wevents_append, freshNames_append, Bool.and_eq_true] at hfr
    have take_l : ∀ k, k ≤ l.length → fsAt fs0 (l ++ [a]) k = fsAt fs0 l k := by
      intro k hk
      unfold fsAt
      rw [List.take_append_of_le_length hk]
    have hlr' : ∀ k, k ≤ l.length → LatestReadable ix (fsAt fs0 l k) := by
      intro k hk
      have := hlr k (by simp; omega)
      rwa [take_l k hk] at this
    have hst' : ∀ k, k ≤ l.length → ∀ t, readToc ix (fsAt fs0 l k) = .ok t → Stable t0 t := by
      intro k hk t ht
      apply hst k (by simp; omega) t
      rwa [take_l k hk]
    have ih' := ih hfr.1 hlr' hst'
    have hmono : ∀ x, (∃ k, k ≤ l.length ∧ x = fsAt fs0 l k) →
        ∃ k, k ≤ (l ++ [a]).length ∧ x = fsAt fs0 (l ++ [a]) k := by
      rintro x ⟨k, hk, rfl⟩
      exact ⟨k, by simp; omega, (take_l k hk).symm⟩
    have ih'' := xinv_mono hmono eager ix fs0 t0 _ _ ih'
    have hfs : (xmrun eager ix (freshReader eager fs0 t0) (fs0, .start n) l).1 = run fs0 (wevents l) :=
      xmrun_fs eager ix _ _ l
    have hstep : xmrun eager ix (freshReader eager fs0 t0) (fs0, .start n) (l ++ [a])
        = xmstep eager ix (freshReader eager fs0 t0)
            (xmrun eager ix (freshReader eager fs0 t0) (fs0, .start n) l) a := by
      simp [xmrun, List.foldl_append]
    have hcur : fsAt fs0 (l ++ [a]) l.length = run fs0 (wevents l) := by
      unfold fsAt; simp
    rw [hstep]
    cases a with
    | w e =>
      simp only [xmstep]
      apply xinv_wstep
      · rw [hfs]; simpa [wevents] using hfr.2
      · exact ih''
    | r =>
      simp only [xmstep]
      apply xinv_xstep _ _ _ _ _ _ hwf h0
      · exact ⟨l.length, by simp, by rw [hfs, hcur]⟩
      · exact ⟨wevents l, hfs, hfr.1⟩
      · have := hlr l.length (by simp)
        rwa [hcur, ← hfs] at this
      · intro t ht
        apply hst l.length (by simp) t
        rwa [hcur, ← hfs]
      · exact ih''

/-! ### the whole of `Searcher.refresh()`: up-to-date check, then the recycling open -/

def SInv (P : FS → Prop) (eager : Name → Bool) (ix : Name) (fs0 : FS) (t0 : Toc) (fs : FS) :
    SRefresh → Prop
  | .check _ => True
  | .same => ∃ fsj, P fsj ∧ upToDate ix fsj (freshReader eager fs0 t0) = true
  | .run x => XInv P eager ix fs0 t0 fs x

theorem smrun_fs (eager : Name → Bool) (ix : Name) (old : Reader) (s : FS × SRefresh) (ms : List MStep) :
    (smrun eager ix old s ms).1 = run s.1 (wevents ms) := by
  induction ms generalizing s with
  | nil => rfl
  | cons m ms ih =>
    cases m with
    | w e => simp only [smrun, List.foldl_cons, wevents] at *; rw [ih]; rfl
    | r => simp only [smrun, List.foldl_cons, wevents] at *; rw [ih]; rfl

theorem smrun_inv (eager : Name → Bool) (ix : Name) (fs0 : FS) (t0 : Toc) (n : Nat) (ms : List MStep)
    (hwf : WF fs0) (h0 : readable fs0 t0 = true) (hfr : freshNames fs0 (wevents ms) = true)
    (hlr : ∀ k, k ≤ ms.length → LatestReadable ix (fsAt fs0 ms k))
    (hst : ∀ k, k ≤ ms.length → ∀ t, readToc ix (fsAt fs0 ms k) = .ok t → Stable t0 t) :
    SInv (fun x => ∃ k, k ≤ ms.length ∧ x = fsAt fs0 ms k) eager ix fs0 t0
      (smrun eager ix (freshReader eager fs0 t0) (fs0, .check n) ms).1
      (smrun eager ix (freshReader eager fs0 t0) (fs0, .check n) ms).2 := by
  revert hfr hlr hst
  refine list_snoc_induction (motive := fun ms =>
    freshNames fs0 (wevents ms) = true →
    (∀ k, k ≤ ms.length → LatestReadable ix (fsAt fs0 ms k)) →
    (∀ k, k ≤ ms.length → ∀ t, readToc ix (fsAt fs0 ms k) = .ok t → Stable t0 t) →
    SInv (fun x => ∃ k, k ≤ ms.length ∧ x = fsAt fs0 ms k) eager ix fs0 t0
      (smrun eager ix (freshReader eager fs0 t0) (fs0, .check n) ms).1
      (smrun eager ix (freshReader eager fs0 t0) (fs0, .check n) ms).2) ?_ ?_ ms
  · intro _ _ _; trivial
  · intro l a ih hfr hlr hst
    rw [wevents_append, freshNames_append, Bool.and_eq_true] at hfr
    have take_l : ∀ k, k ≤ l.length → fsAt fs0 (l ++ [a]) k = fsAt fs0 l k := by
      intro k hk
      unfold fsAt
      rw [List.take_append_of_le_length hk]
    have hlr' : ∀ k, k ≤ l.length → LatestReadable ix (fsAt fs0 l k) := by
      intro k hk
      have := hlr k (by simp; omega)
      rwa [take_l k hk] at this
    have hst' : ∀ k, k ≤ l.length → ∀ t, readToc ix (fsAt fs0 l k) = .ok t → Stable t0 t := by
      intro k hk t ht
      apply hst k (by simp; omega) t
      rwa [take_l k hk]
    have ih' := ih hfr.1 hlr' hst'
    have hmono : ∀ x, (∃ k, k ≤ l.length ∧ x = fsAt fs0 l k) →
        ∃ k, k ≤ (l ++ [a]).length ∧ x = fsAt fs0 (l ++ [a]) k := by
      rintro x ⟨k, hk, rfl⟩
      exact ⟨k, by simp; omega, (take_l k hk).symm⟩
    have hfs : (smrun eager ix (freshReader eager fs0 t0) (fs0, .check n) l).1 = run fs0 (wevents l) :=
      smrun_fs eager ix _ _ l
    have hstep : smrun eager ix (freshReader eager fs0 t0) (fs0, .check n) (l ++ [a])
        = smstep eager ix (freshReader eager fs0 t0)
            (smrun eager ix (freshReader eager fs0 t0) (fs0, .check n) l) a := by
      simp [smrun, List.foldl_append]
    have hcur : fsAt fs0 (l ++ [a]) l.length = run fs0 (wevents l) := by
      unfold fsAt; simp
    rw [hstep]
    rcases hp : smrun eager ix (freshReader eager fs0 t0) (fs0, .check n) l with ⟨fsl, st⟩
    rw [hp] at ih' hfs
    simp only at ih' hfs
    subst hfs
    cases st with
    | check m =>
      cases a with
      | w e => trivial
      | r =>
        simp only [smstep, sstep]
        split
        · next hup => exact ⟨_, ⟨l.length, by simp, by rw [hcur]⟩, hup⟩
        · trivial
    | same =>
      obtain ⟨fsj, hPj, hup⟩ := ih'
      cases a with
      | w e => exact ⟨fsj, hmono _ hPj, hup⟩
      | r => exact ⟨fsj, hmono _ hPj, hup⟩
    | run x =>
      have ih'' := xinv_mono hmono eager ix fs0 t0 _ _ ih'
      cases a with
      | w e =>
        simp only [smstep]
        apply xinv_wstep
        · simpa [wevents] using hfr.2
        · exact ih''
      | r =>
        simp only [smstep, sstep]
        apply xinv_xstep _ _ _ _ _ _ hwf h0
        · exact ⟨l.length, by simp, by rw [hcur]⟩
        · exact ⟨wevents l, rfl, hfr.1⟩
        · have := hlr l.length (by simp)
          rwa [hcur] at this
        · intro t ht
          apply hst l.length (by simp) t
          rwa [hcur]
        · exact ih''

/-- **Linearizability of `Searcher.refresh()`.**  Both outcomes have a moment of the schedule
    at which they are right: "return self" — the searcher was up to date at the moment of the
    check; a new reader — it is the fresh reader of the TOC it read, at the moment it read it. -/
theorem searcher_refresh_linearizable (eager : Name → Bool) (ix : Name) (fs0 : FS) (t0 : Toc) (n : Nat)
    (ms : List MStep) (hwf : WF fs0) (h0 : readable fs0 t0 = true)
    (hfr : freshNames fs0 (wevents ms) = true)
    (hlr : ∀ k, k ≤ ms.length → LatestReadable ix (fsAt fs0 ms k))
    (hst : ∀ k, k ≤ ms.length → ∀ t, readToc ix (fsAt fs0 ms k) = .ok t → Stable t0 t) :
    match (smrun eager ix (freshReader eager fs0 t0) (fs0, .check n) ms).2 with
    | .same => ∃ k, k ≤ ms.length ∧ upToDate ix (fsAt fs0 ms k) (freshReader eager fs0 t0) = true
    | .run (.done t r) => ∃ k, k ≤ ms.length ∧ readToc ix (fsAt fs0 ms k) = .ok t ∧
        readable (fsAt fs0 ms k) t = true ∧ r = freshReader eager (fsAt fs0 ms k) t
    | _ => True := by
  have h := smrun_inv eager ix fs0 t0 n ms hwf h0 hfr hlr hst
  generalize (smrun eager ix (freshReader eager fs0 t0) (fs0, .check n) ms).2 = st at h
  cases st with
  | check m => trivial
  | same =>
    obtain ⟨fsj, ⟨k, hk, rfl⟩, hup⟩ := h
    exact ⟨k, hk, hup⟩
  | run x =>
    cases x with
    | done t r =>
      obtain ⟨fsj, ⟨k, hk, rfl⟩, htoc, hrd, hr⟩ := h
      exact ⟨k, hk, htoc, hrd, hr⟩
    | start m => trivial
    | segs => trivial
    | files => trivial
    | failed e => trivial

/-- **Linearizability of `ix.reader(reuse=old)`.**  `old` was opened on `fs0`; writers issue
    fresh-name events; the steps of the recycling open are interleaved with them arbitrarily.
    If the call completes, its result is exactly the fresh reader of the TOC it (last) read, at
    the moment it read it — recycled sub-readers included. -/
theorem refresh_linearizable (eager : Name → Bool) (ix : Name) (fs0 : FS) (t0 : Toc) (n : Nat)
    (ms : List MStep) (hwf : WF fs0) (h0 : readable fs0 t0 = true)
    (hfr : freshNames fs0 (wevents ms) = true)
    (hlr : ∀ k, k ≤ ms.length → LatestReadable ix (fsAt fs0 ms k))
    (hst : ∀ k, k ≤ ms.length → ∀ t, readToc ix (fsAt fs0 ms k) = .ok t → Stable t0 t)
    (t : Toc) (r : Reader)
    (hdone : (xmrun eager ix (freshReader eager fs0 t0) (fs0, .start n) ms).2 = .done t r) :
    ∃ k, k ≤ ms.length ∧ readToc ix (fsAt fs0 ms k) = .ok t ∧
      readable (fsAt fs0 ms k) t = true ∧ r = freshReader eager (fsAt fs0 ms k) t := by
  have h := xmrun_inv eager ix fs0 t0 n ms hwf h0 hfr hlr hst
  rw [hdone] at h
  obtain ⟨fsj, ⟨k, hk, rfl⟩, htoc, hrd, hr⟩ := h
  exact ⟨k, hk, htoc, hrd, hr⟩

end WM.FS
