import WM.Lemmas.Succ
/-! UTF-8 byte order is code-point order, and the term-cursor walk over the byte-ordered term
dictionary is the walk over the code-point-ordered lexicon.

`W3FieldCursor.find` compares UTF-8 *bytes*; the automaton (`next_valid_string`) works on code
points.  The bridge is a property of the encoding alone: it is strictly monotone
(`utf8_lt_iff`), hence injective, hence "first key `≥` in byte order" is "first term `≥` in code
point order" (`cursor_enc` - stated for any strictly monotone encoding, `cursorFindBytes_eq` for
UTF-8).  What remains specific to UTF-8 is that the string handed to `cur.find` must be encodable,
i.e. free of surrogates: `NextValidSpec` guarantees it (the least accepted string *of real
characters*). -/
namespace WM.Lev

/-! ### Order of the encoded characters -/

theorem lt2 {a1 a2 b1 b2 : Nat} (x y : List Nat) (h : a1 < b1 ∨ (a1 = b1 ∧ a2 < b2)) :
    a1 :: a2 :: x < b1 :: b2 :: y := by
  rcases h with h | ⟨h1, h2⟩
  · exact List.cons_lt_cons_iff.mpr (Or.inl h)
  · exact List.cons_lt_cons_iff.mpr (Or.inr ⟨h1, List.cons_lt_cons_iff.mpr (Or.inl h2)⟩)

theorem lt3 {a1 a2 a3 b1 b2 b3 : Nat} (x y : List Nat)
    (h : a1 < b1 ∨ (a1 = b1 ∧ (a2 < b2 ∨ (a2 = b2 ∧ a3 < b3)))) :
    a1 :: a2 :: a3 :: x < b1 :: b2 :: b3 :: y := by
  rcases h with h | ⟨h1, h2⟩
  · exact List.cons_lt_cons_iff.mpr (Or.inl h)
  · exact List.cons_lt_cons_iff.mpr (Or.inr ⟨h1, lt2 x y h2⟩)

theorem lt4 {a1 a2 a3 a4 b1 b2 b3 b4 : Nat} (x y : List Nat)
    (h : a1 < b1 ∨ (a1 = b1 ∧ (a2 < b2 ∨ (a2 = b2 ∧ (a3 < b3 ∨ (a3 = b3 ∧ a4 < b4)))))) :
    a1 :: a2 :: a3 :: a4 :: x < b1 :: b2 :: b3 :: b4 :: y := by
  rcases h with h | ⟨h1, h2⟩
  · exact List.cons_lt_cons_iff.mpr (Or.inl h)
  · exact List.cons_lt_cons_iff.mpr (Or.inr ⟨h1, lt3 x y h2⟩)

theorem utf8Char_ne_nil (c : Nat) : utf8Char c ≠ [] := by
  unfold utf8Char
  repeat' split
  all_goals simp

/-- The encoding of a smaller character is smaller *at a byte inside the character* (UTF-8 is
    prefix free and its lead bytes and continuation bytes are ordered like the code points), so
    whatever follows does not matter.  No range restriction is needed for the order. -/
theorem utf8Char_append_lt {a b : Nat} (h : a < b) (x y : List Nat) :
    utf8Char a ++ x < utf8Char b ++ y := by
  unfold utf8Char
  repeat' split
  all_goals first
    | omega
    | (simp only [List.cons_append, List.nil_append]
       first
        | exact List.cons_lt_cons_iff.mpr (Or.inl (by omega))
        | exact lt2 x y (by omega)
        | exact lt3 x y (by omega)
        | exact lt4 x y (by omega))

theorem append_lt_append_left_iff (p : List Nat) {a b : List Nat} : p ++ a < p ++ b ↔ a < b := by
  constructor
  · intro h
    rw [← List.not_le]
    intro hle
    exact List.not_le.mpr h (append_le_append_left p hle)
  · exact append_lt_append_left p

theorem utf8_cons (c : Nat) (s : List Nat) : utf8 (c :: s) = utf8Char c ++ utf8 s := by
  simp [utf8]

/-- **UTF-8 byte order is code point order.** -/
theorem utf8_lt_iff (s t : List Nat) : utf8 s < utf8 t ↔ s < t := by
  induction s generalizing t with
  | nil =>
    cases t with
    | nil => simp [utf8]
    | cons b t =>
      rw [utf8_cons]
      cases hb : utf8Char b with
      | nil => exact absurd hb (utf8Char_ne_nil b)
      | cons x xs =>
        constructor
        · intro _; exact List.nil_lt_cons _ _
        · intro _; exact List.nil_lt_cons _ _
  | cons a s ih =>
    cases t with
    | nil =>
      constructor
      · intro h; exact absurd h (List.not_lt_nil _)
      · intro h; exact absurd h (List.not_lt_nil _)
    | cons b t =>
      rw [utf8_cons, utf8_cons]
      rcases Nat.lt_trichotomy a b with hlt | rfl | hgt
      · constructor
        · intro _; exact List.cons_lt_cons_iff.mpr (Or.inl hlt)
        · intro _; exact utf8Char_append_lt hlt _ _
      · rw [append_lt_append_left_iff, ih t, List.cons_lt_cons_iff]
        constructor
        · intro h; exact Or.inr ⟨rfl, h⟩
        · rintro (h | ⟨_, h⟩)
          · omega
          · exact h
      · have h1 : ¬ (utf8Char a ++ utf8 s < utf8Char b ++ utf8 t) :=
          List.not_lt.mpr (List.le_of_lt (utf8Char_append_lt hgt _ _))
        have h2 : ¬ (a :: s < b :: t) :=
          List.not_lt.mpr (List.le_of_lt (List.cons_lt_cons_iff.mpr (Or.inl hgt)))
        exact ⟨fun h => absurd h h1, fun h => absurd h h2⟩

theorem utf8_le_iff (s t : List Nat) : utf8 s ≤ utf8 t ↔ s ≤ t := by
  rw [← List.not_lt, ← List.not_lt, utf8_lt_iff]

/-- Hence the encoding is injective: decoding the stored key gives back the term. -/
theorem utf8_injective {s t : List Nat} (h : utf8 s = utf8 t) : s = t := by
  apply List.le_antisymm
  · rw [← utf8_le_iff, h]; exact List.le_refl _
  · rw [← utf8_le_iff, h]; exact List.le_refl _

/-! ### The cursor -/

/-- A cursor that compares encoded keys finds the same term as one that compares the terms - for
    *any* strictly monotone encoding. -/
theorem cursor_enc (enc : List Nat → List Nat) (henc : ∀ s t, enc s < enc t ↔ s < t)
    (lex : List (List Nat)) (term : List Nat) :
    (lex.find? fun t => lexLe (enc term) (enc t)) = cursorFind lex term := by
  unfold cursorFind
  congr 1
  funext t
  rw [Bool.eq_iff_iff, lexLe_iff, lexLe_iff, ← List.not_lt, ← List.not_lt, henc]

theorem valid_all_isScalar {s : List Nat} (h : Valid s) : s.all isScalar = true := by
  rw [List.all_eq_true]
  intro c hc
  exact (scalar_iff c).mp (h c hc)

/-- `cur.find(term)` on the byte-ordered dictionary, for a term of real characters: no
    `UnicodeEncodeError`, and the first term at or after `term` in code point order. -/
theorem cursorFindBytes_eq (lex : List (List Nat)) {term : List Nat} (h : Valid term) :
    cursorFindBytes lex term = .ok (cursorFind lex term) := by
  unfold cursorFindBytes utf8Encode
  rw [if_pos (valid_all_isScalar h)]
  simp only
  rw [cursor_enc utf8 utf8_lt_iff]

/-- A surrogate cannot be looked up: this is why `find_next_edge` must not produce one. -/
theorem cursorFindBytes_surrogate (lex : List (List Nat)) :
    cursorFindBytes lex [97, 0xD800] = .error .encodeError := by
  simp [cursorFindBytes, utf8Encode, isScalar, maxCodePoint]

/-- The term dictionary: strictly ascending key bytes. -/
def SortedBytes (lex : List (List Nat)) : Prop := (lex.map utf8).Pairwise (· < ·)

theorem sortedBytes_iff (lex : List (List Nat)) : SortedBytes lex ↔ SortedLex lex := by
  unfold SortedBytes SortedLex
  rw [List.pairwise_map]
  constructor
  · intro h; exact h.imp fun hab => (utf8_lt_iff _ _).mp hab
  · intro h; exact h.imp fun hab => (utf8_lt_iff _ _).mpr hab

/-! ### The walk -/

theorem findLoopBytes_eq (acc : List Nat → Bool) (nv : List Nat → Except Err (Option (List Nat)))
    (hnv : NextValidSpec acc nv) (lex : List (List Nat)) (hv : ∀ t, t ∈ lex → Valid t) :
    ∀ (fuel : Nat) (m : Option (List Nat)), (∀ x, m = some x → Valid x) →
      findLoopBytes nv lex fuel m = findLoop nv lex fuel m := by
  -- what `nv` returns on a string of real characters is a string of real characters
  have hnvv : ∀ s r, Valid s → nv s = .ok r → ∀ x, r = some x → Valid x := by
    intro s r hs hr x hx
    subst hx
    rcases hnv s hs with ⟨h, _⟩ | ⟨m2, h, _, _, _, hvm⟩
    · rw [h] at hr; cases hr
    · rw [h] at hr
      simp only [Except.ok.injEq, Option.some.injEq] at hr
      subst hr; exact hvm
  intro fuel
  induction fuel with
  | zero =>
    intro m _
    cases m with
    | none => rfl
    | some x => rfl
  | succ fuel ih =>
    intro m hm
    cases m with
    | none => rfl
    | some x =>
      have hvx : Valid x := hm x rfl
      rw [findLoopBytes, findLoop, cursorFindBytes_eq lex hvx]
      cases hc : cursorFind lex x with
      | none => rfl
      | some term =>
        simp only
        have hmem : term ∈ lex := List.mem_of_find?_eq_some hc
        have hvt : Valid term := hv term hmem
        by_cases heq : x = term
        · rw [if_pos heq, if_pos heq]
          cases hr : nv (term ++ [0]) with
          | error e => rfl
          | ok m' =>
            simp only
            rw [ih m' (hnvv _ m' (valid_snoc_zero hvt) hr)]
        · rw [if_neg heq, if_neg heq]
          cases hr : nv term with
          | error e => rfl
          | ok m' =>
            simp only
            rw [ih m' (hnvv _ m' hvt hr)]

theorem findMatchesBytes_eq (acc : List Nat → Bool) (nv : List Nat → Except Err (Option (List Nat)))
    (hnv : NextValidSpec acc nv) (lex : List (List Nat)) (hv : ∀ t, t ∈ lex → Valid t) :
    findMatchesBytes nv lex = findMatches nv lex := by
  unfold findMatchesBytes findMatches
  cases hh : lex.head? with
  | none => rfl
  | some t0 =>
    simp only
    have hv0 : Valid t0 := hv t0 (List.mem_of_mem_head? hh)
    cases hr : nv t0 with
    | error e => rfl
    | ok m =>
      simp only
      apply findLoopBytes_eq acc nv hnv lex hv
      intro x hx
      subst hx
      rcases hnv t0 hv0 with ⟨h, _⟩ | ⟨m2, h, _, _, _, hvm⟩
      · rw [h] at hr; cases hr
      · rw [h] at hr
        simp only [Except.ok.injEq, Option.some.injEq] at hr
        subst hr; exact hvm

end WM.Lev
