import WM.Model.CompoundBytes
import WM.Lemmas.Compound
import WM.Lemmas.HashBytes
/-! Helper lemmas for the byte level of the compound file header. -/
set_option linter.unusedSimpArgs false
namespace WM.Compound
open WM.StructFile WM.NumLists
open WM.IdSets (Err)

/-- members are found in any file that has the member bytes where `assemble` put them, whatever the
    12 header bytes hold and whatever follows -/
theorem openFile_layout (before : Bytes) (files : List (String × Bytes)) (pre suf : Bytes)
    (hpre : pre.length = before.length + headerSize)
    (hnd : (files.map (·.1)).Nodup) (name : String) (data : Bytes) (hmem : (name, data) ∈ files) :
    openFile (pre ++ (copyFiles (before.length + headerSize) files).1 ++ suf)
      (copyFiles (before.length + headerSize) files).2 name = some data := by
  unfold openFile
  have hnames := copyFiles_names files (before.length + headerSize)
  have hin : name ∈ ((copyFiles (before.length + headerSize) files).2).map (·.name) := by
    rw [hnames]; exact List.mem_map.mpr ⟨(name, data), hmem, rfl⟩
  rcases lookup_isSome hin with ⟨e, he⟩
  rw [he]
  simp only [Option.map_some]
  rcases lookup_mem he with ⟨hedir, hename⟩
  rcases copyFiles_slice files (before.length + headerSize) pre suf hpre e hedir with ⟨d, hd, hslice⟩
  rw [hslice]
  congr 1
  rw [hename] at hd
  have : ∀ (l : List (String × Bytes)), (l.map (·.1)).Nodup → (name, d) ∈ l → (name, data) ∈ l → d = data := by
    intro l
    induction l with
    | nil => intro _ h; simp at h
    | cons a t ih =>
      intro hn h1 h2
      simp only [List.map_cons, List.nodup_cons] at hn
      simp only [List.mem_cons] at h1 h2
      rcases h1 with h1 | h1 <;> rcases h2 with h2 | h2
      · rw [← h1] at h2; exact ((Prod.mk.inj h2).2).symm
      · exfalso; apply hn.1; rw [← h1]; exact List.mem_map.mpr ⟨(name, data), h2, rfl⟩
      · exfalso; apply hn.1; rw [← h2]; exact List.mem_map.mpr ⟨(name, d), h1, rfl⟩
      · exact ih hn.2 h1 h2
  exact this files hnd hd hmem

/-- the finished file, spelled out: bytes before, `!q dirpos`, `!i len(pickles)`, members, pickles -/
theorem assembleFile_eq (before : Bytes) (files : List (String × Bytes)) (pickled : Bytes)
    (hpos : ((assemble before files).2.2 : Int) < 2 ^ 63) (hlen : (pickled.length : Int) < 2 ^ 31) :
    assembleFile before files pickled = .ok (before ++ encodeBE 8 (assemble before files).2.2
      ++ encodeBE 4 pickled.length ++ (copyFiles (before.length + headerSize) files).1 ++ pickled) := by
  unfold assembleFile writeDir
  have hdl : (assemble before files).1.length = (assemble before files).2.2 := by
    unfold assemble; simp [headerSize]; omega
  rw [hdl]
  have hq : TC.fits .q ((assemble before files).2.2 : Int) = true :=
    WM.HashBytes.fitsNat .q _ (by rw [cap_q]; exact hpos)
  have hi : TC.fits .i (pickled.length : Int) = true :=
    WM.HashBytes.fitsNat .i _ (by rw [cap_i]; exact hlen)
  dsimp only
  rw [pack_nat .q _ hq, pack_nat .i _ hi]
  simp only [bind, Except.bind, TC.size]
  refine congrArg Except.ok ?_
  unfold assemble
  simp only [List.append_assoc]
  rw [List.take_left' rfl]
  have : (before ++ (List.replicate headerSize 0 ++ ((copyFiles (before.length + headerSize) files).1 ++ pickled))).drop
      (before.length + headerSize) = (copyFiles (before.length + headerSize) files).1 ++ pickled := by
    rw [← List.drop_drop, List.drop_left]
    exact List.drop_left' (by simp)
  rw [this]

end WM.Compound
