import WM.Lemmas.SearchCursorMain
import WM.Model.SearchTop
/-!
`Term.matcher` on the TOP searcher of a multi-segment index (what `Query.docs(searcher)` and
`Query.matcher(searcher)` read): `MultiReader.postings` builds one posting reader per sub-reader that
has the term and a `MultiMatcher` over them with the sub-readers' document offsets — the matcher
family's `multi` node (C11 `multi_constructor_wf`).  Its result list is the concatenation of the
per-segment posting lists shifted by the offsets, i.e. what the segment-by-segment run enumerates.
-/
namespace WM.Compile
open WM.Search
open WM.Matcher (Any mkMulti WF Multi IdSub)

theorem listSt_eq (l : PL) : listSt l = listM l := rfl

/-- the per-segment posting lists of a term one after the other, in global document numbers -/
def gpost (ls : LeafScore) (f : String) (t : Term) : Nat → Index → PL
  | _, [] => []
  | off, s :: rest => shift off (postings ls s f t) ++ gpost ls f t (off + s.size) rest

theorem postings_nil_of_not_lexicon (ls : LeafScore) (s : Segment) (f : String) (t : Term)
    (h : ¬ t ∈ lexicon s f) : postings ls s f t = [] := by
  unfold postings
  have : s.live.filter (fun i => (s.doc i).hasTerm f t) = [] := by
    rw [List.filter_eq_nil_iff]
    intro i hi hh
    apply h
    rw [mem_lexicon]
    have h1 := (List.mem_filter.mp hi).1
    have hlt : i < s.docs.length := by simpa [Segment.size] using h1
    refine ⟨s.docs[i], List.getElem_mem hlt, ?_⟩
    have hd : s.doc i = s.docs[i] := by
      unfold Segment.doc
      simp [List.getD, List.getElem?_eq_getElem hlt]
    rw [hd] at hh
    simpa [Doc.hasTerm] using hh
  rw [this]; rfl

theorem toPL_shift (off : Nat) (A : WM.Matcher.Den) : toPL (WM.Matcher.shift off A) = shift off (toPL A) := by
  simp [toPL, WM.Matcher.shift, shift, List.map_map, Function.comp_def]

theorem toPL_append (A B : WM.Matcher.Den) : toPL (A ++ B) = toPL A ++ toPL B := by
  simp [toPL]

theorem den_listM (l : PL) : toPL (WM.Matcher.den .list (listM l)) = l := den_listOf l

theorem full_eq_den_listM (l : PL) : WM.Matcher.full .list (listM l) = WM.Matcher.den .list (listM l) := rfl

/-- what the `MultiMatcher` enumerates (remaining = complete list at construction) -/
theorem topSegs_den (ls : LeafScore) (f : String) (t : Term) : ∀ (idx : Index) (off : Nat),
    toPL (Multi.denOf (WM.Matcher.den .list) (topSegs ls f t off idx)) = gpost ls f t off idx ∧
    Multi.denOf (WM.Matcher.full .list) (topSegs ls f t off idx) =
      Multi.denOf (WM.Matcher.den .list) (topSegs ls f t off idx)
  | [], _ => ⟨rfl, rfl⟩
  | s :: rest, off => by
    obtain ⟨ih1, ih2⟩ := topSegs_den ls f t rest (off + s.size)
    by_cases h : (lexicon s f).contains t = true
    · simp only [topSegs, h, if_true, listSt_eq, Multi.denOf, gpost, toPL_append, toPL_shift, den_listM, ih1, ih2, full_eq_den_listM]
      exact ⟨trivial, trivial⟩
    · have hn : ¬ t ∈ lexicon s f := by simpa using h
      simp only [topSegs, h, gpost, postings_nil_of_not_lexicon ls s f t hn]
      exact ⟨by simpa [shift] using ih1, ih2⟩

theorem gpost_sorted (ls : LeafScore) (f : String) (t : Term) : ∀ (idx : Index) (off : Nat),
    Sorted (gpost ls f t off idx) ∧ ∀ e ∈ gpost ls f t off idx, off ≤ e.id
  | [], _ => ⟨List.Pairwise.nil, by intro e he; cases he⟩
  | s :: rest, off => by
    obtain ⟨ih1, ih2⟩ := gpost_sorted ls f t rest (off + s.size)
    have hs := postings_sorted ls s f t
    have hlt := postings_id_lt ls s f t
    refine ⟨?_, ?_⟩
    · show List.Pairwise _ (shift off (postings ls s f t) ++ gpost ls f t (off + s.size) rest)
      rw [List.pairwise_append]
      refine ⟨?_, ih1, ?_⟩
      · unfold shift
        rw [List.pairwise_map]
        exact hs.imp (fun h => by simpa using h)
      · intro a ha b hb
        obtain ⟨e, he, rfl⟩ := List.mem_map.mp ha
        have := hlt e he
        have := ih2 b hb
        show e.id + off < b.id
        omega
    · intro e he
      rcases List.mem_append.mp he with h | h
      · obtain ⟨e', _, rfl⟩ := List.mem_map.mp h
        show off ≤ e'.id + off
        omega
      · have := ih2 e h
        omega

theorem topSegs_wf (ls : LeafScore) (f : String) (t : Term) : ∀ (idx : Index) (off : Nat),
    ∀ x ∈ topSegs ls f t off idx, WF .list x.1 ∧
      IdSub (WM.Matcher.den .list x.1) (WM.Matcher.full .list x.1)
  | [], _ => by intro x hx; cases hx
  | s :: rest, off => by
    intro x hx
    by_cases h : (lexicon s f).contains t = true
    · simp only [topSegs, h, if_true, List.mem_cons] at hx
      rcases hx with rfl | hx
      · exact ⟨(denotes_listOf (postings_sorted ls s f t)).1, IdSub.refl _⟩
      · exact topSegs_wf ls f t rest (off + s.size) x hx
    · simp only [topSegs, h] at hx
      exact topSegs_wf ls f t rest (off + s.size) x hx

theorem asc_of_sorted_toPL {L : WM.Matcher.Den} (h : Sorted (toPL L)) : WM.Matcher.Asc L := by
  unfold Sorted toPL at h
  rw [List.pairwise_map] at h
  exact h

theorem runFrom_term (ls : LeafScore) (so : ShapeOracle) (ctx : Ctx) (f : String) (t : Term) (b : Rat) :
    ∀ (idx : Index) (off : Nat), runFrom ls so ctx (.term f t b) off idx = boostL b (gpost ls f t off idx)
  | [], _ => rfl
  | s :: rest, off => by
    simp only [runFrom, gpost, compile, runFrom_term ls so ctx f t b rest (off + s.size)]
    simp [boostL, shift, List.map_map, Function.comp_def]

/-- the top-level term matcher is well formed and denotes the segment-by-segment run -/
theorem topTerm_denotes (ls : LeafScore) (so : ShapeOracle) (ctx : Ctx) (idx : Index) (f : String) (t : Term)
    (b : Rat) : Denotes (topTerm ls idx f t b) (run ls so ctx (.term f t b) idx) := by
  obtain ⟨h1, h2⟩ := topSegs_den ls f t idx 0
  have hrun : run ls so ctx (.term f t b) idx = boostL b (gpost ls f t 0 idx) := runFrom_term ls so ctx f t b idx 0
  rw [hrun]
  unfold topTerm
  split
  · rename_i hnil
    rw [hnil] at h1
    have : gpost ls f t 0 idx = [] := by rw [← h1]; rfl
    rw [this]
    exact denotes_null
  · rename_i segs hne
    apply denotes_boostM
    have hw := topSegs_wf ls f t idx 0
    have hasc : WM.Matcher.Asc (Multi.denOf (WM.Matcher.full .list) (topSegs ls f t 0 idx)) := by
      rw [h2]
      apply asc_of_sorted_toPL
      rw [h1]
      exact (gpost_sorted ls f t idx 0).1
    obtain ⟨g1, g2⟩ := WM.C11.multi_constructor_wf .list (topSegs ls f t 0 idx)
      (fun s hs => (hw s hs).1) (fun s hs => (hw s hs).2) hasc
    exact ⟨g1, by rw [g2, h1]⟩

end WM.Compile
