import WM.Lemmas.QualityInter
/-! Quality contract of the single-child wrappers: boost, Filter, ConstantScore, Inverse. -/
namespace WM.Matcher

theorem bind_pure_ok_inv {α β : Type} {x : R α} {f : α → β} {y : β}
    (h : (do let c ← x; pure (f c)) = (Except.ok y : R β)) : ∃ c, x = .ok c ∧ y = f c := by
  cases x with
  | error e => cases h
  | ok c => exact ⟨c, rfl, by cases h; rfl⟩

theorem nonNeg_scale {w : Rat} {C : Den} (hw : 0 ≤ w) (n : NonNegDen C) : NonNegDen (scale w C) := by
  intro p hp
  obtain ⟨e, he, rfl⟩ := List.mem_map.1 hp
  exact Rat.mul_nonneg (n e he) hw

theorem bounded_scale {w q : Rat} {C : Den} (hw : 0 ≤ w) (b : BoundedBy q C) : BoundedBy (q * w) (scale w C) := by
  intro p hp
  obtain ⟨e, he, rfl⟩ := List.mem_map.1 hp
  exact Rat.mul_le_mul_of_nonneg_right (b e he) hw

theorem keeps_scale {q w : Rat} {C C' : Den} (hw : 0 < w) (hC : Asc C) (hC' : Asc C') (K : Keeps (q / w) C' C) :
    Keeps q (scale w C') (scale w C) :=
  keeps_map_key (fun r => r * w) hC hC' K (fun a b hab => Rat.mul_le_mul_of_nonneg_right hab (Rat.le_of_lt hw))
    (fun r hr => (Rat.div_lt_iff hw).2 hr)

/-! ### boost -/
namespace Boost
variable {α : Type} {A : Ops α} {dA fA : α → Den} {WQA W0A : α → Prop}

theorem boost_next {m m' : Boost α} (h : (Boost.ops A).next m = .ok m') : m'.boost = m.boost := by
  obtain ⟨c, -, rfl⟩ := bind_pure_ok_inv (f := fun c => ({ m with child := c } : Boost α)) h; rfl
theorem boost_skipTo {m m' : Boost α} {t : Nat} (h : (Boost.ops A).skipTo m t = .ok m') : m'.boost = m.boost := by
  obtain ⟨c, -, rfl⟩ := bind_pure_ok_inv (f := fun c => ({ m with child := c } : Boost α)) h; rfl
theorem boost_reset {m m' : Boost α} (h : (Boost.ops A).reset m = .ok m') : m'.boost = m.boost := by
  obtain ⟨c, -, rfl⟩ := bind_pure_ok_inv (f := fun c => ({ m with child := c } : Boost α)) h; rfl

theorem faithful_static {W : α → Prop} (PB : Rat → Prop) (FA : Faithful A dA fA W) :
    Faithful (Boost.ops A) (fun m => scale m.boost (dA m.child)) (fun m => scale m.boost (fA m.child))
      (fun m => W m.child ∧ PB m.boost) :=
  (Boost.faithful FA).strengthen (fun m => PB m.boost)
    (fun _ _ _ hp h => by rw [boost_next h]; exact hp)
    (fun _ _ _ _ hp h => by rw [boost_skipTo h]; exact hp)
    (fun _ _ _ hp h => by rw [boost_reset h]; exact hp)

/-- `PB` is the side condition on the boost (`0 < boost` for the quality bounds; `0 < boost ≤ 1` where
    `replace()` is concerned, see `WM.C12.replace_keeps_partial`) -/
theorem qfaithful (PB : Rat → Prop) (hPB : ∀ b, PB b → 0 < b) (QA : QFaithful A dA fA WQA W0A) :
    QFaithful (Boost.ops A) (fun m => scale m.boost (dA m.child)) (fun m => scale m.boost (fA m.child))
      (fun m => WQA m.child ∧ PB m.boost) (fun m => W0A m.child ∧ PB m.boost) where
  toW0 m h := ⟨QA.toW0 _ h.1, h.2⟩
  cur0 := faithful_static PB QA.cur0
  curQ := faithful_static PB QA.curQ
  nn m h := nonNeg_scale (Rat.le_of_lt (hPB _ h.2)) (QA.nn _ h.1)
  sup m h := QA.sup _ h.1
  max m h := by
    obtain ⟨q, h1, h2⟩ := QA.max m.child h.1
    exact ⟨q * m.boost, by show (do let s ← A.maxQuality m.child; pure (s * m.boost)) = _; rw [h1]; rfl,
      bounded_scale (Rat.le_of_lt (hPB _ h.2)) h2⟩
  maxNonneg m q h hq := by
    obtain ⟨c, hc, rfl⟩ := bind_pure_ok_inv (f := fun s => s * m.boost) hq
    exact Rat.mul_nonneg (QA.maxNonneg _ _ h.1 hc) (Rat.le_of_lt (hPB _ h.2))
  block m h := by
    obtain ⟨q, h1, h2⟩ := QA.block m.child h.1
    refine ⟨q * m.boost, by show (do let s ← A.blockQuality m.child; pure (s * m.boost)) = _; rw [h1]; rfl, ?_⟩
    intro x r L hd
    cases hc : dA m.child with
    | nil => simp [hc, scale] at hd
    | cons p L' =>
      obtain ⟨x', r'⟩ := p
      simp only [hc, scale, List.map_cons, List.cons.injEq, Prod.mk.injEq] at hd
      obtain ⟨⟨-, rfl⟩, -⟩ := hd
      exact Rat.mul_le_mul_of_nonneg_right (h2 _ _ _ hc) (Rat.le_of_lt (hPB _ h.2))
  skipQ m q h hne := by
    show ∃ s' k, Boost.skipToQuality A m q = _ ∧ _
    unfold Boost.skipToQuality
    have hpos := hPB _ h.2
    have hb0 : ¬ m.boost ≤ 0 := by grind
    have hne' : dA m.child ≠ [] := by intro e; apply hne; simp [e, scale]
    obtain ⟨c, k, g1, g2, g3, g4, g5, g6⟩ := QA.skipQ m.child (q / m.boost) h.1 hne'
    refine ⟨{ m with child := c }, k, by simp [hb0, g1, bind, Except.bind]; rfl, ⟨g2, h.2⟩, ?_, g4, ?_, by simp only [g6]⟩
    · exact keeps_scale hpos (QA.curQ.asc _ h.1) (QA.curQ.asc _ g2) g3
    · intro hd
      apply g5
      intro e; apply hd; simp only [e]

end Boost

/-! ### constant score -/
namespace Const
variable {α : Type} {A : Ops α} {dA fA : α → Den} {WQA W0A : α → Prop}

theorem score_next {m m' : Const α} (h : (Const.ops A).next m = .ok m') : m'.score = m.score := by
  obtain ⟨c, -, rfl⟩ := bind_pure_ok_inv (f := fun c => ({ m with child := c } : Const α)) h; rfl
theorem score_skipTo {m m' : Const α} {t : Nat} (h : (Const.ops A).skipTo m t = .ok m') : m'.score = m.score := by
  obtain ⟨c, -, rfl⟩ := bind_pure_ok_inv (f := fun c => ({ m with child := c } : Const α)) h; rfl
theorem score_reset {m m' : Const α} (h : (Const.ops A).reset m = .ok m') : m'.score = m.score := by
  obtain ⟨c, -, rfl⟩ := bind_pure_ok_inv (f := fun c => ({ m with child := c } : Const α)) h; rfl

theorem faithful_nn {W : α → Prop} (FA : Faithful A dA fA W) :
    Faithful (Const.ops A) (fun m => constScore m.score (dA m.child)) (fun m => constScore m.score (fA m.child))
      (fun m => W m.child ∧ 0 ≤ m.score) :=
  (Const.faithful FA).strengthen (fun m => 0 ≤ m.score)
    (fun _ _ _ hp h => by rw [score_next h]; exact hp)
    (fun _ _ _ _ hp h => by rw [score_skipTo h]; exact hp)
    (fun _ _ _ hp h => by rw [score_reset h]; exact hp)

theorem qfaithful (QA : QFaithful A dA fA WQA W0A) :
    QFaithful (Const.ops A) (fun m => constScore m.score (dA m.child)) (fun m => constScore m.score (fA m.child))
      (fun m => WQA m.child ∧ 0 ≤ m.score) (fun m => W0A m.child ∧ 0 ≤ m.score) where
  toW0 m h := ⟨QA.toW0 _ h.1, h.2⟩
  cur0 := faithful_nn QA.cur0
  curQ := faithful_nn QA.curQ
  nn m h := by
    intro p hp
    obtain ⟨e, -, rfl⟩ := List.mem_map.1 hp
    exact h.2
  sup m h := QA.sup _ h.1
  max m h := by
    refine ⟨m.score, rfl, ?_⟩
    intro p hp
    obtain ⟨e, -, rfl⟩ := List.mem_map.1 hp
    exact Rat.le_refl
  maxNonneg m q h hq := by cases hq; exact h.2
  block m h := by
    refine ⟨m.score, rfl, ?_⟩
    intro x r L hd
    have : (x, r) ∈ constScore m.score (dA m.child) := by rw [hd]; exact List.mem_cons_self
    obtain ⟨e, -, he⟩ := List.mem_map.1 this
    cases he; exact Rat.le_refl
  skipQ m q h _ := ⟨m, 0, rfl, h, Keeps.refl _ _, Nat.le_refl _, fun hd => absurd rfl hd, rfl⟩

end Const

/-! ### Filter -/
namespace Filter
variable {α : Type} {A : Ops α} {dA fA : α → Den} {WQA W0A : α → Prop}

theorem findNext_boost {m m' : Filter α} (h : findNext A m = .ok m') : m'.boost = m.boost := by
  obtain ⟨c, -, rfl⟩ := bind_pure_ok_inv (f := fun c => ({ m with child := c } : Filter α)) h; rfl

theorem bind_findNext_boost {x : R α} {m m' : Filter α}
    (h : (do let c ← x; findNext A { m with child := c }) = .ok m') : m'.boost = m.boost := by
  cases x with
  | error e => cases h
  | ok c => exact findNext_boost (m := { m with child := c }) h

theorem faithful_static {W : α → Prop} (PB : Rat → Prop) (FA : Faithful A dA fA W) :
    Faithful (Filter.ops A) (fun m => scale m.boost (keepIds m.ids m.exclude (dA m.child)))
      (fun m => scale m.boost (keepIds m.ids m.exclude (fA m.child)))
      (fun m => (W m.child ∧ Passes dA m.ids m.exclude m.child) ∧ PB m.boost) :=
  (Filter.faithful FA).strengthen (fun m => PB m.boost)
    (fun _ _ _ hp h => by rw [bind_findNext_boost h]; exact hp)
    (fun _ _ _ _ hp h => by rw [bind_findNext_boost h]; exact hp)
    (fun _ _ _ hp h => by rw [bind_findNext_boost h]; exact hp)

theorem keepIds_subset (S : List Nat) (excl : Bool) (C : Den) : ∀ p ∈ keepIds S excl C, p ∈ C :=
  fun p hp => (List.mem_filter.1 hp).1

theorem qfaithful (PB : Rat → Prop) (hPB : ∀ b, PB b → 0 < b) (QA : QFaithful A dA fA WQA W0A) :
    QFaithful (Filter.ops A) (fun m => scale m.boost (keepIds m.ids m.exclude (dA m.child)))
      (fun m => scale m.boost (keepIds m.ids m.exclude (fA m.child)))
      (fun m => (WQA m.child ∧ Passes dA m.ids m.exclude m.child) ∧ PB m.boost)
      (fun m => (W0A m.child ∧ Passes dA m.ids m.exclude m.child) ∧ PB m.boost) where
  toW0 m h := ⟨⟨QA.toW0 _ h.1.1, h.1.2⟩, h.2⟩
  cur0 := faithful_static PB QA.cur0
  curQ := faithful_static PB QA.curQ
  nn m h := nonNeg_scale (Rat.le_of_lt (hPB _ h.2)) (nonNeg_sublist (keepIds_subset _ _ _) (QA.nn _ h.1.1))
  sup m h := QA.sup _ h.1.1
  max m h := by
    obtain ⟨q, h1, h2⟩ := QA.max m.child h.1.1
    exact ⟨q * m.boost, by show (do let s ← A.maxQuality m.child; pure (s * m.boost)) = _; rw [h1]; rfl,
      bounded_scale (Rat.le_of_lt (hPB _ h.2)) (bounded_sublist (keepIds_subset _ _ _) h2)⟩
  maxNonneg m q h hq := by
    obtain ⟨c, hc, rfl⟩ := bind_pure_ok_inv (f := fun s => s * m.boost) hq
    exact Rat.mul_nonneg (QA.maxNonneg _ _ h.1.1 hc) (Rat.le_of_lt (hPB _ h.2))
  block m h := by
    obtain ⟨q, h1, h2⟩ := QA.block m.child h.1.1
    refine ⟨q * m.boost, by show (do let s ← A.blockQuality m.child; pure (s * m.boost)) = _; rw [h1]; rfl, ?_⟩
    intro x r L hd
    have hne : dA m.child ≠ [] := by intro h0; simp [h0, keepIds, scale] at hd
    obtain ⟨x', r', L', hc⟩ := exists_cons_of_ne_nil hne
    rw [den_cons QA.curQ m h.1.2 hc] at hd
    obtain ⟨h4, -⟩ := List.cons.inj hd; cases h4
    exact Rat.mul_le_mul_of_nonneg_right (h2 _ _ _ hc) (Rat.le_of_lt (hPB _ h.2))
  skipQ m q h hne := by
    show ∃ s' k, Filter.skipToQuality A m q = _ ∧ _
    unfold Filter.skipToQuality
    have hpos := hPB _ h.2
    have hb0 : ¬ m.boost ≤ 0 := by grind
    have hne' : dA m.child ≠ [] := by intro e; apply hne; simp [e, keepIds, scale]
    obtain ⟨c, k, g1, g2, g3, g4, g5, g6⟩ := QA.skipQ m.child (q / m.boost) h.1.1 hne'
    obtain ⟨m', f1, e1, e2, e3, f2, f3, f4, f5, f6, f7⟩ := findNext_spec QA.curQ { m with child := c } g2
    simp only at e1 e2 e3 f3 f4 f5 f6 f7
    refine ⟨m', k, by simp [hb0, g1, f1, bind, Except.bind]; rfl, ⟨⟨f2, by rw [e1, e2]; exact f3⟩, by rw [e3]; exact h.2⟩,
      ?_, (by show A.rem m'.child ≤ A.rem m.child; omega), ?_, by simp only [e1, e2, e3, f7, g6]⟩
    · simp only [e1, e2, e3, f4]
      exact keeps_scale hpos (asc_keepIds _ _ (QA.curQ.asc _ h.1.1)) (asc_keepIds _ _ (QA.curQ.asc _ g2))
        (keeps_keepIds _ _ (QA.curQ.asc _ h.1.1) (QA.curQ.asc _ g2) g3)
    · intro hd
      show A.rem m'.child < A.rem m.child
      by_cases e : A.rem m'.child < A.rem m.child
      · exact e
      · exfalso
        have d1 : dA c = dA m.child := Classical.byContradiction fun hh => by have := g5 hh; omega
        apply hd
        simp only [e1, e2, e3, f6 (by omega), d1]

end Filter

/-! ### Inverse (never supports block quality; `max_quality` is its own weight) -/

theorem Faithful.of_false {σ : Type} (O : Ops σ) (den full : σ → Den) : Faithful O den full (fun _ => False) where
  asc _ h := h.elim
  active _ h := h.elim
  id _ _ _ _ h := h.elim
  score _ _ _ _ h := h.elim
  next _ _ _ _ h := h.elim
  skipTo _ _ h := h.elim
  reset _ h := h.elim

namespace Inverse
variable {α : Type} {A : Ops α} {dA fA : α → Den} {WQA W0A : α → Prop}

theorem findNext_weight {m m' : Inverse α} (h : findNext A m = .ok m') : m'.weight = m.weight := by
  unfold findNext at h
  cases hl : findLoop A m.limit m.missing ((m.limit - m.id) + A.rem m.child + 1) m.child m.id with
  | error e => rw [hl] at h; cases h
  | ok p => obtain ⟨c, i⟩ := p; rw [hl] at h; cases h; rfl

theorem weight_next {m m' : Inverse α} (h : (Inverse.ops A).next m = .ok m') : m'.weight = m.weight := by
  change (if m.id ≥ m.limit then Except.error Err.readTooFar else findNext A { m with id := m.id + 1 }) = _ at h
  split at h
  · cases h
  · exact findNext_weight (m := { m with id := m.id + 1 }) h

theorem weight_skipTo {m m' : Inverse α} {t : Nat} (h : (Inverse.ops A).skipTo m t = .ok m') : m'.weight = m.weight := by
  change (if m.id ≥ m.limit then Except.error Err.readTooFar
    else if t < m.id then Except.ok m else findNext A { m with id := t }) = _ at h
  split at h
  · cases h
  · split at h
    · cases h; rfl
    · exact findNext_weight (m := { m with id := t }) h

theorem weight_reset {m m' : Inverse α} (h : (Inverse.ops A).reset m = .ok m') : m'.weight = m.weight := by
  change (do let c ← A.reset m.child; findNext A { m with child := c, id := 0 }) = _ at h
  cases hc : A.reset m.child with
  | error e => rw [hc] at h; cases h
  | ok c => rw [hc] at h; exact findNext_weight (m := { m with child := c, id := 0 }) h

theorem qfaithful (QA : QFaithful A dA fA WQA W0A) :
    QFaithful (Inverse.ops A) (fun m => complement m.id m.limit m.missing (dA m.child) m.weight)
      (fun m => complement 0 m.limit m.missing (fA m.child) m.weight) (fun _ => False)
      (fun m => (W0A m.child ∧ Stops dA m.limit m.missing m.child m.id) ∧ 0 ≤ m.weight) where
  toW0 _ h := h.elim
  cur0 := (Inverse.faithful QA.cur0).strengthen (fun m => 0 ≤ m.weight)
    (fun _ _ _ hp h => by rw [weight_next h]; exact hp)
    (fun _ _ _ _ hp h => by rw [weight_skipTo h]; exact hp)
    (fun _ _ _ hp h => by rw [weight_reset h]; exact hp)
  curQ := Faithful.of_false _ _ _
  nn m h := by
    intro p hp
    obtain ⟨i, -, rfl⟩ := List.mem_map.1 hp
    exact h.2
  sup _ h := h.elim
  max m h := by
    refine ⟨m.weight, rfl, ?_⟩
    intro p hp
    obtain ⟨i, -, rfl⟩ := List.mem_map.1 hp
    exact Rat.le_refl
  maxNonneg m q h hq := by cases hq; exact h.2
  block _ h := h.elim
  skipQ _ _ h := h.elim

end Inverse

end WM.Matcher
