import WM.Lemmas.QualityWrap
import WM.Lemmas.QualityMulti
import WM.Lemmas.QualityCombo
/-! The quality contract (C12) assembled along the `Shape`. -/
namespace WM.Matcher

/-- Invariant of every matcher tree whose scores are non-negative: `WF` plus non-negative weights/boosts/
    constants and true block/term statistics with a monotone scorer at the posting-list leaves. -/
def W0 (PB : Rat → Prop) : (s : Shape) → St s → Prop
  | .null, _ => True
  | .list, m => ListM.WF m ∧ ListM.NN m
  | .leaf, m => LeafM.WF m ∧ LeafM.QData m
  | .union a b, m => W0 PB a m.a ∧ W0 PB b m.b
  | .dismax a b, m => W0 PB a m.a ∧ W0 PB b m.b
  | .inter a b, m => W0 PB a m.a ∧ W0 PB b m.b ∧ Inter.Aligned (den a) (den b) m
  | .andNot a b, m => W0 PB a m.a ∧ W0 PB b m.b ∧ AndNot.Ahead (den a) (den b) m
  | .andMaybe a b, m => W0 PB a m.a ∧ W0 PB b m.b ∧ AndMaybe.NotBehind (den a) (den b) m
  | .require a b, m => W0 PB a m.a ∧ W0 PB b m.b ∧ Inter.Aligned (den a) (den b) m
  | .boost c, m => W0 PB c m.child ∧ PB m.boost
  | .filter c, m => (W0 PB c m.child ∧ Filter.Passes (den c) m.ids m.exclude m.child) ∧ PB m.boost
  | .inverse c, m => (W0 PB c m.child ∧ Inverse.Stops (den c) m.limit m.missing m.child m.id) ∧ 0 ≤ m.weight
  | .const c, m => W0 PB c m.child ∧ 0 ≤ m.score
  | .multi c, m => Multi.WF (ops c) (den c) (full c) (W0 PB c) m
  | .aunion c, m => AUnion.WF (den c) (full c) (W0 PB c) m

/-- … and, in addition, every part whose quality is consulted supports block quality (`supports_block_quality()`):
    list leaves carry a scorer, no `InverseMatcher` on a scored path. -/
def WQ (PB : Rat → Prop) : (s : Shape) → St s → Prop
  | .null, _ => True
  | .list, m => (ListM.WF m ∧ ListM.NN m) ∧ m.scorer = true
  | .leaf, m => LeafM.WF m ∧ LeafM.QData m
  | .union a b, m => WQ PB a m.a ∧ WQ PB b m.b
  | .dismax a b, m => WQ PB a m.a ∧ WQ PB b m.b
  | .inter a b, m => WQ PB a m.a ∧ WQ PB b m.b ∧ Inter.Aligned (den a) (den b) m
  | .andNot a b, m => WQ PB a m.a ∧ W0 PB b m.b ∧ AndNot.Ahead (den a) (den b) m
  | .andMaybe a b, m => WQ PB a m.a ∧ WQ PB b m.b ∧ AndMaybe.NotBehind (den a) (den b) m
  | .require a b, m => WQ PB a m.a ∧ W0 PB b m.b ∧ Inter.Aligned (den a) (den b) m
  | .boost c, m => WQ PB c m.child ∧ PB m.boost
  | .filter c, m => (WQ PB c m.child ∧ Filter.Passes (den c) m.ids m.exclude m.child) ∧ PB m.boost
  | .inverse _, _ => False
  | .const c, m => WQ PB c m.child ∧ 0 ≤ m.score
  | .multi c, m => Multi.WF (ops c) (den c) (full c) (WQ PB c) m
  | .aunion c, m => AUnion.WF (den c) (full c) (WQ PB c) m

theorem tree_qfaithful (PB : Rat → Prop) (hPB : ∀ b, PB b → 0 < b) :
    ∀ s : Shape, QFaithful (ops s) (den s) (full s) (WQ PB s) (W0 PB s)
  | .null => null_qfaithful
  | .list => ListM.qfaithful
  | .leaf => LeafM.qfaithful
  | .union a b => Union.qfaithful (tree_qfaithful PB hPB a) (tree_qfaithful PB hPB b)
  | .dismax a b => DisMax.qfaithful (tree_qfaithful PB hPB a) (tree_qfaithful PB hPB b)
  | .inter a b => Inter.qfaithful (tree_qfaithful PB hPB a) (tree_qfaithful PB hPB b)
  | .andNot a b => AndNot.qfaithful (tree_qfaithful PB hPB a) (tree_qfaithful PB hPB b)
  | .andMaybe a b => AndMaybe.qfaithful (tree_qfaithful PB hPB a) (tree_qfaithful PB hPB b)
  | .require a b => Require.qfaithful (tree_qfaithful PB hPB a) (tree_qfaithful PB hPB b)
  | .boost c => Boost.qfaithful PB hPB (tree_qfaithful PB hPB c)
  | .filter c => Filter.qfaithful PB hPB (tree_qfaithful PB hPB c)
  | .inverse c => Inverse.qfaithful (tree_qfaithful PB hPB c)
  | .const c => Const.qfaithful (tree_qfaithful PB hPB c)
  | .multi c => Multi.qfaithful (tree_qfaithful PB hPB c)
  | .aunion c => AUnion.qfaithful (tree_qfaithful PB hPB c)

/-- `W0` implies the plain cursor invariant `WF` of C11 -/
theorem W0.wf (PB : Rat → Prop) : ∀ (s : Shape) (m : St s), W0 PB s m → WF s m
  | .null, _, _ => trivial
  | .list, _, h => h.1
  | .leaf, _, h => h.1
  | .union a b, m, h => ⟨W0.wf PB a m.a h.1, W0.wf PB b m.b h.2⟩
  | .dismax a b, m, h => ⟨W0.wf PB a m.a h.1, W0.wf PB b m.b h.2⟩
  | .inter a b, m, h => ⟨W0.wf PB a m.a h.1, W0.wf PB b m.b h.2.1, h.2.2⟩
  | .andNot a b, m, h => ⟨W0.wf PB a m.a h.1, W0.wf PB b m.b h.2.1, h.2.2⟩
  | .andMaybe a b, m, h => ⟨W0.wf PB a m.a h.1, W0.wf PB b m.b h.2.1, h.2.2⟩
  | .require a b, m, h => ⟨W0.wf PB a m.a h.1, W0.wf PB b m.b h.2.1, h.2.2⟩
  | .boost c, m, h => W0.wf PB c m.child h.1
  | .filter c, m, h => ⟨W0.wf PB c m.child h.1.1, h.1.2⟩
  | .inverse c, m, h => ⟨W0.wf PB c m.child h.1.1, h.1.2⟩
  | .const c, m, h => W0.wf PB c m.child h.1
  | .multi c, _, h => h.mono (W0.wf PB c)
  | .aunion c, _, h => h.mono (W0.wf PB c)

end WM.Matcher
