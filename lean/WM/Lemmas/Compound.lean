import WM.Model.Compound
/-! Helper lemmas for compound files. -/
set_option linter.unusedSimpArgs false
namespace WM.Compound

theorem slice_mid (pre data suf : Bytes) :
    ((pre ++ data ++ suf).drop pre.length).take data.length = data := by
  rw [List.append_assoc, List.drop_left, List.take_left]

theorem copyFiles_names : ∀ (files : List (String × Bytes)) (pos : Nat),
    (copyFiles pos files).2.map (·.name) = files.map (·.1)
  | [], _ => rfl
  | (n, d) :: rest, pos => by
    simp only [copyFiles, List.map_cons]
    rw [copyFiles_names rest]

theorem copyFiles_length : ∀ (files : List (String × Bytes)) (pos : Nat),
    (copyFiles pos files).1.length = ((files.map (·.2.length)).sum)
  | [], _ => rfl
  | (n, d) :: rest, pos => by
    simp only [copyFiles, List.length_append, List.map_cons, List.sum_cons]
    rw [copyFiles_length rest]

/-- every directory entry made by the copy loop addresses exactly the bytes of its member -/
theorem copyFiles_slice : ∀ (files : List (String × Bytes)) (pos : Nat) (pre suf : Bytes),
    pre.length = pos → ∀ e ∈ (copyFiles pos files).2,
      ∃ data, (e.name, data) ∈ files ∧
        ((pre ++ (copyFiles pos files).1 ++ suf).drop e.offset).take e.length = data
  | [], _, _, _, _ => by intro e he; simp [copyFiles] at he
  | (n, d) :: rest, pos, pre, suf, hpre => by
    intro e he
    simp only [copyFiles, List.mem_cons] at he
    rcases he with rfl | he
    · refine ⟨d, by simp, ?_⟩
      simp only [copyFiles]
      rw [← hpre]
      have : pre ++ (d ++ (copyFiles (pre.length + d.length) rest).1) ++ suf
          = pre ++ d ++ ((copyFiles (pre.length + d.length) rest).1 ++ suf) := by
        simp [List.append_assoc]
      rw [this]
      exact slice_mid pre d _
    · rcases copyFiles_slice rest (pos + d.length) (pre ++ d) suf (by simp [hpre]) e he with ⟨data, hm, hs⟩
      refine ⟨data, List.mem_cons_of_mem _ hm, ?_⟩
      simp only [copyFiles]
      have : pre ++ (d ++ (copyFiles (pos + d.length) rest).1) ++ suf
          = pre ++ d ++ (copyFiles (pos + d.length) rest).1 ++ suf := by
        simp [List.append_assoc]
      rw [this]
      exact hs

theorem lookup_mem {dir : List Entry} {name : String} {e : Entry} (h : lookup dir name = some e) :
    e ∈ dir ∧ e.name = name := by
  unfold lookup at h
  have h1 := List.mem_of_find?_eq_some h
  have h2 := List.find?_some h
  exact ⟨List.mem_reverse.mp h1, by simpa using h2⟩

theorem lookup_isSome {dir : List Entry} {name : String} (h : name ∈ dir.map (·.name)) :
    ∃ e, lookup dir name = some e := by
  unfold lookup
  rcases List.mem_map.mp h with ⟨e, he, hn⟩
  have : (dir.reverse.find? (·.name == name)).isSome := by
    rw [List.find?_isSome]
    exact ⟨e, List.mem_reverse.mpr he, by simp [hn]⟩
  exact Option.isSome_iff_exists.mp this

/-! ### sub-streams -/

/-- bytes a stream has received so far: its flushed blocks (in the temp file) then its buffer -/
def content (temp : Bytes) (ss : SubStream) : Bytes :=
  ss.blocks.flatMap (blockBytes temp ss.buffer) ++ ss.buffer

theorem flatMap_congr' {α β} (f g : α → List β) : ∀ (l : List α), (∀ x ∈ l, f x = g x) →
    l.flatMap f = l.flatMap g
  | [], _ => rfl
  | a :: t, h => by
    rw [List.flatMap_cons, List.flatMap_cons, h a (by simp),
      flatMap_congr' f g t (fun x hx => h x (List.mem_cons_of_mem _ hx))]

/-- an open stream: only temp blocks, all inside the temp file -/
def Good (temp : Bytes) (ss : SubStream) : Prop :=
  ∀ b ∈ ss.blocks, ∃ off len, b = Block.temp off len ∧ off + len ≤ temp.length

theorem slice_append (temp extra : Bytes) (off len : Nat) (h : off + len ≤ temp.length) :
    ((temp ++ extra).drop off).take len = (temp.drop off).take len := by
  rw [List.drop_append_of_le_length (by omega), List.take_append_of_le_length (by rw [List.length_drop]; omega)]

theorem content_append_temp (temp extra : Bytes) (ss : SubStream) (hg : Good temp ss) :
    content (temp ++ extra) ss = content temp ss ∧ Good (temp ++ extra) ss := by
  constructor
  · unfold content
    congr 1
    apply flatMap_congr'
    intro b hb
    rcases hg b hb with ⟨off, len, rfl, hle⟩
    simp only [blockBytes]
    exact slice_append temp extra off len hle
  · intro b hb
    rcases hg b hb with ⟨off, len, rfl, hle⟩
    exact ⟨off, len, rfl, by simp; omega⟩

theorem readBlocks_close (temp : Bytes) (ss : SubStream) (hg : Good temp ss) :
    readBlocks temp ss.close = content temp ss := by
  unfold readBlocks SubStream.close content
  by_cases h : ss.buffer.length > 0
  · simp only [h, ↓reduceIte, List.flatMap_append, List.flatMap_cons, List.flatMap_nil, List.append_nil,
      blockBytes, List.take_length]
  · simp only [h, ↓reduceIte]
    have : ss.buffer = [] := by
      cases hb : ss.buffer with
      | nil => rfl
      | cons a t => rw [hb] at h; simp at h
    rw [this]; simp

/-- two lists related element by element -/
inductive Forall2 {α β} (R : α → β → Prop) : List α → List β → Prop where
  | nil : Forall2 R [] []
  | cons {a b l₁ l₂} : R a b → Forall2 R l₁ l₂ → Forall2 R (a :: l₁) (b :: l₂)

end WM.Compound
