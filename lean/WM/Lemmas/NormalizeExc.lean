import WM.Model.NormalizeExc
/-! `normalize()` never raises: the exception-monad mirror `normalizeE` always returns `.ok`, and
    what it returns is `normalize`. -/
namespace WM.Normalize

/-- `overlaps` is only true for ranges on the same field ... -/
theorem Rng.overlaps_field {a b : Rng} (h : a.overlaps b = true) : a.f = b.f := by
  unfold Rng.overlaps at h
  split at h
  · simp at h
  · rename_i hf
    simpa using hf

/-- ... so the range that the inner loop pops has the field of `q`. -/
theorem popOverlap_field {q : Rng} : ∀ {l : List Q} {r : Rng} {l' : List Q},
    popOverlap q l = some (r, l') → q.f = r.f
  | [], _, _, h => by simp [popOverlap] at h
  | s :: rest, r, l', h => by
    unfold popOverlap at h
    split at h
    · rename_i r0 hs
      split at h
      · rename_i ho
        simp only [Option.some.injEq, Prod.mk.injEq] at h
        obtain ⟨rfl, _⟩ := h
        exact Rng.overlaps_field ho
      · cases hp : popOverlap q rest with
        | none => simp [hp] at h
        | some p =>
          obtain ⟨r', rest'⟩ := p
          simp only [hp, Option.map_some, Option.some.injEq, Prod.mk.injEq] at h
          obtain ⟨rfl, _⟩ := h
          exact popOverlap_field hp
    · cases hp : popOverlap q rest with
      | none => simp [hp] at h
      | some p =>
        obtain ⟨r', rest'⟩ := p
        simp only [hp, Option.map_some, Option.some.injEq, Prod.mk.injEq] at h
        obtain ⟨rfl, _⟩ := h
        exact popOverlap_field hp

/-- The `assert` of `merge` cannot fire inside the merging loop. -/
theorem absorbE_eq (intersect : Bool) (q : Rng) (rest : List Q) :
    absorbE intersect q rest = .ok (absorb intersect q rest) := by
  fun_induction absorb intersect q rest with
  | case1 q rest h =>
    unfold absorbE
    split
    · rfl
    · rename_i r rest' h'
      rw [h] at h'
      cases h'
  | case2 q rest r rest' h ih =>
    unfold absorbE
    split
    · rename_i h'
      rw [h] at h'
      cases h'
    · rename_i r2 rest2 h'
      rw [h] at h'
      simp only [Option.some.injEq, Prod.mk.injEq] at h'
      obtain ⟨rfl, rfl⟩ := h'
      have hf := popOverlap_field h
      simp only [Rng.mergeE, hf, ↓reduceIte]
      exact ih

theorem mergeLoopE_eq (intersect : Bool) (ef : List (Option Field)) (l : List Q) :
    mergeLoopE intersect ef l = .ok (mergeLoop intersect ef l) := by
  fun_induction mergeLoop intersect ef l with
  | case1 ef => simp [mergeLoopE]
  | case2 ef q rest h ih =>
    unfold mergeLoopE
    simp only [h, ↓reduceIte]
    exact ih
  | case3 ef q rest h r hr p q' ef' res ih =>
    unfold mergeLoopE
    simp only [h, Bool.false_eq_true, ↓reduceIte, hr]
    split
    · rename_i e he
      rw [absorbE_eq] at he
      cases he
    · rename_i p2 hp2
      rw [absorbE_eq] at hp2
      cases hp2
      simp only [p, q', ef', res] at ih ⊢
      split
      · rename_i e he
        exact absurd (he.symm.trans ih) (by simp)
      · rename_i res2 he
        have := he.symm.trans ih
        cases this
        rfl
  | case4 ef q rest h hr ef' res ih =>
    unfold mergeLoopE
    simp only [h, Bool.false_eq_true, ↓reduceIte, hr]
    simp only [ef', res] at ih ⊢
    split
    · rename_i e he
      exact absurd (he.symm.trans ih) (by simp)
    · rename_i res2 he
      have := he.symm.trans ih
      cases this
      rfl

theorem compTailE_eq (k : CK) (subs : List Q) (boost : Rat) :
    compTailE k subs boost = .ok (compTail k subs boost) := by
  simp only [compTailE, mergeLoopE_eq, compTail]

theorem compNormalizeE_eq (k : CK) (subs : List Q) (boost : Rat) :
    compNormalizeE k subs boost = .ok (compNormalize k subs boost) := by
  unfold compNormalizeE compNormalize
  simp only [compTailE_eq]
  repeat' split
  all_goals first | rfl | (exfalso; simp_all)

mutual
theorem normalizeE_eq : ∀ (q : Q), normalizeE q = .ok (normalize q)
  | .comp k qs b => by
    simp only [normalizeE, normalizeListE_eq qs, normalize, compNormalizeE_eq]
  | .seq c qs s o b => by
    simp only [normalizeE, normalizeListE_eq qs, normalize]
  | .not q b => by
    simp only [normalizeE, normalizeE_eq q, normalize]
  | .bin k a b => by
    simp only [normalizeE, normalizeE_eq a, normalizeE_eq b, normalize]
  | .null => rfl
  | .every _ _ => rfl
  | .term _ _ _ => rfl
  | .pre _ _ _ _ => rfl
  | .wild _ _ _ _ => rfl
  | .multi _ _ _ _ _ => rfl
  | .range _ _ _ _ _ _ _ => rfl
  | .phrase _ _ _ _ => rfl
  | .const _ _ => rfl
  | .opq _ _ => rfl
theorem normalizeListE_eq : ∀ (qs : List Q), normalizeListE qs = .ok (normalizeList qs)
  | [] => rfl
  | q :: qs => by
    simp only [normalizeListE, normalizeE_eq q, normalizeListE_eq qs, normalizeList]
end

end WM.Normalize
