import WM.Lemmas.ComboDen
import WM.Lemmas.Faithful
import WM.Lemmas.FaithfulMulti
/-! `ArrayUnionMatcher` over faithful sub-matchers with positive scores is a faithful cursor over the boosted union
of their lists (below `doccount`). -/
namespace WM.Matcher

theorem optUnion_getD (a b : Option Rat) : (optUnion (· + ·) a b).getD 0 = a.getD 0 + b.getD 0 := by
  cases a <;> cases b <;> simp [optUnion] <;> grind

theorem cellAt_replicate (n off d : Nat) : cellAt (List.replicate n 0) off d = 0 := by
  unfold cellAt
  cases h : (List.replicate n (0 : Rat))[d - off]? with
  | none => rfl
  | some v =>
    have := List.mem_of_getElem? h
    rw [List.mem_replicate] at this
    simp [this.2]

/-- `a[i] += v` on the cells -/
theorem addAt_spec {a : List Rat} {i : Nat} (v : Rat) (h : i < a.length) :
    ∃ a', addAt a i v = .ok a' ∧ a'.length = a.length ∧
      ∀ off d, off ≤ d → cellAt a' off d = if d - off = i then cellAt a off d + v else cellAt a off d := by
  refine ⟨a.set i (a[i] + v), by simp [addAt, h], by simp, ?_⟩
  intro off d _
  unfold cellAt
  by_cases hd : d - off = i
  · simp [hd, h]
  · rw [if_neg hd, List.getElem?_set_ne (fun h' => hd h'.symm)]

/-- two lists related element by element -/
inductive All2 {α : Type} (R : α → α → Prop) : List α → List α → Prop
  | nil : All2 R [] []
  | cons {a b : α} {l l' : List α} : R a b → All2 R l l' → All2 R (a :: l) (b :: l')

theorem All2.mem_right {α : Type} {R : α → α → Prop} {l l' : List α} (h : All2 R l l') {b : α} (hb : b ∈ l') :
    ∃ a ∈ l, R a b := by
  induction h with
  | nil => cases hb
  | cons hr _ ih =>
    rcases List.mem_cons.1 hb with rfl | hb
    · exact ⟨_, List.mem_cons_self, hr⟩
    · obtain ⟨a, ha, hr'⟩ := ih hb
      exact ⟨a, List.mem_cons_of_mem _ ha, hr'⟩

theorem All2.map_eq {α β : Type} {R : α → α → Prop} {l l' : List α} (h : All2 R l l') (f g : α → β)
    (hfg : ∀ a b, R a b → f a = g b) : l.map f = l'.map g := by
  induction h with
  | nil => rfl
  | cons hr _ ih => simp [hfg _ _ hr, ih]

theorem All2.trans {α : Type} {R S T : α → α → Prop} (hT : ∀ a b c, R a b → S b c → T a c) {l₁ l₂ l₃ : List α}
    (h₁ : All2 R l₁ l₂) (h₂ : All2 S l₂ l₃) : All2 T l₁ l₃ := by
  induction h₁ generalizing l₃ with
  | nil => cases h₂; exact All2.nil
  | cons hr _ ih =>
    cases h₂ with
    | cons hs h₂' => exact All2.cons (hT _ _ _ hr hs) (ih h₂')

namespace AUnion
variable {α : Type} {A : Ops α} {dA fA : α → Den} {WA : α → Prop}

/-- what sub-matcher `s` adds to the cell of document `d` while the part below `limit` is read -/
def contrib (boost : Rat) (limit : Nat) (D : Den) (d : Nat) : Rat :=
  if d < limit then ((lookup D d).map (· * boost)).getD 0 else 0

section Drain
variable (FA : Faithful A dA fA WA)
include FA

/-- the inner loop of `_read_part` for one sub-matcher -/
theorem drainSub_spec (boost : Rat) (offset limit : Nat) : ∀ (n : Nat) (s : α) (a : List Rat),
    WA s → A.rem s < n → limit ≤ offset + a.length → (∀ p ∈ dA s, offset ≤ p.1) →
    ∃ s' a', drainSub A boost offset limit n s a = .ok (s', a') ∧ WA s' ∧ dA s' = dropBelow limit (dA s) ∧
      fA s' = fA s ∧ a'.length = a.length ∧
      ∀ d, offset ≤ d → cellAt a' offset d = cellAt a offset d + contrib boost limit (dA s) d
  | 0, _, _, _, hn, _, _ => by omega
  | n + 1, s, a, hw, hn, hl, hge => by
    unfold drainSub
    cases hd : dA s with
    | nil =>
      have hi : A.isActive s = false := (FA.inactive hw).2 hd
      simp only [hi, Bool.false_eq_true, ↓reduceIte]
      refine ⟨s, a, rfl, hw, by rw [hd]; rfl, rfl, rfl, ?_⟩
      intro d _
      simp [contrib, hd, lookup]
      exact (Rat.add_zero _).symm
    | cons p L =>
      obtain ⟨x, r⟩ := p
      have ha : A.isActive s = true := (FA.active s hw).2 (by rw [hd]; simp)
      have hasc : Asc ((x, r) :: L) := hd ▸ FA.asc s hw
      simp only [ha, ↓reduceIte, FA.id s x r L hw hd, bind, Except.bind]
      by_cases hx : x < limit
      · simp only [hx, ↓reduceIte, FA.score s x r L hw hd]
        have hxo : offset ≤ x := hge (x, r) (by rw [hd]; exact List.mem_cons_self)
        obtain ⟨a1, e1, e2, e3⟩ := addAt_spec (a := a) (i := x - offset) (r * boost) (by omega)
        obtain ⟨s1, n1, n2, n3, n4, n5⟩ := FA.next s x r L hw hd
        simp only [e1, n1]
        obtain ⟨s', a', k1, k2, k3, k4, k5, k6⟩ := drainSub_spec boost offset limit n s1 a1 n2 (by omega)
          (by rw [e2]; exact hl) (by
            intro p hp; rw [n3] at hp
            exact hge p (by rw [hd]; exact List.mem_cons_of_mem _ hp))
        refine ⟨s', a', k1, k2, ?_, k4.trans n5, k5.trans e2, ?_⟩
        · rw [k3, n3, dropBelow_cons, if_pos hx]
        · intro d hdo
          rw [k6 d hdo, e3 offset d hdo, n3]
          unfold contrib
          by_cases hdl : d < limit
          · simp only [hdl, ↓reduceIte, lookup_cons]
            by_cases hdx : x = d
            · subst hdx
              have : lookup L x = none := lookup_none_of_lt hasc.head_lt
              simp [this]
              grind
            · have : ¬ d - offset = x - offset := by omega
              simp [hdx, this]
          · have : ¬ d - offset = x - offset := by omega
            simp [hdl, this]
      · simp only [hx, ↓reduceIte]
        refine ⟨s, a, rfl, hw, ?_, rfl, rfl, ?_⟩
        · rw [hd, dropBelow_of_le_head (by omega)]
        · intro d _
          unfold contrib
          by_cases hdl : d < limit
          · have : lookup ((x, r) :: L) d = none := by
              apply lookup_none_of_lt
              intro q hq
              have := Faithful.head_le hasc rfl q hq
              show d < q.1
              omega
            simp [hdl, this]
            exact (Rat.add_zero _).symm
          · simp [hdl]
            exact (Rat.add_zero _).symm

/-- how a sub-matcher comes out of `_read_part` with part end `limit` -/
def Drained (dA fA : α → Den) (WA : α → Prop) (limit : Nat) (s s' : α) : Prop :=
  WA s' ∧ dA s' = dropBelow limit (dA s) ∧ fA s' = fA s

theorem drainAll_spec (boost : Rat) (offset limit : Nat) : ∀ (subs : List α) (a : List Rat),
    (∀ s ∈ subs, WA s) → limit ≤ offset + a.length → (∀ s ∈ subs, ∀ p ∈ dA s, offset ≤ p.1) →
    ∃ subs' a', drainAll A boost offset limit subs a = .ok (subs', a') ∧
      All2 (Drained dA fA WA limit) subs subs' ∧ a'.length = a.length ∧
      ∀ d, offset ≤ d → d < limit →
        cellAt a' offset d = cellAt a offset d + (sumAt (subs.map fun s => scale boost (dA s)) d).getD 0
  | [], a, _, _, _ => ⟨[], a, rfl, All2.nil, rfl, fun d _ _ => by
      show _ = _ + (none : Option Rat).getD 0
      exact (Rat.add_zero _).symm⟩
  | s :: ss, a, hw, hl, hge => by
    obtain ⟨s', a1, e1, e2, e3, e4, e5, e6⟩ := drainSub_spec FA boost offset limit (A.rem s + 1) s a
      (hw s List.mem_cons_self) (Nat.lt_succ_self _) hl (hge s List.mem_cons_self)
    obtain ⟨ss', a2, k1, k2, k3, k4⟩ := drainAll_spec boost offset limit ss a1
      (fun x hx => hw x (List.mem_cons_of_mem _ hx)) (by rw [e5]; exact hl)
      (fun x hx => hge x (List.mem_cons_of_mem _ hx))
    refine ⟨s' :: ss', a2, by simp [drainAll, e1, k1, bind, Except.bind]; rfl,
      All2.cons ⟨e2, e3, e4⟩ k2, k3.trans e5, ?_⟩
    intro d hdo hdl
    rw [k4 d hdo hdl, e6 d hdo]
    simp only [List.map_cons, sumAt, optUnion_getD, contrib, hdl, ↓reduceIte, lookup_scale]
    grind

theorem minIdOf_spec : ∀ (subs : List α) (acc : Option Nat), (∀ s ∈ subs, WA s) →
    ∃ r, minIdOf A subs acc = .ok r ∧
      (∀ y, acc = some y → ∃ z, r = some z ∧ z ≤ y) ∧
      (∀ s ∈ subs, ∀ p ∈ dA s, ∃ z, r = some z ∧ z ≤ p.1) ∧
      (∀ z, r = some z → acc = some z ∨ ∃ s ∈ subs, ∃ r0 L, dA s = (z, r0) :: L)
  | [], acc, _ => ⟨acc, rfl, fun y hy => ⟨y, hy, Nat.le_refl _⟩, (by intro s hs; cases hs), fun z hz => Or.inl hz⟩
  | s :: ss, acc, hw => by
    have hw' : ∀ x ∈ ss, WA x := fun x hx => hw x (List.mem_cons_of_mem _ hx)
    unfold minIdOf
    cases hd : dA s with
    | nil =>
      have hi : A.isActive s = false := (FA.inactive (hw s List.mem_cons_self)).2 hd
      simp only [hi, Bool.false_eq_true, ↓reduceIte]
      obtain ⟨r, e1, e2, e3, e4⟩ := minIdOf_spec ss acc hw'
      refine ⟨r, e1, e2, ?_, ?_⟩
      · intro s' hs' p hp
        rcases List.mem_cons.1 hs' with rfl | hs'
        · rw [hd] at hp; cases hp
        · exact e3 s' hs' p hp
      · intro z hz
        rcases e4 z hz with h1 | ⟨s', hs', h1⟩
        · exact Or.inl h1
        · exact Or.inr ⟨s', List.mem_cons_of_mem _ hs', h1⟩
    | cons p L =>
      obtain ⟨x, r0⟩ := p
      have hws := hw s List.mem_cons_self
      have ha : A.isActive s = true := (FA.active s hws).2 (by rw [hd]; simp)
      have hasc : Asc ((x, r0) :: L) := hd ▸ FA.asc s hws
      simp only [ha, ↓reduceIte, FA.id s x r0 L hws hd, bind, Except.bind]
      obtain ⟨r, e1, e2, e3, e4⟩ := minIdOf_spec ss
        (some (match acc with | some y => min y x | none => x)) hw'
      obtain ⟨z0, hz0, hle0⟩ := e2 _ rfl
      refine ⟨r, e1, ?_, ?_, ?_⟩
      · intro y hy
        subst hy
        exact ⟨z0, hz0, Nat.le_trans hle0 (Nat.min_le_left _ _)⟩
      · intro s' hs' p hp
        rcases List.mem_cons.1 hs' with rfl | hs'
        · rw [hd] at hp
          have := Faithful.head_le hasc rfl p hp
          refine ⟨z0, hz0, Nat.le_trans hle0 ?_⟩
          cases acc with
          | none => exact this
          | some y => exact Nat.le_trans (Nat.min_le_right _ _) this
        · exact e3 s' hs' p hp
      · intro z hz
        rcases e4 z hz with h1 | ⟨s', hs', h1⟩
        · cases acc with
          | none =>
            simp only [Option.some.injEq] at h1
            subst h1
            exact Or.inr ⟨s, List.mem_cons_self, r0, L, hd⟩
          | some y =>
            simp only [Option.some.injEq] at h1
            rcases Nat.le_total y x with hyx | hxy
            · rw [Nat.min_eq_left hyx] at h1
              subst h1; exact Or.inl rfl
            · rw [Nat.min_eq_right hxy] at h1
              subst h1
              exact Or.inr ⟨s, List.mem_cons_self, r0, L, hd⟩
        · exact Or.inr ⟨s', List.mem_cons_of_mem _ hs', h1⟩

/-- `_min_id()` -/
theorem minId_spec (subs : List α) (dc : Nat) (hw : ∀ s ∈ subs, WA s) :
    ∃ x, minId A subs dc = .ok x ∧ (∀ s ∈ subs, ∀ p ∈ dA s, x ≤ p.1) ∧
      ((∃ s ∈ subs, ∃ r0 L, dA s = (x, r0) :: L) ∨ (x = dc ∧ ∀ s ∈ subs, dA s = [])) := by
  obtain ⟨r, e1, -, e3, e4⟩ := minIdOf_spec FA subs none hw
  unfold minId
  simp only [e1, bind, Except.bind]
  cases r with
  | none =>
    refine ⟨dc, rfl, ?_, Or.inr ⟨rfl, ?_⟩⟩
    · intro s hs p hp
      obtain ⟨z, hz, -⟩ := e3 s hs p hp
      cases hz
    · intro s hs
      cases hd : dA s with
      | nil => rfl
      | cons p L =>
        obtain ⟨z, hz, -⟩ := e3 s hs p (by rw [hd]; exact List.mem_cons_self)
        cases hz
  | some x =>
    refine ⟨x, rfl, ?_, Or.inl ?_⟩
    · intro s hs p hp
      obtain ⟨z, hz, hle⟩ := e3 s hs p hp
      cases hz; exact hle
    · rcases e4 x rfl with h1 | h1
      · cases h1
      · exact h1

end Drain

/-! ### states -/

/-- invariant of every state, also of the states in the middle of `skip_to_quality` -/
structure Core (dA fA : α → Den) (WA : α → Prop) (m : AUnion α) : Prop where
  alen : m.a.length = m.partsize
  ppos : 0 < m.partsize
  bpos : 0 < m.boost
  lim : m.limit = min (m.offset + m.partsize) m.doccount
  off : m.offset ≤ m.docnum
  child : ∀ s ∈ m.subs, WA s
  beyond : ∀ s ∈ m.subs, ∀ p ∈ dA s, m.limit ≤ p.1
  dpos : ∀ s ∈ m.subs, ∀ p ∈ dA s, 0 < p.2
  fpos : ∀ s ∈ m.subs, ∀ p ∈ fA s, 0 < p.2
  done : m.doccount ≤ m.docnum → ∀ s ∈ m.subs, ∀ p ∈ dA s, m.doccount ≤ p.1

/-- well-formedness: moreover an active matcher stands on a buffered document -/
structure WF (dA fA : α → Den) (WA : α → Prop) (m : AUnion α) : Prop extends Core dA fA WA m where
  cur : m.docnum < m.doccount → m.docnum < m.limit ∧ 0 < cellAt m.a m.offset m.docnum

/-- the boosted lists of the sub-matchers -/
def scaled (boost : Rat) (d : α → Den) (subs : List α) : List Den := subs.map fun s => scale boost (d s)

theorem mem_dropBelow_ge {L : Den} (h : Asc L) {t : Nat} {p : Nat × Rat} (hp : p ∈ dropBelow t L) : t ≤ p.1 := by
  have h1 := lookup_some_of_mem_asc (asc_dropBelow t h) hp
  rw [lookup_dropBelow h] at h1
  by_cases hlt : p.1 < t
  · simp [hlt] at h1
  · omega

theorem dropBelow_eq_nil_of_lt {t : Nat} {L : Den} (h : ∀ p ∈ L, p.1 < t) : dropBelow t L = [] := by
  induction L with
  | nil => rfl
  | cons p L ih =>
    obtain ⟨x, r⟩ := p
    rw [dropBelow_cons, if_pos (h (x, r) List.mem_cons_self)]
    exact ih fun q hq => h q (List.mem_cons_of_mem _ hq)

theorem mem_scale {b : Rat} {D : Den} {p : Nat × Rat} : p ∈ scale b D ↔ ∃ q ∈ D, p = (q.1, q.2 * b) := by
  simp [scale, List.mem_map, eq_comm]

section Read
variable (FA : Faithful A dA fA WA)
include FA

theorem asc_scaled (boost : Rat) {subs : List α} (hw : ∀ s ∈ subs, WA s) : ∀ D ∈ scaled boost dA subs, Asc D := by
  intro D hD
  obtain ⟨s, hs, rfl⟩ := List.mem_map.1 hD
  exact asc_scale _ (FA.asc s (hw s hs))

/-- the union of the drained sub-matchers is the union of the originals from `limit` on -/
theorem sumAt_drained (boost : Rat) (limit : Nat) {subs subs' : List α} (hw : ∀ s ∈ subs, WA s)
    (h : All2 (Drained dA fA WA limit) subs subs') (d : Nat) :
    sumAt (scaled boost dA subs') d = if d < limit then none else sumAt (scaled boost dA subs) d := by
  induction h with
  | nil => simp [scaled, sumAt]
  | @cons s s' l l' hr _ ih =>
    have ih := ih fun x hx => hw x (List.mem_cons_of_mem _ hx)
    simp only [scaled, List.map_cons, sumAt] at ih ⊢
    rw [ih, lookup_scale, lookup_scale, hr.2.1, lookup_dropBelow (FA.asc s (hw s List.mem_cons_self))]
    by_cases hd : d < limit
    · simp [hd, optUnion]
    · simp [hd]

/-- `_read_part()` from a position `docnum` at or below everything the sub-matchers hold -/
theorem readPart_spec (m : AUnion α) (hps : 0 < m.partsize) (hb : 0 < m.boost) (hw : ∀ s ∈ m.subs, WA s)
    (hdp : ∀ s ∈ m.subs, ∀ p ∈ dA s, 0 < p.2) (hfp : ∀ s ∈ m.subs, ∀ p ∈ fA s, 0 < p.2)
    (hlow : ∀ s ∈ m.subs, ∀ p ∈ dA s, m.docnum ≤ p.1) :
    ∃ m', readPart A m = .ok m' ∧ Core dA fA WA m' ∧ m'.docnum = m.docnum ∧ m'.offset = m.docnum ∧
      m'.doccount = m.doccount ∧ m'.boost = m.boost ∧ m'.partsize = m.partsize ∧
      den dA m' = below m.doccount (sumDens (scaled m.boost dA m.subs)) ∧ full fA m' = full fA m ∧
      ((∃ s ∈ m.subs, ∃ r0 L, dA s = (m.docnum, r0) :: L) → m.docnum < m.doccount →
        m.docnum < m'.limit ∧ 0 < cellAt m'.a m.docnum m.docnum) := by
  let limit := min (m.docnum + m.partsize) m.doccount
  obtain ⟨subs', a', e1, e2, e3, e4⟩ := drainAll_spec FA m.boost m.docnum limit m.subs (List.replicate m.partsize 0) hw
    (by simp only [List.length_replicate]; exact Nat.min_le_left _ _) hlow
  let m' : AUnion α := { m with subs := subs', a := a', offset := m.docnum, limit := limit }
  have hmem : ∀ s' ∈ subs', ∃ s ∈ m.subs, Drained dA fA WA limit s s' := fun s' hs' => e2.mem_right hs'
  have hcell : ∀ d, m.docnum ≤ d → d < limit → cellAt a' m.docnum d = (sumAt (scaled m.boost dA m.subs) d).getD 0 := by
    intro d h1 h2
    rw [e4 d h1 h2, cellAt_replicate]
    exact Rat.zero_add _
  have hpos : ∀ D ∈ scaled m.boost dA m.subs, ∀ p ∈ D, 0 < p.2 := by
    intro D hD p hp
    obtain ⟨s, hs, rfl⟩ := List.mem_map.1 hD
    obtain ⟨q, hq, rfl⟩ := mem_scale.1 hp
    exact Rat.mul_pos (hdp s hs q hq) hb
  have hlow' : ∀ D ∈ scaled m.boost dA m.subs, ∀ p ∈ D, m.docnum ≤ p.1 := by
    intro D hD p hp
    obtain ⟨s, hs, rfl⟩ := List.mem_map.1 hD
    obtain ⟨q, hq, rfl⟩ := mem_scale.1 hp
    exact hlow s hs q hq
  have hw' : ∀ s' ∈ subs', WA s' := fun s' hs' => by
    obtain ⟨s, -, h⟩ := hmem s' hs'; exact h.1
  have e1' : drainAll A m.boost m.docnum (min (m.docnum + m.partsize) m.doccount) m.subs
      (List.replicate m.partsize 0) = .ok (subs', a') := e1
  refine ⟨m', by simp only [readPart, e1', bind, Except.bind]; rfl, ?_, rfl, rfl, rfl, rfl, rfl, ?_, ?_, ?_⟩
  · refine ⟨by show a'.length = m.partsize; rw [e3]; simp, hps, hb, rfl, Nat.le_refl _, hw', ?_, ?_, ?_, ?_⟩
    · intro s' hs' p hp
      obtain ⟨s, hs, h⟩ := hmem s' hs'
      rw [h.2.1] at hp
      exact mem_dropBelow_ge (FA.asc s (hw s hs)) hp
    · intro s' hs' p hp
      obtain ⟨s, hs, h⟩ := hmem s' hs'
      rw [h.2.1] at hp
      exact hdp s hs p ((List.dropWhile_sublist _).subset hp)
    · intro s' hs' p hp
      obtain ⟨s, hs, h⟩ := hmem s' hs'
      rw [h.2.2] at hp
      exact hfp s hs p hp
    · intro hdone s' hs' p hp
      obtain ⟨s, hs, h⟩ := hmem s' hs'
      rw [h.2.1] at hp
      have := hlow s hs p ((List.dropWhile_sublist _).subset hp)
      show m.doccount ≤ p.1
      have : m.doccount ≤ m.docnum := hdone
      omega
  · show bufDen a' m.docnum m.docnum limit ++ below m.doccount (sumDens (scaled m.boost dA subs')) = _
    exact part_split (Nat.min_le_right _ _) (asc_scaled FA m.boost hw) (asc_scaled FA m.boost hw') hpos hlow' hcell
      (sumAt_drained FA m.boost limit hw e2)
  · show below m.doccount (sumDens (subs'.map fun s => scale m.boost (fA s))) = _
    unfold full
    rw [(e2.map_eq (fun s => scale m.boost (fA s)) (fun s => scale m.boost (fA s)) fun a b h => by rw [h.2.2]).symm]
  · rintro ⟨s, hs, r0, L, hd⟩ hlt
    have hl : m.docnum < limit := by
      show m.docnum < min (m.docnum + m.partsize) m.doccount
      rw [Nat.lt_min]; exact ⟨by omega, hlt⟩
    refine ⟨hl, ?_⟩
    show 0 < cellAt a' m.docnum m.docnum
    rw [hcell m.docnum (Nat.le_refl _) hl]
    cases hs' : sumAt (scaled m.boost dA m.subs) m.docnum with
    | some r => exact sumAt_pos hpos hs'
    | none =>
      exfalso
      -- the sub-matcher standing on `docnum` contributes
      have : lookup (scale m.boost (dA s)) m.docnum = some (r0 * m.boost) := by
        rw [lookup_scale, hd, lookup_head]; rfl
      exact sumAt_ne_none (List.mem_map.2 ⟨s, hs, rfl⟩) this hs'

end Read

/-! ### `_find_next` -/

theorem bufDen_skip (a : List Rat) (off hi : Nat) : ∀ (n d d' : Nat), d' - d = n → d ≤ d' → d' ≤ hi →
    (∀ e, d ≤ e → e < d' → ¬ 0 < cellAt a off e) → bufDen a off d hi = bufDen a off d' hi
  | 0, d, d', h, h1, _, _ => by
    have : d = d' := by omega
    rw [this]
  | n + 1, d, d', h, h1, h2, hz => by
    rw [bufDen_step a off (by omega), if_neg (hz d (Nat.le_refl _) (by omega))]
    exact bufDen_skip a off hi n (d + 1) d' (by omega) (by omega) h2 fun e he1 he2 => hz e (by omega) he2

theorem scan_spec (a : List Rat) (off lim : Nat) (hlen : lim - off ≤ a.length) : ∀ (n d : Nat), lim - d ≤ n → off ≤ d → d ≤ lim →
    ∃ d', scan a off lim n d = .ok d' ∧ d ≤ d' ∧ d' ≤ lim ∧ (d' < lim → 0 < cellAt a off d') ∧
      ∀ e, d ≤ e → e < d' → ¬ 0 < cellAt a off e
  | 0, d, hn, _, hd => ⟨d, rfl, Nat.le_refl _, hd, (by intro h; omega), (by intro e h1 h2; omega)⟩
  | n + 1, d, hn, ho, hd => by
    unfold scan
    by_cases hlt : d < lim
    · simp only [hlt, ↓reduceIte]
      have hi : d - off < a.length := by omega
      have hget : a[d - off]? = some a[d - off] := List.getElem?_eq_getElem hi
      have hcell : cellAt a off d = a[d - off] := by simp [cellAt, hget]
      rw [hget]
      by_cases hv : 0 < a[d - off]
      · simp only [hv, ↓reduceIte]
        exact ⟨d, rfl, Nat.le_refl _, hd, (fun _ => by rw [hcell]; exact hv), (by intro e h1 h2; omega)⟩
      · simp only [hv, ↓reduceIte]
        obtain ⟨d', e1, e2, e3, e4, e5⟩ := scan_spec a off lim hlen n (d + 1) (by omega) (by omega) (by omega)
        refine ⟨d', e1, by omega, e3, e4, ?_⟩
        intro e h1 h2
        rcases Nat.lt_or_ge d e with h3 | h3
        · exact e5 e (by omega) h2
        · have : e = d := by omega
          subst this; rw [hcell]; exact hv
    · simp only [hlt, ↓reduceIte]
      exact ⟨d, rfl, Nat.le_refl _, hd, (by intro h; omega), (by intro e h1 h2; omega)⟩

/-- what is held beyond the buffered part -/
def tail (d : α → Den) (m : AUnion α) : Den := below m.doccount (sumDens (scaled m.boost d m.subs))

theorem den_eq (d : α → Den) (m : AUnion α) : den d m = bufDen m.a m.offset m.docnum m.limit ++ tail d m := rfl

theorem Core.limit_le {m : AUnion α} (h : Core dA fA WA m) : m.limit ≤ m.doccount := by
  rw [h.lim]; exact Nat.min_le_right _ _

theorem Core.len_ok {m : AUnion α} (h : Core dA fA WA m) : m.limit - m.offset ≤ m.a.length := by
  rw [h.lim, h.alen]; have := Nat.min_le_left (m.offset + m.partsize) m.doccount; omega

section Find
variable (FA : Faithful A dA fA WA)
include FA

theorem findNext_spec (m : AUnion α) (h : Core dA fA WA m) (hd : m.docnum ≤ m.limit) :
    ∃ m', findNext A m = .ok m' ∧ WF dA fA WA m' ∧ den dA m' = den dA m ∧ full fA m' = full fA m ∧
      m.docnum ≤ m'.docnum ∧ m'.doccount = m.doccount := by
  obtain ⟨d', e1, e2, e3, e4, e5⟩ := scan_spec m.a m.offset m.limit h.len_ok (m.limit - m.docnum) m.docnum
    (Nat.le_refl _) h.off hd
  unfold findNext
  simp only [e1, bind, Except.bind]
  by_cases hl : d' = m.limit
  · have : (d' == m.limit) = true := by simp [hl]
    simp only [this, ↓reduceIte]
    obtain ⟨x, x1, x2, x3⟩ := minId_spec FA m.subs m.doccount h.child
    simp only [x1]
    obtain ⟨m', r1, r2, r3, r4, r5, r6, r7, r8, r9, r10⟩ := readPart_spec FA { m with docnum := x } h.ppos h.bpos h.child
      h.dpos h.fpos x2
    have hxl : m.limit ≤ x := by
      rcases x3 with ⟨s, hs, r0, L, hds⟩ | ⟨hx, -⟩
      · exact h.beyond s hs (x, r0) (by rw [hds]; exact List.mem_cons_self)
      · rw [hx]; exact h.limit_le
    refine ⟨m', r1, ⟨r2, ?_⟩, ?_, r9, by rw [r3]; show m.docnum ≤ x; omega, r5⟩
    · intro hlt
      rw [r3, r5] at hlt
      rcases x3 with hx | ⟨hx, -⟩
      · have := r10 hx hlt
        rw [r3, r4]; exact this
      · exact absurd hlt (by show ¬ x < m.doccount; omega)
    · rw [r8, den_eq]
      have : bufDen m.a m.offset m.docnum m.limit = [] := by
        rw [bufDen_skip m.a m.offset m.limit _ m.docnum d' rfl e2 e3 e5, hl]
        exact bufDen_ge _ _ (Nat.le_refl _)
      rw [this]; rfl
  · have : (d' == m.limit) = false := by simp [hl]
    simp only [this, Bool.false_eq_true, ↓reduceIte]
    have hlt : d' < m.limit := by omega
    let m' : AUnion α := { m with docnum := d' }
    refine ⟨m', rfl, ⟨⟨h.alen, h.ppos, h.bpos, h.lim, by show m.offset ≤ d'; have := h.off; omega, h.child, h.beyond,
      h.dpos, h.fpos, ?_⟩, ?_⟩, ?_, rfl, e2, rfl⟩
    · intro hdone
      have := h.limit_le
      exact absurd hdone (by show ¬ m.doccount ≤ d'; omega)
    · intro _
      exact ⟨hlt, e4 hlt⟩
    · show bufDen m.a m.offset d' m.limit ++ tail dA m = _
      rw [den_eq, bufDen_skip m.a m.offset m.limit _ m.docnum d' rfl e2 e3 e5]

end Find

/-! ### the cursor contract -/

section Main
variable (FA : Faithful A dA fA WA)
include FA

theorem asc_tail {m : AUnion α} (h : Core dA fA WA m) : Asc (tail dA m) :=
  asc_below _ (asc_sumDens (asc_scaled FA m.boost h.child))

/-- what the sub-matchers hold lies beyond the buffered part -/
theorem tail_ge {m : AUnion α} (h : Core dA fA WA m) : ∀ b ∈ tail dA m, m.limit ≤ b.1 := by
  intro b hb
  have hS := asc_scaled FA m.boost h.child
  have h1 := lookup_some_of_mem_asc (asc_sumDens hS) (mem_below.1 hb).1
  rw [lookup_sumDens hS] at h1
  rcases Nat.lt_or_ge b.1 m.limit with hlt | hge
  · exfalso
    have : sumAt (scaled m.boost dA m.subs) b.1 = none := by
      apply sumAt_none
      intro D hD
      obtain ⟨s, hs, rfl⟩ := List.mem_map.1 hD
      apply lookup_none_of_lt
      intro q hq
      obtain ⟨q', hq', rfl⟩ := mem_scale.1 hq
      have := h.beyond s hs q' hq'
      show b.1 < q'.1
      omega
    rw [this] at h1; cases h1
  · exact hge

theorem asc_den {m : AUnion α} (h : Core dA fA WA m) : Asc (den dA m) := by
  rw [den_eq, Asc, List.pairwise_append]
  refine ⟨asc_bufDen _ _ _ _ _ rfl, asc_tail FA h, ?_⟩
  intro p hp q hq
  have := (mem_bufDen hp).2.1
  have := tail_ge FA h q hq
  omega

theorem tail_nil_of_done {m : AUnion α} (h : Core dA fA WA m) (hd : m.doccount ≤ m.docnum) : tail dA m = [] := by
  unfold tail below
  rw [List.filter_eq_nil_iff]
  intro p hp
  have hS := asc_scaled FA m.boost h.child
  have h1 := lookup_some_of_mem_asc (asc_sumDens hS) hp
  rw [lookup_sumDens hS] at h1
  simp only [decide_eq_true_eq, Nat.not_lt]
  rcases Nat.lt_or_ge p.1 m.doccount with hlt | hge
  · exfalso
    have : sumAt (scaled m.boost dA m.subs) p.1 = none := by
      apply sumAt_none
      intro D hD
      obtain ⟨s, hs, rfl⟩ := List.mem_map.1 hD
      apply lookup_none_of_lt
      intro q hq
      obtain ⟨q', hq', rfl⟩ := mem_scale.1 hq
      have := h.done hd s hs q' hq'
      show p.1 < q'.1
      omega
    rw [this] at h1; cases h1
  · exact hge

/-- an active matcher stands on the first buffered document -/
theorem den_head {m : AUnion α} (h : WF dA fA WA m) (ha : m.docnum < m.doccount) :
    den dA m = (m.docnum, cellAt m.a m.offset m.docnum) :: (bufDen m.a m.offset (m.docnum + 1) m.limit ++ tail dA m) := by
  obtain ⟨h1, h2⟩ := h.cur ha
  rw [den_eq, bufDen_step _ _ h1, if_pos h2]; rfl

theorem den_nil_of_done {m : AUnion α} (h : Core dA fA WA m) (hd : m.doccount ≤ m.docnum) : den dA m = [] := by
  rw [den_eq, tail_nil_of_done FA h hd, bufDen_ge _ _ (by have := h.limit_le; omega)]; rfl

theorem skipAll_spec (t : Nat) : ∀ subs : List α, (∀ s ∈ subs, WA s) →
    ∃ subs', skipAll A t subs = .ok subs' ∧ All2 (Drained dA fA WA t) subs subs'
  | [], _ => ⟨[], rfl, All2.nil⟩
  | s :: ss, hw => by
    obtain ⟨ss', e1, e2⟩ := skipAll_spec t ss fun x hx => hw x (List.mem_cons_of_mem _ hx)
    have hws := hw s List.mem_cons_self
    unfold skipAll Ops.skipToA
    by_cases ha : A.isActive s = true
    · obtain ⟨s', c1, c2, c3, -, -, c6⟩ := FA.skipTo s t hws ((FA.active s hws).1 ha)
      simp only [ha, ↓reduceIte, c1, e1, bind, Except.bind]
      exact ⟨s' :: ss', rfl, All2.cons ⟨c2, c3, c6⟩ e2⟩
    · simp only [ha, Bool.false_eq_true, ↓reduceIte, e1, bind, Except.bind]
      have hnil : dA s = [] := (FA.inactive hws).1 (by simpa using ha)
      exact ⟨s :: ss', rfl, All2.cons ⟨hws, by rw [hnil]; rfl, rfl⟩ e2⟩

theorem resetAll_spec : ∀ subs : List α, (∀ s ∈ subs, WA s) →
    ∃ subs', resetAll A subs = .ok subs' ∧ All2 (fun s s' => WA s' ∧ dA s' = fA s ∧ fA s' = fA s) subs subs'
  | [], _ => ⟨[], rfl, All2.nil⟩
  | s :: ss, hw => by
    obtain ⟨ss', e1, e2⟩ := resetAll_spec ss fun x hx => hw x (List.mem_cons_of_mem _ hx)
    obtain ⟨s', c1, c2, c3, c4⟩ := FA.reset s (hw s List.mem_cons_self)
    exact ⟨s' :: ss', by simp [resetAll, c1, e1, bind, Except.bind]; rfl, All2.cons ⟨c2, c3, c4⟩ e2⟩

/-- the union of sub-matchers skipped to `t` is the union from `t` on -/
theorem below_drained (boost : Rat) (dc t : Nat) {subs subs' : List α} (hw : ∀ s ∈ subs, WA s)
    (h : All2 (Drained dA fA WA t) subs subs') :
    below dc (sumDens (scaled boost dA subs')) = dropBelow t (below dc (sumDens (scaled boost dA subs))) := by
  have hw' : ∀ s' ∈ subs', WA s' := fun s' hs' => by
    obtain ⟨s, -, hr⟩ := h.mem_right hs'; exact hr.1
  have hS := asc_scaled FA boost hw
  have hS' := asc_scaled FA boost hw'
  apply den_ext (asc_below _ (asc_sumDens hS')) (asc_dropBelow _ (asc_below _ (asc_sumDens hS)))
  intro d
  rw [lookup_below (asc_sumDens hS'), lookup_dropBelow (asc_below _ (asc_sumDens hS)), lookup_below (asc_sumDens hS),
    lookup_sumDens hS', lookup_sumDens hS, sumAt_drained FA boost t hw h]
  by_cases h1 : d < dc <;> by_cases h2 : d < t <;> simp [h1, h2]

theorem faithful : Faithful (ops A) (den dA) (full fA) (WF dA fA WA) where
  asc m h := asc_den FA h.toCore
  active m h := by
    show isActive m = true ↔ _
    constructor
    · intro ha
      have : m.docnum < m.doccount := by simpa [isActive] using ha
      rw [den_head FA h this]; simp
    · intro hne
      rcases Nat.lt_or_ge m.docnum m.doccount with hlt | hge
      · simpa [isActive] using hlt
      · exact absurd (den_nil_of_done FA h.toCore hge) hne
  id m x r L h hd := by
    rcases Nat.lt_or_ge m.docnum m.doccount with hlt | hge
    · rw [den_head FA h hlt] at hd
      injection hd with h1 _
      injection h1 with h2 _
      show Except.ok m.docnum = _
      rw [h2]
    · rw [den_nil_of_done FA h.toCore hge] at hd; cases hd
  score m x r L h hd := by
    rcases Nat.lt_or_ge m.docnum m.doccount with hlt | hge
    · rw [den_head FA h hlt] at hd
      injection hd with h1 _
      injection h1 with _ h3
      obtain ⟨c1, -⟩ := h.cur hlt
      have hi : m.docnum - m.offset < m.a.length := by
        have := h.len_ok; have := h.off; omega
      show score m = _
      unfold score
      rw [List.getElem?_eq_getElem hi]
      rw [← h3]
      simp [cellAt, List.getElem?_eq_getElem hi]
    · rw [den_nil_of_done FA h.toCore hge] at hd; cases hd
  next m x r L h hd := by
    rcases Nat.lt_or_ge m.docnum m.doccount with hlt | hge
    · rw [den_head FA h hlt] at hd
      injection hd with _ hL
      obtain ⟨c1, -⟩ := h.cur hlt
      let m1 : AUnion α := { m with docnum := m.docnum + 1 }
      have hc1 : Core dA fA WA m1 := ⟨h.alen, h.ppos, h.bpos, h.lim, by show m.offset ≤ m.docnum + 1; have := h.off; omega,
        h.child, h.beyond, h.dpos, h.fpos, fun hdn s hs p hp => by
          have := h.beyond s hs p hp; have := h.limit_le
          have : m.doccount ≤ m.docnum + 1 := hdn
          show m.doccount ≤ p.1
          omega⟩
      obtain ⟨m', e1, e2, e3, e4, e5, e6⟩ := findNext_spec FA m1 hc1 (by show m.docnum + 1 ≤ m.limit; omega)
      refine ⟨m', e1, e2, ?_, ?_, e4⟩
      · rw [e3, ← hL]; rfl
      · show m'.doccount - m'.docnum < m.doccount - m.docnum
        rw [e6]
        have : m.docnum + 1 ≤ m'.docnum := e5
        show m.doccount - m'.docnum < m.doccount - m.docnum
        omega
    · rw [den_nil_of_done FA h.toCore hge] at hd; cases hd
  skipTo m t h hne := by
    have hlt : m.docnum < m.doccount := by
      rcases Nat.lt_or_ge m.docnum m.doccount with hlt | hge
      · exact hlt
      · exact absurd (den_nil_of_done FA h.toCore hge) hne
    obtain ⟨c1, c2⟩ := h.cur hlt
    show ∃ s', skipTo A m t = .ok s' ∧ _
    unfold skipTo
    by_cases h1 : t ≤ m.docnum
    · simp only [h1, ↓reduceIte]
      refine ⟨m, rfl, h, ?_, Nat.le_refl _, fun h0 => absurd rfl h0, rfl⟩
      rw [den_head FA h hlt, dropBelow_of_le_head h1]
    · simp only [h1, ↓reduceIte]
      by_cases h2 : t < m.limit
      · simp only [h2, ↓reduceIte]
        let m1 : AUnion α := { m with docnum := t }
        have hc1 : Core dA fA WA m1 := ⟨h.alen, h.ppos, h.bpos, h.lim, by show m.offset ≤ t; have := h.off; omega,
          h.child, h.beyond, h.dpos, h.fpos, fun hdn => by
            have := h.limit_le
            exact absurd hdn (by show ¬ m.doccount ≤ t; omega)⟩
        obtain ⟨m', e1, e2, e3, e4, e5, e6⟩ := findNext_spec FA m1 hc1 (by show t ≤ m.limit; omega)
        have hlt' : m'.doccount - m'.docnum < m.doccount - m.docnum := by
          rw [e6]
          have : t ≤ m'.docnum := e5
          show m.doccount - m'.docnum < m.doccount - m.docnum
          omega
        refine ⟨m', e1, e2, ?_, Nat.le_of_lt hlt', fun _ => hlt', e4⟩
        rw [e3]
        show bufDen m.a m.offset t m.limit ++ tail dA m = dropBelow t (den dA m)
        -- the buffered documents below `t` go, the rest stays
        have hb : dropBelow t (bufDen m.a m.offset m.docnum m.limit) = bufDen m.a m.offset t m.limit := by
          apply den_ext (asc_dropBelow _ (asc_bufDen _ _ _ _ _ rfl)) (asc_bufDen _ _ _ _ _ rfl)
          intro d
          rw [lookup_dropBelow (asc_bufDen _ _ _ _ _ rfl), lookup_bufDen _ _ _ _ _ _ rfl, lookup_bufDen _ _ _ _ _ _ rfl]
          by_cases hd : d < t
          · have : ¬ (t ≤ d ∧ d < m.limit ∧ 0 < cellAt m.a m.offset d) := by omega
            simp [hd, this]
          · simp only [hd, ↓reduceIte]
            by_cases hc : m.docnum ≤ d ∧ d < m.limit ∧ 0 < cellAt m.a m.offset d
            · have : t ≤ d ∧ d < m.limit ∧ 0 < cellAt m.a m.offset d := ⟨by omega, hc.2.1, hc.2.2⟩
              simp [hc, this]
            · have : ¬ (t ≤ d ∧ d < m.limit ∧ 0 < cellAt m.a m.offset d) := by
                intro h3; apply hc; exact ⟨by omega, h3.2.1, h3.2.2⟩
              simp [hc, this]
        rw [den_eq]
        by_cases hbn : bufDen m.a m.offset t m.limit = []
        · rw [hbn, dropBelow_append_of_nil (by rw [hb]; exact hbn)]
          -- nothing of the tail lies below `t`
          have : dropBelow t (tail dA m) = tail dA m := by
            cases ht : tail dA m with
            | nil => rfl
            | cons p T =>
              have := tail_ge FA h.toCore p (by rw [ht]; exact List.mem_cons_self)
              obtain ⟨px, pr⟩ := p
              exact dropBelow_of_le_head (by show t ≤ px; have : m.limit ≤ px := this; omega)
          rw [this]; rfl
        · rw [dropBelow_append_of_ne_nil (by rw [hb]; exact hbn), hb]
      · simp only [h2, ↓reduceIte]
        obtain ⟨subs', s1, s2⟩ := skipAll_spec FA t m.subs h.child
        simp only [s1, bind, Except.bind]
        have hmem : ∀ s' ∈ subs', ∃ s ∈ m.subs, Drained dA fA WA t s s' := fun s' hs' => s2.mem_right hs'
        have hw' : ∀ s' ∈ subs', WA s' := fun s' hs' => by obtain ⟨s, -, hr⟩ := hmem s' hs'; exact hr.1
        have hdp' : ∀ s' ∈ subs', ∀ p ∈ dA s', 0 < p.2 := fun s' hs' p hp => by
          obtain ⟨s, hs, hr⟩ := hmem s' hs'
          rw [hr.2.1] at hp
          exact h.dpos s hs p ((List.dropWhile_sublist _).subset hp)
        have hfp' : ∀ s' ∈ subs', ∀ p ∈ fA s', 0 < p.2 := fun s' hs' p hp => by
          obtain ⟨s, hs, hr⟩ := hmem s' hs'
          rw [hr.2.2] at hp
          exact h.fpos s hs p hp
        have hge' : ∀ s' ∈ subs', ∀ p ∈ dA s', t ≤ p.1 := fun s' hs' p hp => by
          obtain ⟨s, hs, hr⟩ := hmem s' hs'
          rw [hr.2.1] at hp
          exact mem_dropBelow_ge (FA.asc s (h.child s hs)) hp
        have hfull : (subs'.map fun s => scale m.boost (fA s)) = m.subs.map fun s => scale m.boost (fA s) :=
          (s2.map_eq (fun s => scale m.boost (fA s)) (fun s => scale m.boost (fA s)) fun a b hr => by rw [hr.2.2]).symm
        -- what `skip_to(t)` must leave
        have htarget : dropBelow t (den dA m) = below m.doccount (sumDens (scaled m.boost dA subs')) := by
          rw [below_drained FA m.boost m.doccount t h.child s2, den_eq]
          have hbn : dropBelow t (bufDen m.a m.offset m.docnum m.limit) = [] := by
            apply dropBelow_eq_nil_of_lt
            intro p hp
            have := (mem_bufDen hp).2.1
            omega
          rw [dropBelow_append_of_nil hbn]; rfl
        by_cases hany : subs'.any A.isActive = true
        · simp only [hany, ↓reduceIte]
          obtain ⟨x, x1, x2, x3⟩ := minId_spec FA subs' m.doccount hw'
          simp only [x1]
          obtain ⟨m', r1, r2, r3, r4, r5, r6, r7, r8, r9, r10⟩ :=
            readPart_spec FA { m with subs := subs', docnum := x } h.ppos h.bpos hw' hdp' hfp' x2
          have hxt : t ≤ x := by
            rcases x3 with ⟨s, hs, r0, L, hds⟩ | ⟨-, hall⟩
            · exact hge' s hs (x, r0) (by rw [hds]; exact List.mem_cons_self)
            · exfalso
              obtain ⟨s, hs, ha⟩ := List.any_eq_true.1 hany
              exact (FA.active s (hw' s hs)).1 ha (hall s hs)
          have hlt' : m'.doccount - m'.docnum < m.doccount - m.docnum := by
            rw [r5, r3]
            show m.doccount - x < m.doccount - m.docnum
            omega
          refine ⟨m', r1, ⟨r2, ?_⟩, ?_, Nat.le_of_lt hlt', fun _ => hlt', ?_⟩
          · intro hl
            rw [r3, r5] at hl
            rcases x3 with hx | ⟨hx, -⟩
            · have := r10 hx hl
              rw [r3, r4]; exact this
            · exact absurd hl (by show ¬ x < m.doccount; omega)
          · rw [r8, htarget]
          · rw [r9]; unfold full; show below m.doccount (sumDens (subs'.map fun s => scale m.boost (fA s))) = _
            rw [hfull]
        · simp only [hany, Bool.false_eq_true, ↓reduceIte]
          have hall : ∀ s' ∈ subs', dA s' = [] := fun s' hs' => by
            apply (FA.inactive (hw' s' hs')).1
            cases hx : A.isActive s' with
            | false => rfl
            | true => exact absurd (List.any_eq_true.2 ⟨s', hs', hx⟩) hany
          let m' : AUnion α := { m with subs := subs', docnum := m.doccount }
          have hlt' : m'.doccount - m'.docnum < m.doccount - m.docnum := by
            show m.doccount - m.doccount < m.doccount - m.docnum
            omega
          refine ⟨m', rfl, ⟨⟨h.alen, h.ppos, h.bpos, h.lim, by show m.offset ≤ m.doccount; have := h.off; omega, hw', ?_,
            hdp', hfp', ?_⟩, ?_⟩, ?_, Nat.le_of_lt hlt', fun _ => hlt', ?_⟩
          · intro s' hs' p hp; rw [hall s' hs'] at hp; cases hp
          · intro _ s' hs' p hp; rw [hall s' hs'] at hp; cases hp
          · intro hl; exact absurd hl (Nat.lt_irrefl _)
          · rw [htarget, den_eq]
            show bufDen m.a m.offset m.doccount m.limit ++ below m.doccount (sumDens (scaled m.boost dA subs')) = _
            rw [bufDen_ge _ _ h.limit_le]; rfl
          · show below m.doccount (sumDens (subs'.map fun s => scale m.boost (fA s))) = _
            rw [hfull]; rfl
  reset m h := by
    obtain ⟨subs', s1, s2⟩ := resetAll_spec FA m.subs h.child
    have hmem : ∀ s' ∈ subs', ∃ s ∈ m.subs, WA s' ∧ dA s' = fA s ∧ fA s' = fA s := fun s' hs' => s2.mem_right hs'
    have hw' : ∀ s' ∈ subs', WA s' := fun s' hs' => by obtain ⟨s, -, hr⟩ := hmem s' hs'; exact hr.1
    have hdp' : ∀ s' ∈ subs', ∀ p ∈ dA s', 0 < p.2 := fun s' hs' p hp => by
      obtain ⟨s, hs, hr⟩ := hmem s' hs'
      rw [hr.2.1] at hp; exact h.fpos s hs p hp
    have hfp' : ∀ s' ∈ subs', ∀ p ∈ fA s', 0 < p.2 := fun s' hs' p hp => by
      obtain ⟨s, hs, hr⟩ := hmem s' hs'
      rw [hr.2.2] at hp; exact h.fpos s hs p hp
    obtain ⟨x, x1, x2, x3⟩ := minId_spec FA subs' m.doccount hw'
    obtain ⟨m', r1, r2, r3, r4, r5, r6, r7, r8, r9, r10⟩ :=
      readPart_spec FA { m with subs := subs', docnum := x } h.ppos h.bpos hw' hdp' hfp' x2
    have hfull : (subs'.map fun s => scale m.boost (fA s)) = m.subs.map fun s => scale m.boost (fA s) :=
      (s2.map_eq (fun s => scale m.boost (fA s)) (fun s => scale m.boost (fA s)) fun a b hr => by rw [hr.2.2]).symm
    have hden : (subs'.map fun s => scale m.boost (dA s)) = m.subs.map fun s => scale m.boost (fA s) :=
      (s2.map_eq (fun s => scale m.boost (fA s)) (fun s => scale m.boost (dA s)) fun a b hr => by rw [hr.2.1]).symm
    refine ⟨m', ?_, ⟨r2, ?_⟩, ?_, ?_⟩
    · show reset A m = _
      unfold reset
      simp only [s1, x1, bind, Except.bind]
      exact r1
    · intro hl
      rw [r3, r5] at hl
      rcases x3 with hx | ⟨hx, -⟩
      · have := r10 hx hl
        rw [r3, r4]; exact this
      · exact absurd hl (by show ¬ x < m.doccount; omega)
    · rw [r8]
      show below m.doccount (sumDens (subs'.map fun s => scale m.boost (dA s))) = _
      rw [hden]; rfl
    · rw [r9]
      show below m.doccount (sumDens (subs'.map fun s => scale m.boost (fA s))) = _
      rw [hfull]; rfl

/-- `ArrayUnionMatcher.all_ids`: the buffered documents, part after part, are exactly the remaining ids -/
theorem allIdsLoop_spec : ∀ (n : Nat) (m : AUnion α) (d : Nat) (acc : List Nat), Core dA fA WA m → m.offset ≤ d → d ≤ m.limit →
    (d < m.doccount → d < m.limit) → m.doccount - d < n →
    allIdsLoop A n m d acc = .ok (acc.reverse ++ (bufDen m.a m.offset d m.limit ++ tail dA m).map (·.1))
  | 0, _, _, _, _, _, _, _, hn => by omega
  | n + 1, m, d, acc, h, ho, hdl, hl, hn => by
    unfold allIdsLoop
    by_cases hd : d < m.doccount
    · have hlt := hl hd
      have hi : d - m.offset < m.a.length := by have := h.len_ok; omega
      have hcell : cellAt m.a m.offset d = m.a[d - m.offset] := by simp [cellAt, List.getElem?_eq_getElem hi]
      simp only [hd, ↓reduceIte, List.getElem?_eq_getElem hi]
      -- what this cell contributes
      have hstep : ∀ acc', acc' = (if 0 < m.a[d - m.offset] then d :: acc else acc) →
          acc'.reverse ++ (bufDen m.a m.offset (d + 1) m.limit ++ tail dA m).map (·.1) =
          acc.reverse ++ (bufDen m.a m.offset d m.limit ++ tail dA m).map (·.1) := by
        intro acc' hacc
        rw [bufDen_step _ _ hlt, hcell]
        by_cases hv : 0 < m.a[d - m.offset]
        · simp [hacc, hv]
        · simp [hacc, hv]
      by_cases hend : d + 1 = m.limit
      · have : (d + 1 == m.limit) = true := by simp [hend]
        simp only [this, ↓reduceIte]
        obtain ⟨m1, r1, r2, r3, r4, r5, r6, r7, r8, r9, -⟩ := readPart_spec FA { m with docnum := d + 1 } h.ppos h.bpos
          h.child h.dpos h.fpos (by
            intro s hs p hp
            have := h.beyond s hs p hp
            show d + 1 ≤ p.1
            omega)
        simp only [r1, bind, Except.bind]
        have hl1 : d + 1 < m1.doccount → d + 1 < m1.limit := by
          intro hh
          rw [r2.lim, r4, r7, r5, Nat.lt_min]
          rw [r5] at hh
          exact ⟨by have := h.ppos; show d + 1 < d + 1 + m.partsize; omega, hh⟩
        have hle1 : d + 1 ≤ m1.limit := by
          rw [r2.lim, r4, r7, r5, Nat.le_min]
          have := h.limit_le
          exact ⟨by show d + 1 ≤ d + 1 + m.partsize; omega, by show d + 1 ≤ m.doccount; omega⟩
        rw [allIdsLoop_spec n m1 (d + 1) _ r2 (by rw [r4]; exact Nat.le_refl _) hle1 hl1 (by rw [r5]; show m.doccount - (d + 1) < n; omega)]
        -- the new part and the new tail are the old tail
        have hden1 : bufDen m1.a m1.offset (d + 1) m1.limit ++ tail dA m1 = tail dA m := by
          have := r8
          rw [den_eq, r3] at this
          exact this
        rw [hden1]
        have := hstep _ rfl
        rw [hend, bufDen_ge _ _ (Nat.le_refl _)] at this
        simpa using this
      · have : (d + 1 == m.limit) = false := by simp [hend]
        simp only [this, Bool.false_eq_true, ↓reduceIte]
        rw [allIdsLoop_spec n m (d + 1) _ h (by omega) (by omega) (fun _ => by omega) (by omega)]
        exact congrArg Except.ok (hstep _ rfl)
    · simp only [hd, ↓reduceIte]
      have hlim : m.limit = m.doccount := by have := h.limit_le; omega
      have htl : tail dA m = [] := by
        unfold tail below
        rw [List.filter_eq_nil_iff]
        intro p hp
        have hS := asc_scaled FA m.boost h.child
        have h1 := lookup_some_of_mem_asc (asc_sumDens hS) hp
        rw [lookup_sumDens hS] at h1
        simp only [decide_eq_true_eq, Nat.not_lt]
        rcases Nat.lt_or_ge p.1 m.doccount with hlt | hge
        · exfalso
          have : sumAt (scaled m.boost dA m.subs) p.1 = none := by
            apply sumAt_none
            intro D hD
            obtain ⟨s, hs, rfl⟩ := List.mem_map.1 hD
            apply lookup_none_of_lt
            intro q hq
            obtain ⟨q', hq', rfl⟩ := mem_scale.1 hq
            have := h.beyond s hs q' hq'
            show p.1 < q'.1
            omega
          rw [this] at h1; cases h1
        · exact hge
      rw [htl, bufDen_ge _ _ (by omega)]
      simp
      rfl

theorem allIds_spec (m : AUnion α) (h : WF dA fA WA m) : allIds A m = .ok ((den dA m).map (·.1)) := by
  unfold allIds
  rcases Nat.lt_or_ge m.docnum m.doccount with hlt | hge
  · rw [allIdsLoop_spec FA _ m m.docnum [] h.toCore h.off (Nat.le_of_lt (h.cur hlt).1) (fun _ => (h.cur hlt).1) (by omega)]
    rfl
  · rw [den_nil_of_done FA h.toCore hge]
    have : m.doccount - m.docnum + 1 = 0 + 1 := by omega
    rw [this]
    unfold allIdsLoop
    have : ¬ m.docnum < m.doccount := by omega
    simp [this]
    rfl

end Main

end AUnion

end WM.Matcher
