import WM.Model.Parser
import WM.Lemmas.ParserTotal
/-! `do_fieldnames`: the backward index loop as a structural scan of the reversed list, and the
scoping property of a field prefix. -/
namespace WM.Parser

/-- The backward loop on the reversed list: head = `group[i-1]`, the tail are the nodes before
    it; the output is in the order the loop appends to `newgroup`. -/
def fnRev : List Node → List Node
  | [] => []
  | [node] => [fnToWord node]
  | node :: .fname name o :: prevs =>
    if !(fnToWord node).isWs then setFieldname name false (fnToWord node) :: fnRev prevs
    else fnToWord node :: fnRev (.fname name o :: prevs)
  | node :: p :: prevs => fnToWord node :: fnRev (p :: prevs)

theorem take_succ_reverse {α} (l : List α) (i : Nat) (h : i < l.length) :
    (l.take (i + 1)).reverse = l[i] :: (l.take i).reverse := by
  rw [List.take_add_one, List.getElem?_eq_getElem h]
  simp

/-- result of one loop iteration: `cur = group[j]`, `prev = group[j-1]` (if any) -/
def fnStepRes (j : Nat) (cur : Node) (prev : Option Node) : Nat × Node :=
  match prev with
  | some (.fname name _) =>
    if !(fnToWord cur).isWs then (j - 1, setFieldname name false (fnToWord cur)) else (j, fnToWord cur)
  | _ => (j, fnToWord cur)

theorem fnStep_eq (group : List Node) (j : Nat) (hj : j < group.length) :
    fnStep group (j + 1) = .ok (fnStepRes j group[j] (if 0 < j then group[j - 1]? else none)) := by
  unfold fnStep
  have e1 : ((j + 1 : Nat) : Int) - 1 = (j : Int) := by omega
  rw [e1, pyGet_ok_nat hj]
  simp only [Nat.add_sub_cancel]
  by_cases hj0 : 0 < j
  · have hj1 : j - 1 < group.length := by omega
    have e2 : (j : Int) - 1 = ((j - 1 : Nat) : Int) := by omega
    simp only [hj0, if_true, List.getElem?_eq_getElem hj1]
    by_cases hws : (fnToWord group[j]).isWs = true
    · simp only [hws, Bool.not_true, Bool.false_eq_true, and_false, if_false]
      unfold fnStepRes
      split <;> simp [hws]
    · simp only [Bool.not_eq_true] at hws
      simp only [hws, Bool.not_false, and_self, if_true, e2, pyGet_ok_nat hj1]
      generalize group[j - 1] = p
      cases p <;> simp [fnStepRes, hws]
  · have : j = 0 := by omega
    subst this
    simp [fnStepRes]

/-- the scan consumes the head and possibly the field prefix before it -/
theorem fnRev_cons (cur : Node) (prevs : List Node) :
    fnRev (cur :: prevs) =
      match prevs with
      | .fname name _ :: prevs' =>
        if !(fnToWord cur).isWs then setFieldname name false (fnToWord cur) :: fnRev prevs'
        else fnToWord cur :: fnRev prevs
      | _ => fnToWord cur :: fnRev prevs := by
  cases prevs with
  | nil => simp [fnRev]
  | cons p prevs => cases p <;> simp [fnRev]

/-- the index loop computes the scan -/
theorem fnLoop_eq (group : List Node) (i : Nat) (acc : List Node) (hi : i ≤ group.length) :
    fnLoop group i acc = .ok (acc ++ fnRev ((group.take i).reverse)) := by
  induction i using Nat.strongRecOn generalizing acc with
  | _ i ih =>
    rw [fnLoop]
    by_cases h0 : 0 < i
    · simp only [h0, dite_true]
      obtain ⟨j, rfl⟩ : ∃ j, i = j + 1 := ⟨i - 1, by omega⟩
      have hj : j < group.length := by omega
      have hstep := fnStep_eq group j hj
      rw [take_succ_reverse group j hj, fnRev_cons]
      split
      · next e hs => rw [hstep] at hs; cases hs
      · next i' n hs =>
        rw [hstep] at hs
        injection hs with hs
        by_cases hj0 : 0 < j
        · have hj1 : j - 1 < group.length := by omega
          have htk : (group.take j).reverse = group[j - 1] :: (group.take (j - 1)).reverse := by
            have := take_succ_reverse group (j - 1) hj1
            rwa [show j - 1 + 1 = j by omega] at this
          simp only [hj0, if_true, List.getElem?_eq_getElem hj1] at hs
          rw [htk]
          generalize hp : group[j - 1] = p at hs
          cases p with
          | fname name o =>
            simp only [fnStepRes] at hs
            by_cases hws : (fnToWord group[j]).isWs = true
            · simp only [hws, Bool.not_true, Bool.false_eq_true, if_false, Prod.mk.injEq] at hs
              obtain ⟨rfl, rfl⟩ := hs
              rw [ih j (by omega) _ (by omega), htk, hp]
              simp [hws]
            · simp only [Bool.not_eq_true] at hws
              simp only [hws, Bool.not_false, if_true, Prod.mk.injEq] at hs
              obtain ⟨rfl, rfl⟩ := hs
              rw [ih (j - 1) (by omega) _ (by omega)]
              simp [hws]
          | _ =>
            simp only [fnStepRes, Prod.mk.injEq] at hs
            obtain ⟨rfl, rfl⟩ := hs
            rw [ih j (by omega) _ (by omega), htk, hp]
            simp
        · have hj00 : j = 0 := by omega
          subst hj00
          simp only [Nat.lt_irrefl, if_false, fnStepRes, Prod.mk.injEq] at hs
          obtain ⟨rfl, rfl⟩ := hs
          rw [ih 0 (by omega) _ (by omega)]
          simp [fnRev]
    · have : i = 0 := by omega
      subst this
      simp [fnRev]

/-! ### scoping -/

theorem fnToWord_not_fname {x : Node} (h : x.isFname = false) : fnToWord x = x := by
  cases x <;> simp_all [Node.isFname, fnToWord]

/-- a node that is not a field prefix shields what is left of it from what is right of it -/
theorem fnRev_append (A : List Node) (x : Node) (B : List Node) (hx : x.isFname = false) :
    fnRev (A ++ x :: B) = fnRev A ++ fnRev (x :: B) := by
  induction hn : A.length using Nat.strongRecOn generalizing A with
  | _ n ih =>
    cases A with
    | nil => simp [fnRev]
    | cons a A' =>
      cases A' with
      | nil =>
        rw [List.cons_append, List.nil_append, fnRev_cons]
        cases x <;> simp_all [Node.isFname, fnRev]
      | cons p A'' =>
        have ihp : fnRev (p :: A'' ++ x :: B) = fnRev (p :: A'') ++ fnRev (x :: B) :=
          ih (p :: A'').length (by subst hn; simp) (p :: A'') rfl
        have iha : fnRev (A'' ++ x :: B) = fnRev A'' ++ fnRev (x :: B) :=
          ih A''.length (by subst hn; simp; omega) A'' rfl
        have hL := fnRev_cons a (p :: A'' ++ x :: B)
        have hR := fnRev_cons a (p :: A'')
        simp only [List.cons_append] at hL ihp ⊢
        rw [hL, hR]
        cases p with
        | fname name o =>
          simp only
          split
          · rw [iha]; simp
          · rw [ihp]; simp
        | _ => simp only; rw [ihp]; simp

/-- the scan in reading order -/
def fieldsScan (l : List Node) : List Node := (fnRev l.reverse).reverse

/-- A field prefix gives its name to exactly the node after it; the nodes before and after are
    scanned as if the pair were not there. -/
theorem fieldsScan_scope (pre post : List Node) (name orig : Str) (x : Node)
    (hw : x.isWs = false) (hf : x.isFname = false) :
    fieldsScan (pre ++ .fname name orig :: x :: post)
      = fieldsScan pre ++ setFieldname name false x :: fieldsScan post := by
  unfold fieldsScan
  have : (pre ++ Node.fname name orig :: x :: post).reverse
      = post.reverse ++ x :: (Node.fname name orig :: pre.reverse) := by simp
  rw [this, fnRev_append _ _ _ hf, fnRev_cons]
  simp only [fnToWord_not_fname hf, hw, Bool.not_false, if_true]
  simp

/-- a node without a field prefix in front of it keeps its own field -/
theorem fieldsScan_plain (pre post : List Node) (x : Node) (hf : x.isFname = false)
    (hpre : ∀ n, pre.getLast? = some n → n.isFname = false) :
    fieldsScan (pre ++ x :: post) = fieldsScan pre ++ x :: fieldsScan post := by
  unfold fieldsScan
  have : (pre ++ x :: post).reverse = post.reverse ++ x :: pre.reverse := by simp
  rw [this, fnRev_append _ _ _ hf, fnRev_cons]
  have hx := fnToWord_not_fname hf
  cases hr : pre.reverse with
  | nil => simp [hx, fnRev]
  | cons p ps =>
    have hl : pre.getLast? = some p := by
      rw [List.getLast?_eq_head?_reverse, hr]; rfl
    have := hpre p hl
    cases p <;> simp_all [Node.isFname]

/-! ### the filter -/

/-- the result of `do_fieldnames` as a total function (it never fails: `doFieldnames_ok`) -/
def fieldsOut (c : Cfg) (n : Node) : Node :=
  match doFieldnames c n with
  | .ok r => r
  | .error _ => n

theorem doFieldnames_eq_fieldsOut (c : Cfg) (n : Node) : doFieldnames c n = .ok (fieldsOut c n) := by
  obtain ⟨r, hr⟩ := doFieldnames_ok c n
  simp [fieldsOut, hr]

theorem fieldsOut_nongroup (c : Cfg) {n : Node} (h : n.isGroup = false) : fieldsOut c n = n := by
  simp [fieldsOut, doFieldnames_nongroup c h]

theorem mapM_eq_map' {β γ} (xs : List β) (G : β → Except Err γ) (g : β → γ)
    (h : ∀ y ∈ xs, G y = .ok (g y)) : xs.mapM G = .ok (xs.map g) := by
  induction xs with
  | nil => rfl
  | cons a t ih =>
    simp [List.mapM_cons, h a (by simp), ih (fun y hy => h y (by simp [hy])), bind, Except.bind, pure, Except.pure]

/-- the first loop of `do_fieldnames` (unknown field names become text), when it applies -/
def stage1 (c : Cfg) (l : List Node) : List Node :=
  if c.removeUnknown = true ∧ c.schemaTruthy = true then fnStage1 c none l else l

theorem doFieldnames_group (c : Cfg) (k : GK) (ns : List Node) (b : Rat) :
    doFieldnames c (.group k ns b) = .ok (.group k (fieldsScan (stage1 c (ns.map (fieldsOut c)))) b) := by
  rw [doFieldnames]
  have hm : ns.mapM (doFieldnames c) = .ok (ns.map (fieldsOut c)) :=
    mapM_eq_map' _ _ _ (fun y _ => doFieldnames_eq_fieldsOut c y)
  simp only [hm, bind, Except.bind]
  have hl := fnLoop_eq (stage1 c (ns.map (fieldsOut c))) (stage1 c (ns.map (fieldsOut c))).length [] (Nat.le_refl _)
  simp only [List.take_length, List.nil_append] at hl
  unfold stage1 at hl ⊢
  rw [hl]
  rfl

/-- every field prefix at the top level of the list names a field of the schema -/
def knownNames (c : Cfg) (l : List Node) : Prop :=
  ∀ n ∈ l, ∀ name o, n = .fname name o → c.inSchema name = true

theorem fnStage1_id (c : Cfg) (l : List Node) (h : knownNames c l) : fnStage1 c none l = l := by
  induction l with
  | nil => rfl
  | cons n rest ih =>
    have ihr := ih (fun m hm => h m (by simp [hm]))
    cases n with
    | fname name o =>
      have := h (.fname name o) (by simp) name o rfl
      simp [fnStage1, this, ihr]
    | _ => simp [fnStage1, ihr]

theorem stage1_id (c : Cfg) (l : List Node) (h : knownNames c l) : stage1 c l = l := by
  unfold stage1
  split
  · exact fnStage1_id c l h
  · rfl

theorem fieldsOut_group_isGroup (c : Cfg) (k : GK) (ns : List Node) (b : Rat) :
    (fieldsOut c (.group k ns b)).isGroup = true := by
  have := doFieldnames_group c k ns b
  rw [fieldsOut, this]; rfl

theorem knownNames_map (c : Cfg) (l : List Node) (h : knownNames c l) : knownNames c (l.map (fieldsOut c)) := by
  intro n hn name o he
  simp only [List.mem_map] at hn
  obtain ⟨m, hm, rfl⟩ := hn
  cases hg : m.isGroup
  · rw [fieldsOut_nongroup c hg] at he
    exact h m hm name o he
  · cases m <;> simp [Node.isGroup] at hg
    have := fieldsOut_group_isGroup c ‹_› ‹_› ‹_›
    rw [he] at this
    simp [Node.isGroup] at this

theorem fieldsOut_props (c : Cfg) (x : Node) (hw : x.isWs = false) (hf : x.isFname = false) :
    (fieldsOut c x).isWs = false ∧ (fieldsOut c x).isFname = false := by
  cases hg : x.isGroup
  · rw [fieldsOut_nongroup c hg]; exact ⟨hw, hf⟩
  · cases x <;> simp [Node.isGroup] at hg
    have := fieldsOut_group_isGroup c ‹_› ‹_› ‹_›
    cases hr : fieldsOut c (Node.group ‹_› ‹_› ‹_›) <;> simp_all [Node.isGroup, Node.isWs, Node.isFname]

end WM.Parser
