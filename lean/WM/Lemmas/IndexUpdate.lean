import WM.Lemmas.IndexTerm
/-! `delete_by_term` and `update_document` against the specification. -/
namespace WM.Index
open WM.Dict

theorem step_delBy_term (w : Writer) (ss : Sess) (h : SRel w ss) (hwf : w.WF) (f t : Nat) :
    SRel (w.step (.delBy (.term f t))).1 (ss.step (w.specOp (.delBy (.term f t)))) ∧
    Frame w (w.step (.delBy (.term f t))).1 ∧
    (w.step (.delBy (.term f t))).2 = .count (docsForQuery w.schema (.term f t) w.segs 0).length := by
  have hp : ∀ s ∈ w.segs, s.posts.Perm (allPostings s.docs) := fun s hs => (hwf.segs s hs).posts
  obtain ⟨w', h1, f1, l1⟩ := Writer.deleteMany_ok w (docsForQuery w.schema (.term f t) w.segs 0)
    (docsForQuery_term_lt w.schema f t w.segs hp)
  have l2 : liveGlobal w'.segs 0 = (liveGlobal w.segs 0).filter (fun q => !(restrict w.schema q.1).hasTerm f t) := by
    rw [l1]
    apply List.filter_congr
    intro q hq
    rw [docsForQuery_term_contains w.schema f t w.segs hp q hq]
  have hc : contentOf w'.schema w'.segs = (contentOf w.schema w.segs).filter (fun d => !d.hasTerm f t) := by
    rw [contentOf_eq_liveGlobal _ _ 0, contentOf_eq_liveGlobal _ _ 0, l2, f1.schema, List.filter_map]
    rfl
  simp only [Writer.step, Writer.deleteByQuery, h1, Except.map, Writer.specOp, Sess.step, Sess.deleteWhere]
  exact ⟨h.of_frame f1 rfl rfl (by rw [hc]; exact h.committed.filter _), f1, trivial⟩

theorem firstId_eq_head (sc : Schema) (f t : Nat) (segs : List Seg) (base : Nat) :
    firstId sc f t segs base = (docsForQuery sc (.term f t) segs base).head? := by
  induction segs generalizing base with
  | nil => rfl
  | cons s r ih =>
    simp only [firstId, docsForQuery, Seg.docsFor, Seg.firstId, List.head?_append, List.head?_map]
    cases (s.postingDocs sc f t).head? with
    | none => simp [ih]
    | some i => simp [Nat.add_comm]

theorem eq_of_length_le_one {α} (l : List α) (h : l.length ≤ 1) (a b : α) (ha : a ∈ l) (hb : b ∈ l) : a = b := by
  match l, h with
  | [], _ => simp at ha
  | [x], _ => simp at ha hb; rw [ha, hb]
  | _ :: _ :: _, h => simp at h

/-- `_find_unique`: under the "at most one live document per key" condition it hits exactly the
    live documents sharing a unique term with the new document. -/
theorem findUnique_contains (sc : Schema) (segs : List Seg) (us : List (Nat × Nat))
    (hp : ∀ s ∈ segs, s.posts.Perm (allPostings s.docs))
    (hun : ∀ ft ∈ us, ((contentOf sc segs).filter (fun d => d.hasTerm ft.1 ft.2)).length ≤ 1)
    (q : DocRec × Nat) (hq : q ∈ liveGlobal segs 0) :
    (findUnique sc segs us).contains q.2 = sharesUnique us (restrict sc q.1) := by
  rw [Bool.eq_iff_iff, List.contains_iff_mem]
  simp only [findUnique, List.mem_eraseDups, List.mem_filterMap, sharesUnique, List.any_eq_true]
  constructor
  · rintro ⟨ft, hft, hfirst⟩
    refine ⟨ft, hft, ?_⟩
    rw [firstId_eq_head] at hfirst
    have hmem : q.2 ∈ docsForQuery sc (.term ft.1 ft.2) segs 0 := List.mem_of_mem_head? hfirst
    rw [← docsForQuery_term_contains sc ft.1 ft.2 segs hp q hq, List.contains_iff_mem]
    exact hmem
  · rintro ⟨ft, hft, hterm⟩
    refine ⟨ft, hft, ?_⟩
    rw [firstId_eq_head]
    have hmem : q.2 ∈ docsForQuery sc (.term ft.1 ft.2) segs 0 := by
      rw [← List.contains_iff_mem, docsForQuery_term_contains sc ft.1 ft.2 segs hp q hq]; exact hterm
    cases hh : (docsForQuery sc (.term ft.1 ft.2) segs 0).head? with
    | none => rw [List.head?_eq_none_iff] at hh; rw [hh] at hmem; simp at hmem
    | some m =>
      have hm : m ∈ docsForQuery sc (.term ft.1 ft.2) segs 0 := List.mem_of_mem_head? hh
      rw [(docsForQuery_term_perm sc ft.1 ft.2 segs 0 hp).mem_iff] at hm
      simp only [List.mem_flatMap, List.mem_replicate] at hm
      obtain ⟨q', hq', hne, rfl⟩ := hm
      have hterm' : (restrict sc q'.1).hasTerm ft.1 ft.2 = true := (termCount_pos sc ft.1 ft.2 q'.1).mp (by omega)
      have hlen := hun ft hft
      rw [contentOf_eq_liveGlobal sc segs 0, List.filter_map, List.length_map] at hlen
      have : q' = q := eq_of_length_le_one _ hlen q' q
        (List.mem_filter.mpr ⟨hq', hterm'⟩) (List.mem_filter.mpr ⟨hq, hterm⟩)
      rw [this]

theorem findUnique_lt (sc : Schema) (segs : List Seg) (us : List (Nat × Nat))
    (hp : ∀ s ∈ segs, s.posts.Perm (allPostings s.docs)) :
    ∀ n ∈ findUnique sc segs us, n < docCountAllSegs segs := by
  intro n hn
  simp only [findUnique, List.mem_eraseDups, List.mem_filterMap] at hn
  obtain ⟨ft, _, hfirst⟩ := hn
  rw [firstId_eq_head] at hfirst
  exact docsForQuery_term_lt sc ft.1 ft.2 segs hp n (List.mem_of_mem_head? hfirst)

/-- the condition under which `update_document` means "delete all, then add": no unique term of
    the new document is carried by more than one live committed document -/
def Unambiguous (ss : Sess) (d : DocRec) : Prop :=
  ∀ ft ∈ uniqTerms ss.schema d, (ss.committed.filter (fun c => c.hasTerm ft.1 ft.2)).length ≤ 1

theorem step_update (w : Writer) (ss : Sess) (h : SRel w ss) (hwf : w.WF) (d : DocRec) (hun : Unambiguous ss d) :
    SRel (w.step (.update d)).1 (ss.step (w.specOp (.update d))) ∧ (w.step (.update d)).1.WF := by
  have hp : ∀ s ∈ w.segs, s.posts.Perm (allPostings s.docs) := fun s hs => (hwf.segs s hs).posts
  have hun' : ∀ ft ∈ uniqTerms w.schema d,
      ((contentOf w.schema w.segs).filter (fun d => d.hasTerm ft.1 ft.2)).length ≤ 1 := by
    intro ft hft
    rw [(h.committed.filter _).length_eq]
    exact hun ft (by rw [h.schema]; exact hft)
  obtain ⟨w1, h1, f1, l1⟩ := Writer.deleteMany_ok w (findUnique w.schema w.segs (uniqTerms w.schema d))
    (findUnique_lt w.schema w.segs _ hp)
  have wf1 := Writer.deleteMany_wf w _ w1 hwf h1
  have l2 : liveGlobal w1.segs 0
      = (liveGlobal w.segs 0).filter (fun q => !sharesUnique (uniqTerms w.schema d) (restrict w.schema q.1)) := by
    rw [l1]
    apply List.filter_congr
    intro q hq
    rw [findUnique_contains w.schema w.segs _ hp hun' q hq]
  have hc : contentOf w1.schema w1.segs
      = (contentOf w.schema w.segs).filter (fun c => !sharesUnique (uniqTerms w.schema d) c) := by
    rw [contentOf_eq_liveGlobal _ _ 0, contentOf_eq_liveGlobal _ _ 0, l2, f1.schema, List.filter_map]
    rfl
  have hrel1 : SRel w1 (ss.deleteWhere (sharesUnique (uniqTerms ss.schema d))) :=
    h.of_frame f1 rfl rfl (by rw [hc, h.schema]; exact h.committed.filter _)
  by_cases hf : d.fits w.schema = true
  · have hf1 : d.fits w1.schema = true := by rw [f1.schema]; exact hf
    have hstep : (w.step (.update d)).1 = (w1.step (.add d)).1 := by
      simp only [Writer.step, Writer.updateDocument, h1, Writer.addDocument, hf1, Bool.not_true,
        Bool.false_eq_true, if_false]
    have hsadd := step_add w1 _ hrel1 d
    simp only [Writer.specOp, hf1, if_true, Sess.step] at hsadd
    rw [hstep]
    refine ⟨?_, ?_⟩
    · simp only [Writer.specOp, hf, if_true, Sess.step, Sess.update]
      exact hsadd
    · simp only [Writer.step, Writer.addDocument, hf1, Bool.not_true, Bool.false_eq_true, if_false]
      exact Writer.addDocument_wf w1 d _ wf1 (by simp [Writer.addDocument, hf1])
  · have hf' : d.fits w.schema = false := by simpa using hf
    have hf1 : d.fits w1.schema = false := by rw [f1.schema]; exact hf'
    have hstep : (w.step (.update d)).1 = w1 := by
      simp only [Writer.step, Writer.updateDocument, h1, Writer.addDocument, hf1, Bool.not_false, if_true]
    rw [hstep]
    refine ⟨?_, wf1⟩
    simp only [Writer.specOp, hf', Bool.false_eq_true, if_false, Sess.step]
    rw [← h.schema]
    exact hrel1

end WM.Index
