import WM.Lemmas.KeepsComb
import WM.Lemmas.QualityLeaf
/-! Quality contract of `UnionMatcher` and `DisjunctionMaxMatcher`. -/
namespace WM.Matcher

section Guards
variable {α : Type} {A : Ops α} {dA fA : α → Den} {WQA W0A : α → Prop}

/-- an upper bound of a non-empty non-negative list is non-negative -/
theorem bound_nonneg {L : Den} {q : Rat} (hb : BoundedBy q L) (hn : NonNegDen L) (hne : L ≠ []) : 0 ≤ q := by
  obtain ⟨x, r, L', rfl⟩ := exists_cons_of_ne_nil hne
  have h1 := hb (x, r) List.mem_cons_self
  have h2 := hn (x, r) List.mem_cons_self
  simp only at h1 h2
  grind

/-- `a.max_quality() if a.is_active() else 0` -/
theorem QFaithful.maxA (QA : QFaithful A dA fA WQA W0A) (a : α) (h : W0A a) :
    ∃ q, A.maxQualityA a = .ok q ∧ BoundedBy q (dA a) ∧ 0 ≤ q := by
  unfold Ops.maxQualityA
  by_cases hne : dA a = []
  · rw [(QA.cur0.inactive h).2 hne]
    exact ⟨0, rfl, (by rw [hne]; intro p hp; cases hp), Rat.le_refl⟩
  · rw [(QA.cur0.active a h).2 hne]
    obtain ⟨q, h1, h2⟩ := QA.max a h
    exact ⟨q, h1, h2, bound_nonneg h2 (QA.nn a h) hne⟩

/-- `a.block_quality() if a.is_active() else 0` -/
theorem QFaithful.blockA (QA : QFaithful A dA fA WQA W0A) (a : α) (h : WQA a) :
    ∃ q, A.blockQualityA a = .ok q ∧ (∀ x r L, dA a = (x, r) :: L → r ≤ q) ∧ 0 ≤ q := by
  unfold Ops.blockQualityA
  by_cases hne : dA a = []
  · rw [(QA.curQ.inactive h).2 hne]
    exact ⟨0, rfl, (by intro x r L hd; rw [hne] at hd; cases hd), Rat.le_refl⟩
  · rw [(QA.curQ.active a h).2 hne]
    obtain ⟨q, h1, h2⟩ := QA.block a h
    refine ⟨q, h1, h2, ?_⟩
    obtain ⟨x, r, L', hd⟩ := exists_cons_of_ne_nil hne
    have := h2 x r L' hd
    have h0 := QA.nn a (QA.toW0 a h) (x, r) (by rw [hd]; exact List.mem_cons_self)
    simp only at h0
    grind

theorem QFaithful.max_nonneg (QA : QFaithful A dA fA WQA W0A) (a : α) (h : W0A a) (hne : dA a ≠ [])
    {q : Rat} (hb : BoundedBy q (dA a)) : 0 ≤ q := bound_nonneg hb (QA.nn a h) hne

end Guards

/-- the head of an additive / maximum union is bounded by the combination of the head bounds -/
theorem head_unionWith_le (f : Rat → Rat → Rat) {A B : Den} {qa qb qq : Rat} {x : Nat} {r : Rat} {L : Den}
    (hd : unionWith f A B = (x, r) :: L)
    (ha : ∀ x r L, A = (x, r) :: L → r ≤ qa) (hb : ∀ x r L, B = (x, r) :: L → r ≤ qb)
    (h1 : ∀ s, s ≤ qa → s ≤ qq) (h2 : ∀ t, t ≤ qb → t ≤ qq) (h3 : ∀ s t, s ≤ qa → t ≤ qb → f s t ≤ qq) : r ≤ qq := by
  cases A with
  | nil =>
    rw [unionWith_nil_left] at hd
    exact h2 r (hb x r L hd)
  | cons p La =>
    obtain ⟨xa, ra⟩ := p
    cases B with
    | nil =>
      rw [unionWith_nil_right] at hd
      cases hd
      exact h1 r (ha x r L rfl)
    | cons p Lb =>
      obtain ⟨xb, rb⟩ := p
      have ha' := ha xa ra La rfl
      have hb' := hb xb rb Lb rfl
      rw [unionWith_cons] at hd
      split at hd
      · cases hd; exact h1 _ ha'
      · split at hd
        · cases hd; exact h2 _ hb'
        · cases hd; exact h3 _ _ ha' hb'

namespace Union
variable {α β : Type} {A : Ops α} {B : Ops β} {dA fA : α → Den} {dB fB : β → Den}
  {WQA W0A : α → Prop} {WQB W0B : β → Prop}

theorem qfaithful (QA : QFaithful A dA fA WQA W0A) (QB : QFaithful B dB fB WQB W0B) :
    QFaithful (Union.ops A B) (fun m => unionWith (· + ·) (dA m.a) (dB m.b))
      (fun m => unionWith (· + ·) (fA m.a) (fB m.b)) (fun m => WQA m.a ∧ WQB m.b) (fun m => W0A m.a ∧ W0B m.b) where
  toW0 m h := ⟨QA.toW0 _ h.1, QB.toW0 _ h.2⟩
  cur0 := Union.faithful QA.cur0 QB.cur0
  curQ := Union.faithful QA.curQ QB.curQ
  nn m h := nonNeg_unionAdd (QA.cur0.asc _ h.1) (QB.cur0.asc _ h.2) (QA.nn _ h.1) (QB.nn _ h.2)
  sup m h := by show (A.supportsBQ m.a && B.supportsBQ m.b) = true; rw [QA.sup _ h.1, QB.sup _ h.2]; rfl
  max m h := by
    obtain ⟨qa, ha1, ha2, ha3⟩ := QA.maxA m.a h.1
    obtain ⟨qb, hb1, hb2, hb3⟩ := QB.maxA m.b h.2
    refine ⟨qa + qb, by show Union.maxQuality A B m = _; simp [Union.maxQuality, ha1, hb1, bind, Except.bind]; rfl, ?_⟩
    exact bounded_unionAdd (QA.cur0.asc _ h.1) (QB.cur0.asc _ h.2) ha2 hb2 ha3 hb3
  maxNonneg m q h hq := by
    obtain ⟨qa, ha1, ha2, ha3⟩ := QA.maxA m.a h.1
    obtain ⟨qb, hb1, hb2, hb3⟩ := QB.maxA m.b h.2
    have : Union.maxQuality A B m = .ok (qa + qb) := by simp [Union.maxQuality, ha1, hb1, bind, Except.bind]; rfl
    change Union.maxQuality A B m = .ok q at hq
    rw [this] at hq; cases hq
    exact Rat.add_nonneg ha3 hb3
  block m h := by
    obtain ⟨qa, ha1, ha2, ha3⟩ := QA.blockA m.a h.1
    obtain ⟨qb, hb1, hb2, hb3⟩ := QB.blockA m.b h.2
    refine ⟨qa + qb, by show Union.blockQuality A B m = _; simp [Union.blockQuality, ha1, hb1, bind, Except.bind]; rfl, ?_⟩
    intro x r L hd
    exact head_unionWith_le (· + ·) hd ha2 hb2 (fun s hs => by grind) (fun t ht => by grind)
      (fun s t hs ht => by show s + t ≤ qa + qb; grind)
  skipQ m q h hne := by
    show ∃ s' k, Union.skipToQuality A B m q = _ ∧ _
    unfold Union.skipToQuality
    have ascA := QA.curQ.asc _ h.1
    have ascB := QB.curQ.asc _ h.2
    by_cases ha0 : dA m.a = []
    · -- only b is active
      have hina := (QA.curQ.inactive h.1).2 ha0
      have hb0 : dB m.b ≠ [] := by intro hb0; apply hne; simp only [ha0, hb0]; exact unionWith_nil_left _ _
      have hactb := (QB.curQ.active _ h.2).2 hb0
      obtain ⟨b', k, g1, g2, g3, g4, g5, g6⟩ := QB.skipQ m.b q h.2 hb0
      refine ⟨{ m with b := b' }, k, by simp [hina, hactb, g1, bind, Except.bind]; rfl, ⟨h.1, g2⟩, ?_, ?_, ?_, ?_⟩
      · simp only [ha0, unionWith_nil_left]; exact g3
      · show A.rem m.a + B.rem b' ≤ A.rem m.a + B.rem m.b; omega
      · intro hd
        have : dB b' ≠ dB m.b := by intro e; apply hd; simp only [e]
        have := g5 this; show A.rem m.a + B.rem b' < A.rem m.a + B.rem m.b; omega
      · simp only [g6]
    · have hacta := (QA.curQ.active _ h.1).2 ha0
      by_cases hb0 : dB m.b = []
      · have hinb := (QB.curQ.inactive h.2).2 hb0
        obtain ⟨a', k, g1, g2, g3, g4, g5, g6⟩ := QA.skipQ m.a q h.1 ha0
        refine ⟨{ m with a := a' }, k, by simp [hinb, hacta, g1, bind, Except.bind]; rfl, ⟨g2, h.2⟩, ?_, ?_, ?_, ?_⟩
        · simp only [hb0, unionWith_nil_right]; exact g3
        · show A.rem a' + B.rem m.b ≤ A.rem m.a + B.rem m.b; omega
        · intro hd
          have : dA a' ≠ dA m.a := by intro e; apply hd; simp only [e]
          have := g5 this; show A.rem a' + B.rem m.b < A.rem m.a + B.rem m.b; omega
        · simp only [g6]
      · have hactb := (QB.curQ.active _ h.2).2 hb0
        obtain ⟨bmax, hb1, hb2⟩ := QB.max m.b (QB.toW0 _ h.2)
        have hbmax0 := QB.max_nonneg m.b (QB.toW0 _ h.2) hb0 hb2
        obtain ⟨a', k1, g1, g2, g3, g4, g5, g6⟩ := QA.skipQ m.a (q - bmax) h.1 ha0
        have ascA' := QA.curQ.asc _ g2
        have H1 : ∀ e ∈ dB m.b, q - bmax ≤ q - e.2 := by intro e he; have := hb2 e he; grind
        have H3 : q - bmax ≤ q := by grind
        simp only [hacta, hactb, Bool.or_self, Bool.not_true, Bool.false_eq_true, ↓reduceIte, hb1, g1, bind,
          Except.bind]
        by_cases ha'0 : dA a' = []
        · have hina' := (QA.curQ.inactive g2).2 ha'0
          obtain ⟨b', k2, e1, e2, e3, e4, e5, e6⟩ := QB.skipQ m.b q h.2 hb0
          refine ⟨⟨a', b'⟩, k1 + k2, (by simp [hina', e1]; rfl), ⟨g2, e2⟩, ?_, ?_, ?_, ?_⟩
          · exact keeps_unionAdd ascA ascA' ascB (QB.curQ.asc _ e2) (QA.nn _ (QA.toW0 _ h.1)) (QB.nn _ (QB.toW0 _ h.2)) g3 e3
              H1 (by rw [ha'0]; intro e he; cases he) H3 Rat.le_refl
          · show A.rem a' + B.rem b' ≤ A.rem m.a + B.rem m.b; omega
          · intro hd
            show A.rem a' + B.rem b' < A.rem m.a + B.rem m.b
            by_cases ea : dA a' = dA m.a
            · have : dB b' ≠ dB m.b := by intro e; apply hd; simp only [ea, e]
              have := e5 this; omega
            · have := g5 ea; omega
          · simp only [g6, e6]
        · have hacta' := (QA.curQ.active _ g2).2 ha'0
          obtain ⟨amax, ha1, ha2⟩ := QA.max a' (QA.toW0 _ g2)
          have hamax0 := QA.max_nonneg a' (QA.toW0 _ g2) ha'0 ha2
          obtain ⟨b', k2, e1, e2, e3, e4, e5, e6⟩ := QB.skipQ m.b (q - amax) h.2 hb0
          refine ⟨⟨a', b'⟩, k1 + k2, (by simp [hacta', ha1, e1]; rfl), ⟨g2, e2⟩, ?_, ?_, ?_, ?_⟩
          · exact keeps_unionAdd ascA ascA' ascB (QB.curQ.asc _ e2) (QA.nn _ (QA.toW0 _ h.1)) (QB.nn _ (QB.toW0 _ h.2)) g3 e3
              H1 (by intro e he; have := ha2 e he; grind) H3 (by grind)
          · show A.rem a' + B.rem b' ≤ A.rem m.a + B.rem m.b; omega
          · intro hd
            show A.rem a' + B.rem b' < A.rem m.a + B.rem m.b
            by_cases ea : dA a' = dA m.a
            · have : dB b' ≠ dB m.b := by intro e; apply hd; simp only [ea, e]
              have := e5 this; omega
            · have := g5 ea; omega
          · simp only [g6, e6]

end Union

namespace DisMax
variable {α β : Type} {A : Ops α} {B : Ops β} {dA fA : α → Den} {dB fB : β → Den}
  {WQA W0A : α → Prop} {WQB W0B : β → Prop}

theorem qfaithful (QA : QFaithful A dA fA WQA W0A) (QB : QFaithful B dB fB WQB W0B) :
    QFaithful (DisMax.ops A B) (fun m => unionWith max (dA m.a) (dB m.b))
      (fun m => unionWith max (fA m.a) (fB m.b)) (fun m => WQA m.a ∧ WQB m.b) (fun m => W0A m.a ∧ W0B m.b) where
  toW0 m h := ⟨QA.toW0 _ h.1, QB.toW0 _ h.2⟩
  cur0 := DisMax.faithful QA.cur0 QB.cur0
  curQ := DisMax.faithful QA.curQ QB.curQ
  nn m h := nonNeg_unionMax (QA.cur0.asc _ h.1) (QB.cur0.asc _ h.2) (QA.nn _ h.1) (QB.nn _ h.2)
  sup m h := by show (A.supportsBQ m.a && B.supportsBQ m.b) = true; rw [QA.sup _ h.1, QB.sup _ h.2]; rfl
  max m h := by
    obtain ⟨qa, ha1, ha2⟩ := QA.max m.a h.1
    obtain ⟨qb, hb1, hb2⟩ := QB.max m.b h.2
    refine ⟨max qa qb, by show DisMax.maxQuality A B m = _; simp [DisMax.maxQuality, ha1, hb1, bind, Except.bind]; rfl, ?_⟩
    exact bounded_unionMax (QA.cur0.asc _ h.1) (QB.cur0.asc _ h.2) ha2 hb2
  maxNonneg m q h hq := by
    obtain ⟨qa, ha1, ha2⟩ := QA.max m.a h.1
    obtain ⟨qb, hb1, hb2⟩ := QB.max m.b h.2
    have : DisMax.maxQuality A B m = .ok (max qa qb) := by simp [DisMax.maxQuality, ha1, hb1, bind, Except.bind]; rfl
    change DisMax.maxQuality A B m = .ok q at hq
    rw [this] at hq; cases hq
    have := QA.maxNonneg _ _ h.1 ha1
    grind
  block m h := by
    obtain ⟨qa, ha1, ha2⟩ := QA.block m.a h.1
    obtain ⟨qb, hb1, hb2⟩ := QB.block m.b h.2
    refine ⟨max qa qb, by show DisMax.blockQuality A B m = _; simp [DisMax.blockQuality, ha1, hb1, bind, Except.bind]; rfl, ?_⟩
    intro x r L hd
    exact head_unionWith_le max hd ha2 hb2 (fun s hs => by grind) (fun t ht => by grind)
      (fun s t hs ht => by show max s t ≤ max qa qb; grind)
  skipQ m q h hne := by
    show ∃ s' k, DisMax.skipToQuality A B m q = _ ∧ _
    unfold DisMax.skipToQuality
    have ascA := QA.curQ.asc _ h.1
    have ascB := QB.curQ.asc _ h.2
    by_cases ha0 : dA m.a = []
    · have hina := (QA.curQ.inactive h.1).2 ha0
      have hb0 : dB m.b ≠ [] := by intro hb0; apply hne; simp only [ha0, hb0]; exact unionWith_nil_left _ _
      obtain ⟨b', k, g1, g2, g3, g4, g5, g6⟩ := QB.skipQ m.b q h.2 hb0
      refine ⟨{ m with b := b' }, k, by simp [hina, g1, bind, Except.bind]; rfl, ⟨h.1, g2⟩, ?_, ?_, ?_, ?_⟩
      · simp only [ha0, unionWith_nil_left]; exact g3
      · show A.rem m.a + B.rem b' ≤ A.rem m.a + B.rem m.b; omega
      · intro hd
        have : dB b' ≠ dB m.b := by intro e; apply hd; simp only [e]
        have := g5 this; show A.rem m.a + B.rem b' < A.rem m.a + B.rem m.b; omega
      · simp only [g6]
    · have hacta := (QA.curQ.active _ h.1).2 ha0
      obtain ⟨a', k1, g1, g2, g3, g4, g5, g6⟩ := QA.skipQ m.a q h.1 ha0
      by_cases hb0 : dB m.b = []
      · have hinb := (QB.curQ.inactive h.2).2 hb0
        refine ⟨{ m with a := a' }, k1, by simp [hinb, hacta, g1, bind, Except.bind]; rfl, ⟨g2, h.2⟩, ?_, ?_, ?_, ?_⟩
        · simp only [hb0, unionWith_nil_right]; exact g3
        · show A.rem a' + B.rem m.b ≤ A.rem m.a + B.rem m.b; omega
        · intro hd
          have : dA a' ≠ dA m.a := by intro e; apply hd; simp only [e]
          have := g5 this; show A.rem a' + B.rem m.b < A.rem m.a + B.rem m.b; omega
        · simp only [g6]
      · have hactb := (QB.curQ.active _ h.2).2 hb0
        obtain ⟨b', k2, e1, e2, e3, e4, e5, e6⟩ := QB.skipQ m.b q h.2 hb0
        refine ⟨⟨a', b'⟩, k1 + k2, (by simp [hacta, hactb, g1, e1, bind, Except.bind]; rfl), ⟨g2, e2⟩, ?_, ?_, ?_, ?_⟩
        · exact keeps_unionMax ascA (QA.curQ.asc _ g2) ascB (QB.curQ.asc _ e2) g3 e3
        · show A.rem a' + B.rem b' ≤ A.rem m.a + B.rem m.b; omega
        · intro hd
          show A.rem a' + B.rem b' < A.rem m.a + B.rem m.b
          by_cases ea : dA a' = dA m.a
          · have : dB b' ≠ dB m.b := by intro e; apply hd; simp only [ea, e]
            have := e5 this; omega
          · have := g5 ea; omega
        · simp only [g6, e6]

end DisMax
end WM.Matcher
