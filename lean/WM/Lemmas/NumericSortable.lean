import WM.Model.Numeric
import WM.Spec.Numeric
/-! Closed forms of the integer and float sortable encodings. -/
namespace WM.Numeric
open WM.NumericSpec

theorem one_shiftLeft_cast (k : Nat) : ((1 <<< k : Nat) : Int) = (2 : Int) ^ k := by
  rw [Nat.one_shiftLeft]; norm_cast

theorem two_pow_pred (n : Nat) (hn : 0 < n) : (2 : Int) ^ n = 2 * 2 ^ (n - 1) := by
  have : n = (n - 1) + 1 := by omega
  conv => lhs; rw [this, Int.pow_succ]
  omega

theorem xor_all_ones (a k : Nat) (h : a < 2 ^ k) : a ^^^ (2 ^ k - 1) = 2 ^ k - 1 - a := by
  have e : 2 ^ k - 1 - a = 2 ^ k - (a + 1) := by omega
  rw [e]
  apply Nat.eq_of_testBit_eq
  intro i
  rw [Nat.testBit_two_pow_sub_succ h, Nat.testBit_xor, Nat.testBit_two_pow_sub_one]
  by_cases hi : i < k
  · simp [hi]
  · have : a.testBit i = false :=
      Nat.testBit_lt_two_pow (Nat.lt_of_lt_of_le h (Nat.pow_le_pow_right (by omega) (by omega)))
    simp [hi, this]

theorem M63_eq : M63 = 2 ^ 63 - 1 := by decide

/-- `x ^ (2^k - 1)` on a negative value that fits `k` bits flips its low `k` bits. -/
theorem pyXor_neg_gen (x : Int) (k : Nat) (h1 : x < 0) (h2 : -((2 ^ k : Nat) : Int) ≤ x) :
    pyXor x (2 ^ k - 1) = -x - 1 - ((2 ^ k : Nat) : Int) := by
  match x, h1, h2 with
  | .negSucc a, _, h2 =>
    have ha : a < 2 ^ k := by
      have := Int.negSucc_eq a
      omega
    simp only [pyXor, xor_all_ones a k ha]
    rw [Int.negSucc_eq, Int.negSucc_eq]
    generalize 2 ^ k = T at *
    omega

theorem pyXor_neg (x : Int) (h1 : x < 0) (h2 : -(2 : Int) ^ 63 ≤ x) :
    pyXor x M63 = -x - 1 - 2 ^ 63 := by
  have := pyXor_neg_gen x 63 h1 (by norm_cast at *)
  rw [M63_eq, this]; norm_cast

/-- Closed form of `float_to_sortable_long(·, signed=True)` on a 64-bit pattern. -/
theorem floatToSortable_signed (b : Nat) (hb : b < 2 ^ 64) :
    floatToSortable b true
      = .ok (if b < 2 ^ 63 then (b : Int) + 2 ^ 63 else 2 ^ 64 - 1 - (b : Int)) := by
  unfold floatToSortable qOfBits
  by_cases h : b < 2 ^ 63
  · have h0 : ¬ ((b : Int) < 0) := by omega
    have h1 : ¬ ((b : Int) + 2 ^ 63 < 0) := by omega
    simp only [h, if_true, h0, false_and, if_false, one_shiftLeft_cast, h1]
  · have h0 : ((b : Int) - 2 ^ 64 < 0) := by omega
    simp only [h, if_false, h0, Bool.not_true, if_true, one_shiftLeft_cast]
    rw [pyXor_neg _ h0 (by omega)]
    have h1 : ¬ (-((b : Int) - 2 ^ 64) - 1 - 2 ^ 63 + 2 ^ 63 < 0) := by omega
    simp only [Bool.false_eq_true, and_false, if_false, h1]
    exact congrArg _ (by omega)

/-- Closed form of `sortable_long_to_float(·, signed=True)` on `[0, 2^64)`. -/
theorem sortableToFloat_signed (s : Nat) (hs : s < 2 ^ 64) :
    sortableToFloat (s : Int) true = .ok (if 2 ^ 63 ≤ s then s - 2 ^ 63 else 2 ^ 64 - 1 - s) := by
  unfold sortableToFloat bitsOfQ
  simp only [if_true, one_shiftLeft_cast]
  by_cases h : 2 ^ 63 ≤ s
  · have h0 : ¬ ((s : Int) - 2 ^ 63 < 0) := by omega
    simp only [h0, if_false, h, if_true]
    have : -(2 : Int) ^ 63 ≤ (s : Int) - 2 ^ 63 ∧ (s : Int) - 2 ^ 63 < 2 ^ 63 := by omega
    rw [if_pos this]
    exact congrArg _ (by omega)
  · have h0 : ((s : Int) - 2 ^ 63 < 0) := by omega
    simp only [h0, if_true, h, if_false]
    rw [pyXor_neg _ h0 (by omega)]
    have : -(2 : Int) ^ 63 ≤ -((s : Int) - 2 ^ 63) - 1 - 2 ^ 63 ∧
        -((s : Int) - 2 ^ 63) - 1 - 2 ^ 63 < 2 ^ 63 := by omega
    rw [if_pos this]
    exact congrArg _ (by omega)

theorem floatToSortable_unsigned (b : Nat) (hb : b < 2 ^ 64) :
    floatToSortable b false = if b < 2 ^ 63 then .ok (b : Int) else .error .valueError := by
  unfold floatToSortable qOfBits
  by_cases h : b < 2 ^ 63
  · have h0 : ¬ ((b : Int) < 0) := by omega
    simp only [h, if_true, h0, false_and, if_false, Bool.false_eq_true]
  · have h0 : ((b : Int) - 2 ^ 64 < 0) := by omega
    simp only [h, if_false, h0, Bool.not_false, and_self, if_true]

theorem sortableToFloat_unsigned (s : Nat) :
    sortableToFloat (s : Int) false = if s < 2 ^ 63 then .ok s else .error .structError := by
  unfold sortableToFloat bitsOfQ
  have h0 : ¬ ((s : Int) < 0) := by omega
  simp only [Bool.false_eq_true, if_false, h0]
  by_cases h : s < 2 ^ 63
  · have : -(2 : Int) ^ 63 ≤ (s : Int) ∧ (s : Int) < 2 ^ 63 := by omega
    rw [if_pos this, if_pos h]
    exact congrArg _ (by omega)
  · have : ¬ (-(2 : Int) ^ 63 ≤ (s : Int) ∧ (s : Int) < 2 ^ 63) := by omega
    rw [if_neg this, if_neg h]

end WM.Numeric
