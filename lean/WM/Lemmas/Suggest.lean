import WM.Model.Lev
/-! `Corrector.suggest`: what the heap loop and the final sort guarantee whatever the scores are. -/
namespace WM.Lev

theorem mem_heapInsert (x a : Rat × List Nat) (h : List (Rat × List Nat)) :
    a ∈ heapInsert x h ↔ a = x ∨ a ∈ h := by
  induction h with
  | nil => simp [heapInsert]
  | cons b t ih =>
    unfold heapInsert
    split
    · simp
    · simp only [List.mem_cons, ih]
      constructor
      · rintro (h | h | h)
        · exact Or.inr (Or.inl h)
        · exact Or.inl h
        · exact Or.inr (Or.inr h)
      · rintro (h | h | h)
        · exact Or.inr (Or.inl h)
        · exact Or.inl h
        · exact Or.inr (Or.inr h)

theorem length_heapInsert (x : Rat × List Nat) (h : List (Rat × List Nat)) :
    (heapInsert x h).length = h.length + 1 := by
  induction h with
  | nil => simp [heapInsert]
  | cons b t ih =>
    unfold heapInsert
    split
    · simp
    · simp [ih]

theorem suggestLoop_mem (limit : Nat) :
    ∀ (items heap r : List (Rat × List Nat)), suggestLoop limit items heap = .ok r →
      ∀ a, a ∈ r → a ∈ heap ∨ a ∈ items := by
  intro items
  induction items with
  | nil =>
    intro heap r h a ha
    simp only [suggestLoop, Except.ok.injEq] at h
    subst h; exact Or.inl ha
  | cons item items ih =>
    intro heap r h a ha
    unfold suggestLoop at h
    split at h
    · rcases ih _ _ h a ha with h1 | h1
      · rcases (mem_heapInsert _ _ _).mp h1 with rfl | h2
        · exact Or.inr (by simp)
        · exact Or.inl h2
      · exact Or.inr (List.mem_cons_of_mem _ h1)
    · split at h
      · cases h
      · next hd tl =>
        split at h
        · rcases ih _ _ h a ha with h1 | h1
          · rcases (mem_heapInsert _ _ _).mp h1 with rfl | h2
            · exact Or.inr (by simp)
            · exact Or.inl (List.mem_cons_of_mem _ h2)
          · exact Or.inr (List.mem_cons_of_mem _ h1)
        · rcases ih _ _ h a ha with h1 | h1
          · exact Or.inl h1
          · exact Or.inr (List.mem_cons_of_mem _ h1)

theorem suggestLoop_length (limit : Nat) (hl : 0 < limit) :
    ∀ (items heap : List (Rat × List Nat)), heap.length ≤ limit →
      ∃ r, suggestLoop limit items heap = .ok r ∧ r.length = min limit (heap.length + items.length) := by
  intro items
  induction items with
  | nil =>
    intro heap hh
    exact ⟨heap, rfl, by simp; omega⟩
  | cons item items ih =>
    intro heap hh
    unfold suggestLoop
    split
    · next hlt =>
      obtain ⟨r, hr, hlen⟩ := ih (heapInsert item heap) (by rw [length_heapInsert]; omega)
      refine ⟨r, hr, ?_⟩
      rw [hlen, length_heapInsert]; simp only [List.length_cons]; omega
    · next hge =>
      have hfull : heap.length = limit := by omega
      cases heap with
      | nil => simp at hfull; omega
      | cons hd tl =>
        simp only
        split
        · obtain ⟨r, hr, hlen⟩ := ih (heapInsert item tl) (by
            rw [length_heapInsert]; simp only [List.length_cons] at hfull; omega)
          refine ⟨r, hr, ?_⟩
          rw [hlen, length_heapInsert]
          simp only [List.length_cons] at hfull ⊢
          omega
        · obtain ⟨r, hr, hlen⟩ := ih (hd :: tl) hh
          refine ⟨r, hr, ?_⟩
          rw [hlen]
          simp only [List.length_cons] at hfull ⊢
          omega

theorem mem_insertBy (le : Rat × List Nat → Rat × List Nat → Bool) (x a : Rat × List Nat)
    (l : List (Rat × List Nat)) : a ∈ insertBy le x l ↔ a = x ∨ a ∈ l := by
  induction l with
  | nil => simp [insertBy]
  | cons y ys ih =>
    unfold insertBy
    split
    · simp
    · simp only [List.mem_cons, ih]
      constructor
      · rintro (h | h | h)
        · exact Or.inr (Or.inl h)
        · exact Or.inl h
        · exact Or.inr (Or.inr h)
      · rintro (h | h | h)
        · exact Or.inr (Or.inl h)
        · exact Or.inl h
        · exact Or.inr (Or.inr h)

theorem length_insertBy (le : Rat × List Nat → Rat × List Nat → Bool) (x : Rat × List Nat)
    (l : List (Rat × List Nat)) : (insertBy le x l).length = l.length + 1 := by
  induction l with
  | nil => simp [insertBy]
  | cons y ys ih =>
    unfold insertBy
    split
    · simp
    · simp [ih]

theorem mem_sortBy (le : Rat × List Nat → Rat × List Nat → Bool) (a : Rat × List Nat)
    (l : List (Rat × List Nat)) : a ∈ sortBy le l ↔ a ∈ l := by
  induction l with
  | nil => simp [sortBy]
  | cons y ys ih =>
    have : sortBy le (y :: ys) = insertBy le y (sortBy le ys) := rfl
    rw [this, mem_insertBy, ih, List.mem_cons]

theorem length_sortBy (le : Rat × List Nat → Rat × List Nat → Bool) (l : List (Rat × List Nat)) :
    (sortBy le l).length = l.length := by
  induction l with
  | nil => simp [sortBy]
  | cons y ys ih =>
    have : sortBy le (y :: ys) = insertBy le y (sortBy le ys) := rfl
    rw [this, length_insertBy, ih, List.length_cons]

theorem mem_suggestions (terms : List (List Nat)) (freq : List Nat → Nat) (maxdist : Nat)
    (a : Rat × List Nat) (h : a ∈ suggestions terms freq maxdist) : a.2 ∈ terms := by
  simp only [suggestions, List.mem_map] at h
  obtain ⟨t, ht, rfl⟩ := h
  exact ht

/-- Every suggestion comes from an item. -/
theorem suggestItems_mem (items : List (Rat × List Nat)) (limit : Nat) (r : List (List Nat))
    (h : suggestItems items limit = .ok r) : ∀ t, t ∈ r → ∃ a, a ∈ items ∧ a.2 = t := by
  unfold suggestItems at h
  cases hl : suggestLoop limit items [] with
  | error e => rw [hl] at h; cases h
  | ok heap =>
    rw [hl] at h
    simp only [Except.map, Except.ok.injEq] at h
    subst h
    intro t ht
    simp only [List.mem_map] at ht
    obtain ⟨a, ha, rfl⟩ := ht
    have ha' : a ∈ heap := (mem_sortBy _ a heap).mp ha
    rcases suggestLoop_mem limit _ _ _ hl a ha' with h1 | h1
    · cases h1
    · exact ⟨a, h1, rfl⟩

/-- With `limit ≥ 1` the call succeeds and returns `min limit |items|` suggestions. -/
theorem suggestItems_length (items : List (Rat × List Nat)) (limit : Nat) (hl : 0 < limit) :
    ∃ r, suggestItems items limit = .ok r ∧ r.length = min limit items.length := by
  obtain ⟨heap, hh, hlen⟩ := suggestLoop_length limit hl items [] (by simp)
  refine ⟨(sortBy keyLe heap).map (·.2), ?_, ?_⟩
  · unfold suggestItems; rw [hh]; rfl
  · rw [List.length_map, length_sortBy, hlen]; simp

/-- Every suggestion is one of the terms `terms_within` produced. -/
theorem suggest_mem (terms : List (List Nat)) (freq : List Nat → Nat) (limit maxdist : Nat)
    (r : List (List Nat)) (h : suggest terms freq limit maxdist = .ok r) : ∀ t, t ∈ r → t ∈ terms := by
  intro t ht
  obtain ⟨a, ha, rfl⟩ := suggestItems_mem _ limit r h t ht
  exact mem_suggestions terms freq maxdist a ha

/-- With `limit ≥ 1` the call succeeds and returns `min limit |terms|` suggestions. -/
theorem suggest_length (terms : List (List Nat)) (freq : List Nat → Nat) (limit maxdist : Nat)
    (hl : 0 < limit) :
    ∃ r, suggest terms freq limit maxdist = .ok r ∧ r.length = min limit terms.length := by
  obtain ⟨r, h1, h2⟩ := suggestItems_length (suggestions terms freq maxdist) limit hl
  exact ⟨r, h1, by rw [h2]; simp [suggestions]⟩

end WM.Lev
