import WM.Lemmas.IndexCount
/-! Collection statistics as sums over the live documents (when nothing is deleted). -/
namespace WM.Index
open WM.Dict

def ftMatch (f tm : Nat) (p : Posting) : Bool := p.fld == f && p.term == tm

/-- total weight document `d` (as visible under `sc`) contributes to term `tm` of field `f` -/
def termWeightDoc (sc : Schema) (f tm : Nat) (d : DocRec) : Nat :=
  (((docPostings (restrict sc d) 0).filter (ftMatch f tm)).map (·.w)).sum

theorem sum_flatMap_map {α} (l : List α) (g : α → List Posting) (h : Posting → Nat) :
    ((l.flatMap g).map h).sum = (l.map (fun a => ((g a).map h).sum)).sum := by
  induction l with
  | nil => rfl
  | cons a r ih => simp [List.flatMap_cons, List.sum_append, ih]

theorem filter_ft_restrict (sc : Schema) (f tm : Nat) (hf : sc.has f = true) (d : DocRec) (i : Nat) :
    (docPostings (restrict sc d) i).filter (ftMatch f tm) = (docPostings d i).filter (ftMatch f tm) := by
  rw [docPostings_restrict, List.filter_filter]
  apply List.filter_congr
  intro p _
  by_cases h : p.fld = f
  · subst h; simp [hf]
  · have : (p.fld == f) = false := by simpa using h
    simp [ftMatch, this]

theorem filter_ft_renumber (f tm : Nat) (d : DocRec) (i j : Nat) (h : Posting → Nat)
    (hh : ∀ p : Posting, h { p with doc := j } = h p) :
    (((docPostings d i).filter (ftMatch f tm)).map h).sum = (((docPostings d j).filter (ftMatch f tm)).map h).sum := by
  rw [← docPostings_renumber d i j, List.filter_map, List.map_map]
  congr 1
  apply List.map_congr_left
  intro p _
  simp [Function.comp_def, hh]

theorem map_zipIdx_fst {α β} (l : List α) (k : Nat) (F : α → β) : (l.zipIdx k).map (fun q => F q.1) = l.map F := by
  have : (l.zipIdx k).map (fun q => F q.1) = ((l.zipIdx k).map (·.1)).map F := by rw [List.map_map]; rfl
  rw [this, zipIdx_map_fst']

/-- what a visible document contributes to an additive per-term statistic `h` -/
def docStat (f tm : Nat) (h : Posting → Nat) (d : DocRec) : Nat :=
  (((docPostings d 0).filter (ftMatch f tm)).map h).sum

/-- a per-term additive statistic of a segment, as a sum over all its documents -/
theorem seg_stat_sum (sc : Schema) (s : Seg) (f tm : Nat) (hf : sc.has f = true) (hwf : s.WF) (h : Posting → Nat)
    (hh : ∀ (p : Posting) (j : Nat), h { p with doc := j } = h p) :
    ((s.termPosts f tm).map h).sum = (s.docs.map (fun d => docStat f tm h (restrict sc d))).sum := by
  have hp : (s.termPosts f tm).Perm ((allPostings s.docs).filter (ftMatch f tm)) := hwf.posts.filter _
  rw [(hp.map h).sum_nat, allPostings, List.filter_flatMap, sum_flatMap_map]
  rw [← map_zipIdx_fst s.docs 0 (fun d => docStat f tm h (restrict sc d))]
  congr 1
  apply List.map_congr_left
  intro q _
  simp only [docStat]
  rw [filter_ft_restrict sc f tm hf]
  exact filter_ft_renumber f tm q.1 q.2 0 h (fun p => hh p 0)

def NoDeletions (t : Toc) : Prop := ∀ s ∈ t.segs, s.deleted = []

theorem segs_stat_sum (sc : Schema) (segs : List Seg) (f tm : Nat) (hf : sc.has f = true)
    (hwf : ∀ s ∈ segs, s.WF) (hnd : ∀ s ∈ segs, s.deleted = []) (h : Posting → Nat)
    (hh : ∀ (p : Posting) (j : Nat), h { p with doc := j } = h p) :
    (segs.map (fun s => ((s.termPosts f tm).map h).sum)).sum = ((contentOf sc segs).map (docStat f tm h)).sum := by
  induction segs with
  | nil => rfl
  | cons s r ih =>
    simp only [contentOf, List.map_cons, List.sum_cons, List.flatMap_cons, List.map_append, List.sum_append]
    have ih' := ih (fun x hx => hwf x (by simp [hx])) (fun x hx => hnd x (by simp [hx]))
    simp only [contentOf] at ih'
    rw [ih', seg_stat_sum sc s f tm hf (hwf s (by simp)) h hh, Seg.liveDocs_of_no_deletions s (hnd s (by simp)),
      List.map_map]
    rfl

/-- Without deletions, `doc_frequency` is a function of the multiset of live documents. -/
theorem docFrequency_eq_sum (t : Toc) (hwf : t.WF) (hnd : NoDeletions t) (f tm : Nat) (hf : t.schema.has f = true) :
    t.docFrequency f tm = (t.content.map (docStat f tm (fun _ => 1))).sum := by
  simp only [Toc.docFrequency, hf, if_true, Toc.content]
  rw [← segs_stat_sum t.schema t.segs f tm hf hwf hnd (fun _ => 1) (fun _ _ => rfl)]
  congr 1
  apply List.map_congr_left
  intro s _
  induction s.termPosts f tm with
  | nil => rfl
  | cons a r ih => simp only [List.length_cons, List.map_cons, List.sum_cons, ih]; omega

/-- Without deletions, `frequency` (total weight) is a function of the multiset of live documents. -/
theorem termWeight_eq_sum (t : Toc) (hwf : t.WF) (hnd : NoDeletions t) (f tm : Nat) (hf : t.schema.has f = true) :
    t.termWeight f tm = (t.content.map (docStat f tm (·.w))).sum := by
  simp only [Toc.termWeight, hf, if_true, Toc.content]
  exact segs_stat_sum t.schema t.segs f tm hf hwf hnd (·.w) (fun _ _ => rfl)

theorem restrict_fieldLen (sc : Schema) (f : Nat) (hf : sc.has f = true) (d : DocRec) :
    (restrict sc d).fieldLen f = d.fieldLen f := by
  simp only [DocRec.fieldLen, restrict, List.filter_filter]
  congr 2
  apply List.filter_congr
  intro fd _
  by_cases h : fd.fld = f
  · subst h; simp [hf]
  · have : (fd.fld == f) = false := by simpa using h
    simp [this]

/-- Without deletions, `field_length` is a function of the multiset of live documents. -/
theorem fieldLength_eq_sum (t : Toc) (hnd : NoDeletions t) (f : Nat) (hf : t.schema.has f = true) :
    t.fieldLength f = (t.content.map (fun d => d.fieldLen f)).sum := by
  simp only [Toc.fieldLength, Toc.content, contentOf]
  unfold NoDeletions at hnd
  generalize t.segs = segs at hnd
  induction segs with
  | nil => rfl
  | cons s r ih =>
    simp only [List.map_cons, List.sum_cons, List.flatMap_cons, List.map_append, List.sum_append]
    rw [ih (fun x hx => hnd x (by simp [hx])), Seg.liveDocs_of_no_deletions s (hnd s (by simp)), List.map_map]
    congr 2
    apply List.map_congr_left
    intro d _
    exact (restrict_fieldLen t.schema f hf d).symm

end WM.Index
