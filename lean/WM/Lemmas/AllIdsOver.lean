import WM.Lemmas.AllIds
/-! The `all_ids()` overrides (`ListMatcher`, `IntersectionMatcher`, `WrappingMatcher`, `FilterMatcher`,
`MultiMatcher`, `ArrayUnionMatcher`) against stepping: the list an override yields ascends strictly, contains every id that is still
to come and only ids of the complete list; on a matcher at its start it is exactly what stepping yields. -/
namespace WM.Matcher

/-- `x` is an id of the list -/
def HasId (L : Den) (x : Nat) : Prop := ∃ r, (x, r) ∈ L

/-- what an `all_ids()` result must satisfy relative to the remaining list `D` and the complete list `F` -/
structure IdsOK (L : List Nat) (D F : Den) : Prop where
  asc : L.Pairwise (· < ·)
  lower : ∀ p ∈ D, p.1 ∈ L
  upper : ∀ x ∈ L, HasId F x

/-- where `all_ids()` is the base-class generator (it yields the remaining ids) the remaining list must be
    part of the complete list for the result to consist of ids of the complete list.  This holds in every state
    reached by cursor operations from a matcher at its start (`idSub_next`, `idSub_skipTo`, `idSub_reset`). -/
def AllIdsPre : (s : Shape) → St s → Prop
  | .null, _ => True
  | .list, _ => True
  | .inter a b, m => AllIdsPre a m.a ∧ AllIdsPre b m.b
  | .require a b, m => AllIdsPre a m.a ∧ AllIdsPre b m.b
  | .boost c, m => AllIdsPre c m.child
  | .const c, m => AllIdsPre c m.child
  | .filter c, m => AllIdsPre c m.child
  | .multi c, m => ∀ s ∈ m.segs, AllIdsPre c s.1
  | .aunion c, m => IdSub (den (.aunion c) m) (full (.aunion c) m)
  | .leaf, m => IdSub (den .leaf m) (full .leaf m)
  | .union a b, m => IdSub (den (.union a b) m) (full (.union a b) m)
  | .dismax a b, m => IdSub (den (.dismax a b) m) (full (.dismax a b) m)
  | .andNot a b, m => IdSub (den (.andNot a b) m) (full (.andNot a b) m)
  | .andMaybe a b, m => IdSub (den (.andMaybe a b) m) (full (.andMaybe a b) m)
  | .inverse c, m => IdSub (den (.inverse c) m) (full (.inverse c) m)

/-! ### the cursor operations keep the remaining list inside the complete list (any shape) -/

theorem idSub_next (s : Shape) (m m' : St s) (h : WF s m) (hs : IdSub (den s m) (full s m)) (hne : den s m ≠ [])
    (hn : (ops s).next m = .ok m') : IdSub (den s m') (full s m') := by
  obtain ⟨x, r, L, hd⟩ := exists_cons_of_ne_nil hne
  obtain ⟨m1, h1, -, h3, -, h5⟩ := (TF s).next m x r L h hd
  rw [hn] at h1; cases h1
  rw [h3, h5]
  exact (IdSub.of_sublist (by rw [hd]; exact List.sublist_cons_self _ _)).trans hs

theorem idSub_skipTo (s : Shape) (m m' : St s) (t : Nat) (h : WF s m) (hs : IdSub (den s m) (full s m))
    (hne : den s m ≠ []) (hn : (ops s).skipTo m t = .ok m') : IdSub (den s m') (full s m') := by
  obtain ⟨m1, h1, -, h3, -, -, h6⟩ := (TF s).skipTo m t h hne
  rw [hn] at h1; cases h1
  rw [h3, h6]
  exact (IdSub.of_sublist (List.dropWhile_sublist _)).trans hs

theorem idSub_reset (s : Shape) (m m' : St s) (h : WF s m) (hn : (ops s).reset m = .ok m') :
    IdSub (den s m') (full s m') := by
  obtain ⟨m1, h1, -, h3, h4⟩ := (TF s).reset m h
  rw [hn] at h1; cases h1
  rw [h3, h4]; exact IdSub.refl _

/-- the complete list ascends (it is the remaining list after `reset()`) -/
theorem asc_full (s : Shape) (m : St s) (h : WF s m) : Asc (full s m) := by
  obtain ⟨m', -, hw, e1, -⟩ := (TF s).reset m h
  rw [← e1]; exact (TF s).asc m' hw

/-! ### the result lists -/

theorem pairwise_map_fst {L : Den} (h : Asc L) : (L.map (·.1)).Pairwise (· < ·) := by
  rw [List.pairwise_map]; exact h

/-- the base-class generator: exactly the remaining ids -/
theorem idsOK_base {D F : Den} (hD : Asc D) (hs : IdSub D F) : IdsOK (D.map (·.1)) D F where
  asc := pairwise_map_fst hD
  lower p hp := List.mem_map.2 ⟨p, hp, rfl⟩
  upper x hx := by
    obtain ⟨p, hp, rfl⟩ := List.mem_map.1 hx
    exact hs p hp

theorem hasId_map_key {g : Nat × Rat → Rat} {L : Den} {x : Nat} :
    HasId (L.map fun p => (p.1, g p)) x ↔ HasId L x := by
  constructor
  · rintro ⟨r, hr⟩
    obtain ⟨p, hp, he⟩ := List.mem_map.1 hr
    injection he with h1 _
    exact ⟨p.2, by rw [← h1]; exact hp⟩
  · rintro ⟨r, hr⟩
    exact ⟨g (x, r), List.mem_map.2 ⟨(x, r), hr, rfl⟩⟩

/-- a wrapper that keeps the ids (boost, constant score) -/
theorem idsOK_map_key {L : List Nat} {D F : Den} (g g' : Nat × Rat → Rat) (h : IdsOK L D F) :
    IdsOK L (D.map fun p => (p.1, g p)) (F.map fun p => (p.1, g' p)) where
  asc := h.asc
  lower p hp := by
    obtain ⟨p', hp', rfl⟩ := List.mem_map.1 hp
    exact h.lower p' hp'
  upper x hx := hasId_map_key.2 (h.upper x hx)

theorem hasId_interWith {f : Rat → Rat → Rat} {A B : Den} (hB : Asc B) {x : Nat} :
    HasId (interWith f A B) x ↔ HasId A x ∧ HasId B x := by
  unfold interWith
  constructor
  · rintro ⟨r, hr⟩
    obtain ⟨p, hp, he⟩ := List.mem_filterMap.1 hr
    cases hl : lookup B p.1 with
    | none => simp [hl] at he
    | some t =>
      simp only [hl, Option.map_some, Option.some.injEq] at he
      injection he with h1 _
      subst h1
      exact ⟨⟨p.2, hp⟩, ⟨t, lookup_some_mem hl⟩⟩
  · rintro ⟨⟨r, hr⟩, ⟨t, ht⟩⟩
    refine ⟨f r t, List.mem_filterMap.2 ⟨(x, r), hr, ?_⟩⟩
    simp [mem_lookup hB ht]

/-- `IntersectionMatcher.all_ids` -/
theorem idsOK_inter {f : Rat → Rat → Rat} {La Lb : List Nat} {Da Fa Db Fb : Den} (hFb : Asc Fb) (hDb : Asc Db)
    (ha : IdsOK La Da Fa) (hb : IdsOK Lb Db Fb) :
    IdsOK (La.filter fun i => Lb.contains i) (interWith f Da Db) (interWith f Fa Fb) where
  asc := ha.asc.sublist List.filter_sublist
  lower p hp := by
    have : HasId (interWith f Da Db) p.1 := ⟨p.2, hp⟩
    obtain ⟨⟨r, hr⟩, ⟨t, ht⟩⟩ := (hasId_interWith hDb).1 this
    rw [List.mem_filter]
    exact ⟨ha.lower (p.1, r) hr, by simpa using hb.lower (p.1, t) ht⟩
  upper x hx := by
    rw [List.mem_filter] at hx
    exact (hasId_interWith hFb).2 ⟨ha.upper x hx.1, hb.upper x (by simpa using hx.2)⟩

/-- `FilterMatcher.all_ids` -/
theorem idsOK_filter {L : List Nat} {D F : Den} (S : List Nat) (excl : Bool) (w : Rat) (h : IdsOK L D F) :
    IdsOK (L.filter fun i => !Filter.rejects S excl i) (scale w (keepIds S excl D)) (scale w (keepIds S excl F)) where
  asc := h.asc.sublist List.filter_sublist
  lower p hp := by
    obtain ⟨p', hp', rfl⟩ := List.mem_map.1 hp
    obtain ⟨h1, h2⟩ := List.mem_filter.1 hp'
    rw [List.mem_filter]
    refine ⟨h.lower p' h1, ?_⟩
    simp only [Filter.rejects]
    cases hc : S.contains p'.1 <;> cases excl <;> simp_all
  upper x hx := by
    obtain ⟨h1, h2⟩ := List.mem_filter.1 hx
    obtain ⟨r, hr⟩ := h.upper x h1
    refine hasId_map_key.2 ⟨r, List.mem_filter.2 ⟨hr, ?_⟩⟩
    simp only [Filter.rejects] at h2
    cases hc : S.contains x <;> cases excl <;> simp_all

/-! ### MultiMatcher -/

theorem multiAllIds_spec {α : Type} {f : α → R (List Nat)} {d fl : α → Den} :
    ∀ l : List (α × Nat), (∀ s ∈ l, ∃ L, f s.1 = .ok L ∧ IdsOK L (d s.1) (fl s.1)) → Asc (Multi.denOf fl l) →
    ∃ L, multiAllIds f l = .ok L ∧ IdsOK L (Multi.denOf d l) (Multi.denOf fl l)
  | [], _, _ => ⟨[], rfl, ⟨List.Pairwise.nil, (by intro p hp; cases hp), (by intro x hx; cases hx)⟩⟩
  | s :: ss, h, hasc => by
    obtain ⟨L, h1, h2⟩ := h s List.mem_cons_self
    obtain ⟨-, f2, f3⟩ := asc_append.1 hasc
    obtain ⟨R', k1, k2⟩ := multiAllIds_spec ss (fun s' hs' => h s' (List.mem_cons_of_mem _ hs')) f2
    refine ⟨L.map (· + s.2) ++ R', by simp [multiAllIds, h1, k1, bind, Except.bind]; rfl, ?_, ?_, ?_⟩
    · rw [List.pairwise_append]
      refine ⟨?_, k2.asc, ?_⟩
      · rw [List.pairwise_map]
        exact h2.asc.imp (by intro a b hab; exact Nat.add_lt_add_right hab _)
      · intro a ha b hb
        obtain ⟨a0, ha0, rfl⟩ := List.mem_map.1 ha
        obtain ⟨ra, hra⟩ := h2.upper a0 ha0
        obtain ⟨rb, hrb⟩ := k2.upper b hb
        exact f3 (a0 + s.2, ra) (List.mem_map.2 ⟨(a0, ra), hra, rfl⟩) (b, rb) hrb
    · intro p hp
      rcases List.mem_append.1 hp with hp | hp
      · obtain ⟨p', hp', rfl⟩ := List.mem_map.1 hp
        exact List.mem_append_left _ (List.mem_map.2 ⟨p'.1, h2.lower p' hp', rfl⟩)
      · exact List.mem_append_right _ (k2.lower p hp)
    · intro x hx
      rcases List.mem_append.1 hx with hx | hx
      · obtain ⟨x0, hx0, rfl⟩ := List.mem_map.1 hx
        obtain ⟨r, hr⟩ := h2.upper x0 hx0
        exact ⟨r, List.mem_append_left _ (List.mem_map.2 ⟨(x0, r), hr, rfl⟩)⟩
      · obtain ⟨r, hr⟩ := k2.upper x hx
        exact ⟨r, List.mem_append_right _ hr⟩

/-! ### every class -/

theorem allIdsO_base (s : Shape) (m : St s) (h : WF s m) (hs : IdSub (den s m) (full s m)) :
    ∃ L, allIds ⟨s, m⟩ = .ok L ∧ IdsOK L (den s m) (full s m) :=
  ⟨_, allIds_spec ⟨s, m⟩ h, idsOK_base ((TF s).asc m h) hs⟩

theorem allIdsO_spec : ∀ (s : Shape) (m : St s), WF s m → AllIdsPre s m →
    ∃ L, allIdsO s m = .ok L ∧ IdsOK L (den s m) (full s m)
  | .null, _, _, _ => ⟨[], rfl, ⟨List.Pairwise.nil, (by intro p hp; cases hp), (by intro x hx; cases hx)⟩⟩
  | .list, m, h, _ => by
    refine ⟨m.ids, rfl, ⟨h.1, ?_, ?_⟩⟩
    · intro p hp
      have : p ∈ m.ids.zip m.weights := List.mem_of_mem_drop hp
      exact (List.of_mem_zip (a := p.1) (b := p.2) this).1
    · intro x hx
      obtain ⟨i, hi, rfl⟩ := List.getElem_of_mem hx
      have hw : i < m.weights.length := by rw [h.2]; exact hi
      exact ⟨m.weights[i], by
        show (m.ids[i], m.weights[i]) ∈ m.ids.zip m.weights
        have : (m.ids.zip m.weights)[i]'(by simp [List.length_zip]; omega) = (m.ids[i], m.weights[i]) := by simp
        rw [← this]; exact List.getElem_mem _⟩
  | .inter a b, m, h, hp => by
    obtain ⟨La, a1, a2⟩ := allIdsO_spec a m.a h.1 hp.1
    obtain ⟨Lb, b1, b2⟩ := allIdsO_spec b m.b h.2.1 hp.2
    refine ⟨La.filter fun i => Lb.contains i, by simp only [allIdsO, a1, b1, bind, Except.bind]; rfl, ?_⟩
    exact idsOK_inter (f := (· + ·)) (asc_full b m.b h.2.1) ((TF b).asc _ h.2.1) a2 b2
  | .require a b, m, h, hp => by
    obtain ⟨La, a1, a2⟩ := allIdsO_spec a m.a h.1 hp.1
    obtain ⟨Lb, b1, b2⟩ := allIdsO_spec b m.b h.2.1 hp.2
    refine ⟨La.filter fun i => Lb.contains i, by simp only [allIdsO, a1, b1, bind, Except.bind]; rfl, ?_⟩
    exact idsOK_inter (f := fun s _ => s) (asc_full b m.b h.2.1) ((TF b).asc _ h.2.1) a2 b2
  | .boost c, m, h, hp => by
    obtain ⟨L, c1, c2⟩ := allIdsO_spec c m.child h hp
    exact ⟨L, c1, idsOK_map_key (fun p => p.2 * m.boost) (fun p => p.2 * m.boost) c2⟩
  | .const c, m, h, hp => by
    obtain ⟨L, c1, c2⟩ := allIdsO_spec c m.child h hp
    exact ⟨L, c1, idsOK_map_key (fun _ => m.score) (fun _ => m.score) c2⟩
  | .filter c, m, h, hp => by
    obtain ⟨L, c1, c2⟩ := allIdsO_spec c m.child h.1 hp
    exact ⟨L.filter fun i => !Filter.rejects m.ids m.exclude i, by simp only [allIdsO, c1, bind, Except.bind]; rfl,
      idsOK_filter m.ids m.exclude m.boost c2⟩
  | .multi c, m, h, hp => by
    have h' : Multi.WF (ops c) (den c) (full c) (WF c) m := h
    obtain ⟨L, k1, k2⟩ := multiAllIds_spec (f := allIdsO c) (d := den c) (fl := full c) m.segs
      (fun s hs => allIdsO_spec c s.1 (h'.child s hs) (hp s hs)) h'.asc
    refine ⟨L, k1, ⟨k2.asc, ?_, k2.upper⟩⟩
    intro p hp'
    exact k2.lower p ((Multi.denOf_drop_sublist (den c) m.segs m.cur).subset hp')
  | .aunion c, m, h, hp =>
    -- `ArrayUnionMatcher.all_ids` walks the buffered parts: exactly the remaining ids, like the base generator
    ⟨_, AUnion.allIds_spec (tree_faithful c) m h, idsOK_base ((TF (.aunion c)).asc m h) hp⟩
  | .leaf, m, h, hp => allIdsO_base .leaf m h hp
  | .union a b, m, h, hp => allIdsO_base (.union a b) m h hp
  | .dismax a b, m, h, hp => allIdsO_base (.dismax a b) m h hp
  | .andNot a b, m, h, hp => allIdsO_base (.andNot a b) m h hp
  | .andMaybe a b, m, h, hp => allIdsO_base (.andMaybe a b) m h hp
  | .inverse c, m, h, hp => allIdsO_base (.inverse c) m h hp

/-- ascending lists with the same members are equal -/
theorem eq_of_pairwise_lt_of_mem_iff : ∀ {L M : List Nat}, L.Pairwise (· < ·) → M.Pairwise (· < ·) →
    (∀ x, x ∈ L ↔ x ∈ M) → L = M
  | [], [], _, _, _ => rfl
  | [], y :: M, _, _, h => by have := (h y).2 List.mem_cons_self; cases this
  | x :: L, [], _, _, h => by have := (h x).1 List.mem_cons_self; cases this
  | x :: L, y :: M, hL, hM, h => by
    have hx : ∀ z ∈ L, x < z := fun z hz => List.rel_of_pairwise_cons hL hz
    have hy : ∀ z ∈ M, y < z := fun z hz => List.rel_of_pairwise_cons hM hz
    have hxy : x = y := by
      rcases List.mem_cons.1 ((h x).1 List.mem_cons_self) with h1 | h1
      · exact h1
      · rcases List.mem_cons.1 ((h y).2 List.mem_cons_self) with h2 | h2
        · exact h2.symm
        · have := hx _ h2; have := hy _ h1; omega
    subst hxy
    congr 1
    apply eq_of_pairwise_lt_of_mem_iff (List.Pairwise.of_cons hL) (List.Pairwise.of_cons hM)
    intro z
    constructor
    · intro hz
      rcases List.mem_cons.1 ((h z).1 (List.mem_cons_of_mem _ hz)) with h1 | h1
      · have := hx _ hz; omega
      · exact h1
    · intro hz
      rcases List.mem_cons.1 ((h z).2 (List.mem_cons_of_mem _ hz)) with h1 | h1
      · have := hy _ hz; omega
      · exact h1

/-- at the start (remaining list = complete list) the class's `all_ids()` is what stepping yields -/
theorem allIdsO_fresh (s : Shape) (m : St s) (h : WF s m) (hp : AllIdsPre s m) (hf : den s m = full s m) :
    allIdsO s m = .ok ((den s m).map (·.1)) := by
  obtain ⟨L, h1, h2⟩ := allIdsO_spec s m h hp
  rw [h1]
  congr 1
  apply eq_of_pairwise_lt_of_mem_iff h2.asc (pairwise_map_fst ((TF s).asc m h))
  intro x
  constructor
  · intro hx
    obtain ⟨r, hr⟩ := h2.upper x hx
    rw [← hf] at hr
    exact List.mem_map.2 ⟨(x, r), hr, rfl⟩
  · intro hx
    obtain ⟨p, hp', rfl⟩ := List.mem_map.1 hx
    exact h2.lower p hp'

end WM.Matcher
