import WM.Lemmas.NormalizeComp
import WM.Spec.Clean
/-! The "merge ranges and Everys" loop and the de-duplication pass of `CompoundQuery.normalize`. -/
namespace WM.Normalize
open WM.Sat

/-- Meaning of `Every(o)`. -/
def everySat (d : Doc) : Option Field → Bool
  | some f => hasField d f
  | none => true

theorem sat_every (env : Env) (o : Option Field) (b : Rat) (d : Doc) :
    sat env (.every o b) d = everySat d o := by
  cases o <;> rfl

def efAny (d : Doc) (ef : List (Option Field)) : Bool := ef.any (everySat d)
def efAll (d : Doc) (ef : List (Option Field)) : Bool := ef.all (everySat d)

/-- `everyfields` after looking at clause `q`. -/
def efNext (q : Q) (ef : List (Option Field)) : List (Option Field) :=
  match q with
  | .every f _ => f :: ef
  | _ => ef

theorem efAny_next (env : Env) (d : Doc) (q : Q) (ef : List (Option Field)) :
    efAny d (efNext q ef) = ((q.isEvery && sat env q d) || efAny d ef) := by
  cases q <;> simp [efNext, Q.isEvery, efAny, sat_every]

theorem efAll_next (env : Env) (d : Doc) (q : Q) (ef : List (Option Field)) :
    efAll d (efNext q ef) = ((!q.isEvery || sat env q d) && efAll d ef) := by
  cases q <;> simp [efNext, Q.isEvery, efAll, sat_every]

theorem sat_of_field_mem (env : Env) (d : Doc) (q : Q) (ef : List (Option Field))
    (h : ef.contains q.field = true) (hs : sat env q d = true) : efAny d ef = true := by
  have hm : q.field ∈ ef := by simpa using h
  simp only [efAny, List.any_eq_true]
  refine ⟨q.field, hm, ?_⟩
  cases hf : q.field with
  | none => rfl
  | some f => exact field_sound env q f d hf hs

private theorem bool_or_step (A E Sq S1 S2 : Bool) (hE : E = true → Sq = true)
    (h : ((E || A) || S1) = ((E || A) || S2)) : (A || (Sq || S1)) = (A || (Sq || S2)) := by
  cases A <;> cases E <;> cases Sq <;> cases S1 <;> cases S2 <;> simp_all

private theorem bool_or_pop (A Sq S1 S2 : Bool) (hq : Sq = true → A = true)
    (h : (A || S1) = (A || S2)) : (A || S1) = (A || (Sq || S2)) := by
  cases A <;> cases Sq <;> cases S1 <;> cases S2 <;> simp_all

/-- Under `Or`/`DisjunctionMax` the loop keeps the union (documents without odd terms). -/
theorem mergeLoop_or (env : Env) (d : Doc) (hp : d.BelowMax) (ef : List (Option Field)) (l : List Q)
    (hl : LOk d l) :
    (efAny d ef || satAny env (mergeLoop false ef l).1 d) = (efAny d ef || satAny env l d) := by
  fun_induction mergeLoop false ef l with
  | case1 ef => rfl
  | case2 ef q rest h ih =>
    simp only [satAny]
    exact bool_or_pop _ _ _ _ (sat_of_field_mem env d q ef h) (ih hl.tail)
  | case3 ef q rest h r hr p q' ef' res ih =>
    have hq : q = r.toQ := asRange_some hr
    have hrok : ROk d r := hl q (List.mem_cons_self ..) r hr
    obtain ⟨h2, hpok⟩ := absorb_satAny env d r rest hrok hl.tail
    have h1 : sat env q' d = sat env p.1.toQ d := rngNormalize_sat env p.1 d hp hpok
    have ih := ih (hl.tail.sub (absorb_mem false r rest))
    simp only [satAny] at h2 ⊢
    have hef : efAny d ef' = ((q'.isEvery && sat env q' d) || efAny d ef) := efAny_next env d q' ef
    rw [hef] at ih
    have := bool_or_step (efAny d ef) (q'.isEvery && sat env q' d) (sat env q' d)
      (satAny env res.1 d) (satAny env p.2 d) (by simp) ih
    rw [this, h1, hq]
    exact congrArg _ h2
  | case4 ef q rest h hr ef' res ih =>
    have ih := ih hl.tail
    simp only [satAny]
    have hef : efAny d ef' = ((q.isEvery && sat env q d) || efAny d ef) := efAny_next env d q ef
    rw [hef] at ih
    exact bool_or_step (efAny d ef) (q.isEvery && sat env q d) (sat env q d)
      (satAny env res.1 d) (satAny env rest d) (by simp) ih

/-- Every field in the final `everyfields` was there initially or belongs to an `Every` clause of the
    output. -/
theorem mergeLoop_ef (i : Bool) (ef : List (Option Field)) (l : List Q) :
    ∀ o ∈ (mergeLoop i ef l).2, o ∈ ef ∨ ∃ b, Q.every o b ∈ (mergeLoop i ef l).1 := by
  fun_induction mergeLoop i ef l with
  | case1 ef => exact fun o ho => Or.inl ho
  | case2 ef q rest h ih => exact ih
  | case3 ef q rest h r hr p q' ef' res ih =>
    intro o ho
    rcases ih o ho with h1 | ⟨b, hb⟩
    · have : o ∈ efNext q' ef := h1
      cases hq' : q' <;> simp only [hq', efNext] at this <;> try exact Or.inl this
      rename_i f b
      rcases List.mem_cons.mp this with rfl | h2
      · exact Or.inr ⟨b, by simp [hq']⟩
      · exact Or.inl h2
    · exact Or.inr ⟨b, List.mem_cons_of_mem _ hb⟩
  | case4 ef q rest h hr ef' res ih =>
    intro o ho
    rcases ih o ho with h1 | ⟨b, hb⟩
    · have : o ∈ efNext q ef := h1
      cases q <;> simp only [efNext] at this <;> try exact Or.inl this
      rename_i f b
      rcases List.mem_cons.mp this with rfl | h2
      · exact Or.inr ⟨b, by simp⟩
      · exact Or.inl h2
    · exact Or.inr ⟨b, List.mem_cons_of_mem _ hb⟩


/-! ### Under `And`, on clean clause lists, the loop only removes repeated `Every(f)` clauses -/

open WM.Clean in
structure AndOk (ef : List (Option Field)) (l : List Q) : Prop where
  apart : rangesApart l = true
  nf : NFList l = true
  every : ∀ s ∈ l, ∀ f, s.field = some f → (some f ∈ ef ∨ ∃ b, Q.every (some f) b ∈ l) →
    s.isEvery = true
  noAll : ∀ s ∈ l, s.isEveryAll = false
  noNone : none ∉ ef

theorem AndOk.tail {ef : List (Option Field)} {q : Q} {rest : List Q} (h : AndOk ef (q :: rest)) :
    AndOk ef rest where
  apart := by have := h.apart; simp only [WM.Clean.rangesApart, Bool.and_eq_true] at this; exact this.2
  nf := by have := h.nf; simp only [NFList, Bool.and_eq_true] at this; exact this.2
  every := fun s hs f hf hw => h.every s (List.mem_cons_of_mem _ hs) f hf (by
    rcases hw with hw | ⟨b, hb⟩
    · exact Or.inl hw
    · exact Or.inr ⟨b, List.mem_cons_of_mem _ hb⟩)
  noAll := fun s hs => h.noAll s (List.mem_cons_of_mem _ hs)
  noNone := h.noNone

theorem AndOk.next {ef : List (Option Field)} {q : Q} {rest : List Q} (h : AndOk ef (q :: rest)) :
    AndOk (efNext q ef) rest := by
  have ht := h.tail
  refine ⟨ht.apart, ht.nf, ?_, ht.noAll, ?_⟩
  · intro s hs f hf hw
    apply h.every s (List.mem_cons_of_mem _ hs) f hf
    rcases hw with hw | ⟨b, hb⟩
    · cases q <;> simp only [efNext] at hw <;> try exact Or.inl hw
      rename_i g b
      rcases List.mem_cons.mp hw with e | hw
      · exact Or.inr ⟨b, by rw [e]; exact List.mem_cons_self ..⟩
      · exact Or.inl hw
    · exact Or.inr ⟨b, List.mem_cons_of_mem _ hb⟩
  · have hq := h.noAll q (List.mem_cons_self ..)
    cases q <;> simp only [efNext] <;> try exact h.noNone
    rename_i g b
    cases g with
    | none => simp [Q.isEveryAll] at hq
    | some g =>
      intro hm
      rcases List.mem_cons.mp hm with e | hm
      · cases e
      · exact h.noNone hm

theorem popOverlap_none_of_apart {r : Rng} {q : Q} {rest : List Q} (hr : q.asRange = some r)
    (h : WM.Clean.rangesApart (q :: rest) = true) : popOverlap r rest = none := by
  apply popOverlap_none_of
  intro s hs r' hr'
  simp only [WM.Clean.rangesApart, hr, Bool.and_eq_true, List.all_eq_true] at h
  have := h.1 s hs
  simp only [hr', Bool.not_eq_true'] at this
  exact this

private theorem bool_and_step (A E Sq S1 S2 : Bool)
    (h : (((!E || Sq) && A) && S1) = (((!E || Sq) && A) && S2)) :
    (A && (Sq && S1)) = (A && (Sq && S2)) := by
  cases A <;> cases E <;> cases Sq <;> cases S1 <;> cases S2 <;> simp_all

theorem mergeLoop_and (env : Env) (d : Doc) (ef : List (Option Field)) (l : List Q) (h : AndOk ef l) :
    (efAll d ef && satAll env (mergeLoop true ef l).1 d) = (efAll d ef && satAll env l d)
      ∧ (∀ x ∈ (mergeLoop true ef l).1, x ∈ l) := by
  fun_induction mergeLoop true ef l with
  | case1 ef => exact ⟨rfl, fun x hx => hx⟩
  | case2 ef q rest hc ih =>
    obtain ⟨ih1, ih2⟩ := ih h.tail
    refine ⟨?_, fun x hx => List.mem_cons_of_mem _ (ih2 x hx)⟩
    have hm : q.field ∈ ef := by simpa using hc
    cases hf : q.field with
    | none => rw [hf] at hm; exact absurd hm h.noNone
    | some f =>
      rw [hf] at hm
      have hev := h.every q (List.mem_cons_self ..) f hf (Or.inl hm)
      cases q <;> simp [Q.isEvery] at hev
      rename_i o b
      simp only [Q.field] at hf
      subst hf
      rw [ih1]
      simp only [satAll, sat_every, everySat]
      by_cases hA : efAll d ef = true
      · have : hasField d f = true := by
          simp only [efAll, List.all_eq_true] at hA
          exact hA (some f) hm
        simp [this]
      · simp [Bool.not_eq_true _ |>.mp hA]
  | case3 ef q rest hc r hr p q' ef' res ih =>
    have hq : q = r.toQ := asRange_some hr
    have hpo := popOverlap_none_of_apart hr h.apart
    have hp : p = (r, rest) := absorb_of_none hpo
    have hprop : r.proper = true := by
      have := h.nf
      simp only [NFList, Bool.and_eq_true] at this
      have := this.1
      rw [hq] at this
      simpa [Rng.toQ, NF] using this
    have hq' : q' = q := by
      show p.1.normalize = q
      rw [hp, hq]
      exact Rng.normalize_of_proper hprop
    have hef' : ef' = ef := by
      show efNext q' ef = ef
      rw [hq', hq]
      rfl
    have ih' : (efAll d ef' && satAll env res.1 d) = (efAll d ef' && satAll env p.2 d)
        ∧ (∀ x ∈ res.1, x ∈ p.2) := ih (by rw [hef', hp]; exact h.tail)
    rw [hef', hp] at ih'
    obtain ⟨ih1, ih2⟩ := ih'
    refine ⟨?_, ?_⟩
    · simp only [satAll, hq']
      cases hs : sat env q d
      · simp
      · simpa using ih1
    · intro x hx
      rcases List.mem_cons.mp hx with rfl | hx
      · rw [hq']; exact List.mem_cons_self ..
      · exact List.mem_cons_of_mem _ (ih2 x hx)
  | case4 ef q rest hc hr ef' res ih =>
    obtain ⟨ih1, ih2⟩ := ih h.next
    have hef : efAll d ef' = ((!q.isEvery || sat env q d) && efAll d ef) := efAll_next env d q ef
    rw [hef] at ih1
    refine ⟨?_, ?_⟩
    · simp only [satAll]
      exact bool_and_step _ _ _ _ _ ih1
    · intro x hx
      rcases List.mem_cons.mp hx with rfl | hx
      · exact List.mem_cons_self ..
      · exact List.mem_cons_of_mem _ (ih2 x hx)

theorem mergeLoop_isEmpty (i : Bool) (l : List Q) : (mergeLoop i [] l).1.isEmpty = l.isEmpty := by
  cases l with
  | nil => simp [mergeLoop]
  | cons q rest =>
    unfold mergeLoop
    simp only [List.contains_nil, Bool.false_eq_true, ↓reduceIte]
    cases q.asRange <;> rfl

end WM.Normalize
