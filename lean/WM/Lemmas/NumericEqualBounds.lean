import WM.Model.Numeric
import WM.Spec.Numeric
/-! C13 — closed float ranges whose bounds are equal as Python numbers. -/
namespace WM.Numeric
open WM.NumericSpec

/-- Python's `a == b` on doubles (patterns): `a <= b and b <= a`. -/
def pyEq (a b : Nat) : Bool := ieeeLe a b && ieeeLe b a

/-- Two doubles are `==` iff neither is a NaN and they are the same pattern or both zeros. -/
theorem pyEq_iff (a b : Nat) (ha : a < 2 ^ 64) (hb : b < 2 ^ 64) :
    pyEq a b = true ↔
      isNaN a = false ∧ isNaN b = false ∧ (a = b ∨ (isZero a = true ∧ isZero b = true)) := by
  simp only [pyEq, ieeeLe, totalLt, isNaN, isZero]
  by_cases h1 : a / 2 ^ 63 % 2 = 1 <;> by_cases h2 : b / 2 ^ 63 % 2 = 1 <;> simp [h1, h2] <;> omega

/-- The closed total-order interval between two `==` bounds: both bounds when the encoded start is
    not above the encoded end, nothing otherwise. -/
theorem equal_bounds_total (a b v : Nat) (ha : a < 2 ^ 64) (hb : b < 2 ^ 64) (hv : v < 2 ^ 64)
    (heq : pyEq a b = true) :
    inInterval totalLt (some a) (some b) false false v = true ↔
      (totalLt b a = false ∧ (v = a ∨ v = b)) := by
  simp only [pyEq, ieeeLe, totalLt, isNaN, isZero] at heq
  simp only [inInterval, totalLt, Bool.false_eq_true, if_false]
  by_cases h1 : a / 2 ^ 63 % 2 = 1 <;> by_cases h2 : b / 2 ^ 63 % 2 = 1 <;>
    by_cases h3 : v / 2 ^ 63 % 2 = 1 <;> simp [h1, h2, h3] at heq ⊢ <;> omega

end WM.Numeric
