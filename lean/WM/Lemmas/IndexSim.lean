import WM.Lemmas.IndexOps
/-! The simulation between a writer session of the model and a session of the dictionary
specification (`SRel`), one call at a time. -/
namespace WM.Index
open WM.Dict

/-! ### restrict -/

theorem restrict_restrict_of_subset (s s' : Schema) (h : ∀ f, s'.has f = true → s.has f = true) (d : DocRec) :
    restrict s' (restrict s d) = restrict s' d := by
  simp only [restrict, List.filter_filter]
  congr 1
  apply List.filter_congr
  intro fd _
  by_cases h' : s'.has fd.fld = true
  · simp [h', h _ h']
  · simp [h']

theorem restrict_idem (s : Schema) (d : DocRec) : restrict s (restrict s d) = restrict s d :=
  restrict_restrict_of_subset s s (fun _ h => h) d

theorem restrict_of_fits (s : Schema) (d : DocRec) (h : d.fits s = true) : restrict s d = d := by
  simp only [restrict, DocRec.fits, List.all_eq_true] at h ⊢
  have : d.fields.filter (fun fd => s.has fd.fld) = d.fields := by
    rw [List.filter_eq_self]; exact h
  rw [this]

theorem restrict_fits (s : Schema) (d : DocRec) : (restrict s d).fits s = true := by
  simp only [restrict, DocRec.fits, List.all_eq_true, List.mem_filter]
  intro fd h; exact h.2

theorem Schema.has_remove (s : Schema) (f g : Nat) : (s.remove f).has g = (s.has g && g != f) := by
  simp only [Schema.remove, Schema.has, List.contains_iff_mem, List.mem_filter]
  by_cases h1 : g ∈ s.fields <;> by_cases h2 : g = f <;> simp [h1, h2]

theorem Schema.has_add (s : Schema) (f g : Nat) (u : Bool) : (s.add f u).has g = (s.has g || g == f) := by
  simp only [Schema.add, Schema.has, List.contains_append]
  by_cases h2 : g = f <;> simp [h2]

theorem restrict_add_of_not_hasField (s : Schema) (f : Nat) (u : Bool) (d : DocRec) (h : d.hasField f = false) :
    restrict (s.add f u) d = restrict s d := by
  simp only [restrict]
  congr 1
  apply List.filter_congr
  intro fd hfd
  rw [Schema.has_add]
  have : (fd.fld == f) = false := by
    simp only [DocRec.hasField, List.any_eq_false] at h
    have := h fd hfd
    simpa using this
  simp [this]

/-! ### per-number views -/

/-- `is_deleted` by global number (reference definition). -/
def isDeletedG : List Seg → Nat → Bool
  | [], _ => false
  | s :: r, n => if n < s.docCountAll then s.isDeleted n else isDeletedG r (n - s.docCountAll)

theorem liveGlobal_mem_iff (segs : List Seg) (base m : Nat) (d : DocRec) (h : m < docCountAllSegs segs) :
    (d, m + base) ∈ liveGlobal segs base ↔ (docAt segs m = some d ∧ isDeletedG segs m = false) := by
  induction segs generalizing base m with
  | nil => simp [docCountAllSegs] at h
  | cons s r ih =>
    rw [docCountAllSegs_cons] at h
    simp only [liveGlobal, List.mem_append, List.mem_map, docAt, isDeletedG]
    by_cases hlt : m < s.docCountAll
    · simp only [hlt, if_true]
      constructor
      · rintro (⟨q, hq, heq⟩ | hq)
        · have e1 : q.1 = d := by simpa using congrArg Prod.fst heq
          have e2 : q.2 = m := by have := congrArg Prod.snd heq; simp at this; omega
          have hl := liveIdx_live s q hq
          simp only [Seg.liveIdx, List.mem_filter] at hq
          have := (List.mem_zipIdx_iff_getElem? (x := q) (l := s.docs)).mp hq.1
          rw [e1, e2] at this
          rw [e2] at hl
          exact ⟨this, hl⟩
        · have := liveGlobal_ge r _ _ hq
          simp at this; omega
      · rintro ⟨h1, h2⟩
        left
        refine ⟨(d, m), ?_, rfl⟩
        simp only [Seg.liveIdx, List.mem_filter]
        refine ⟨(List.mem_zipIdx_iff_getElem? (x := (d, m)) (l := s.docs)).mpr h1, by simp [h2]⟩
    · simp only [hlt, if_false]
      have e : m + base = (m - s.docCountAll) + (base + s.docCountAll) := by omega
      rw [e, ← ih (base + s.docCountAll) (m - s.docCountAll) (by omega)]
      constructor
      · rintro (⟨q, hq, heq⟩ | hq)
        · have := liveIdx_lt s q hq
          have e2 := congrArg Prod.snd heq
          simp at e2; omega
        · exact hq
      · intro hq; exact Or.inr hq

theorem Writer.isDeleted_eq (w : Writer) (n : Nat) (h : n < docCountAllSegs w.segs) :
    w.isDeleted n = some (isDeletedG w.segs n) := by
  obtain ⟨hi, hoff, hle⟩ := documentSegment_eq w.segs n h
  obtain ⟨hx, s, hs, hy⟩ := locate_fst_lt w.segs n h
  unfold Writer.isDeleted
  simp only [hi, hoff, hs]
  have e : n - (n - (locate w.segs n).2) = (locate w.segs n).2 := by omega
  rw [e]
  congr 1
  clear hi hoff hle e hx hy
  generalize w.segs = segs at *
  induction segs generalizing n s with
  | nil => simp [docCountAllSegs] at h
  | cons s0 r ih =>
    rw [docCountAllSegs_cons] at h
    simp only [locate, isDeletedG] at hs ⊢
    by_cases hlt : n < s0.docCountAll
    · simp only [hlt, if_true] at hs ⊢
      simp at hs; rw [hs]
    · simp only [hlt, if_false] at hs ⊢
      simp only [List.getElem?_cons_succ] at hs
      exact ih (n - s0.docCountAll) s (by omega) hs

/-! ### the in-session relation -/

/-- Writer `w` and specification session `ss` describe the same pending state. -/
structure SRel (w : Writer) (ss : Sess) : Prop where
  schema : ss.schema = w.schema
  committed : (contentOf w.schema w.segs).Perm ss.committed
  fresh : ss.fresh = w.ndocs
  fits : ∀ d ∈ w.ndocs, d.fits w.schema = true
  notAdded : w.added = false → w.ndocs = []

theorem SRel.of_frame {w w' : Writer} {ss ss' : Sess} (h : SRel w ss) (f : Frame w w')
    (hs : ss'.schema = ss.schema) (hf : ss'.fresh = ss.fresh)
    (hc : (contentOf w'.schema w'.segs).Perm ss'.committed) : SRel w' ss' where
  schema := by rw [hs, h.schema, f.schema]
  committed := hc
  fresh := by rw [hf, h.fresh, f.ndocs]
  fits := by rw [f.ndocs, f.schema]; exact h.fits
  notAdded := by rw [f.added, f.ndocs]; exact h.notAdded

theorem step_add (w : Writer) (ss : Sess) (h : SRel w ss) (d : DocRec) :
    SRel (w.step (.add d)).1 (ss.step (w.specOp (.add d))) := by
  by_cases hf : d.fits w.schema = true
  · simp only [Writer.step, Writer.addDocument, hf, Bool.not_true, Bool.false_eq_true, if_false, Writer.specOp,
      if_true, Sess.step, Sess.add]
    exact { schema := h.schema, committed := h.committed, fresh := by simp [h.fresh],
            fits := by
              intro x hx
              simp only [List.mem_append, List.mem_singleton] at hx
              rcases hx with hx | rfl
              · exact h.fits x hx
              · exact hf
            notAdded := by intro h'; simp at h' }
  · have hf' : d.fits w.schema = false := by simpa using hf
    simp only [Writer.step, Writer.addDocument, hf', Bool.not_false, if_true, Writer.specOp, Bool.false_eq_true,
      if_false, Sess.step]
    exact h

theorem step_delBy_pred (w : Writer) (ss : Sess) (h : SRel w ss) (p : DocRec → Bool) :
    SRel (w.step (.delBy (.pred p))).1 (ss.step (w.specOp (.delBy (.pred p)))) ∧
    (w.step (.delBy (.pred p))).2 = .count ((ss.committed.filter p).length) ∧
    Frame w (w.step (.delBy (.pred p))).1 := by
  obtain ⟨w', h1, f1, l1⟩ := Writer.deleteByQuery_pred w p
  have hc : contentOf w'.schema w'.segs = (contentOf w.schema w.segs).filter (fun d => !p d) := by
    rw [contentOf_eq_liveGlobal _ _ 0, contentOf_eq_liveGlobal _ _ 0, l1, f1.schema, List.filter_map]
    rfl
  simp only [Writer.step, h1, Writer.specOp, Sess.step, Sess.deleteWhere]
  refine ⟨?_, ?_, f1⟩
  · exact h.of_frame f1 rfl rfl (by rw [hc]; exact h.committed.filter _)
  · congr 1
    exact (h.committed.filter p).length_eq

theorem step_addField (w : Writer) (ss : Sess) (h : SRel w ss) (f : Nat) (u : Bool)
    (hfresh : ∀ q ∈ liveGlobal w.segs 0, q.1.hasField f = false) :
    SRel (w.step (.addField f u)).1 (ss.step (w.specOp (.addField f u))) := by
  by_cases ha : w.added = true
  · simp only [Writer.step, Writer.addField, ha, if_true, Writer.specOp, Bool.not_true, Bool.false_and,
      Bool.false_eq_true, if_false, Sess.step]
    exact h
  · have ha' : w.added = false := by simpa using ha
    by_cases hh : w.schema.has f = true
    · simp only [Writer.step, Writer.addField, ha', hh, Bool.false_eq_true, if_false, if_true, Writer.specOp,
        Bool.not_false, Bool.not_true, Bool.and_false, Sess.step]
      exact h
    · have hh' : w.schema.has f = false := by simpa using hh
      simp only [Writer.step, Writer.addField, ha', hh', Bool.false_eq_true, if_false, Writer.specOp,
        Bool.not_false, Bool.and_self, if_true, Sess.step, Sess.addField]
      have hnd := h.notAdded ha'
      refine { schema := by simp [h.schema], committed := ?_, fresh := h.fresh,
               fits := by simp [hnd], notAdded := fun _ => hnd }
      simp only
      rw [contentOf_eq_liveGlobal _ _ 0]
      have : (liveGlobal w.segs 0).map (fun p => restrict (w.schema.add f u) p.1)
           = (liveGlobal w.segs 0).map (fun p => restrict w.schema p.1) := by
        apply List.map_congr_left
        intro q hq
        exact restrict_add_of_not_hasField _ _ _ _ (hfresh q hq)
      rw [this, ← contentOf_eq_liveGlobal _ _ 0]
      exact h.committed

theorem step_removeField (w : Writer) (ss : Sess) (h : SRel w ss) (f : Nat) :
    SRel (w.step (.removeField f)).1 (ss.step (w.specOp (.removeField f))) := by
  by_cases ha : w.added = true
  · simp only [Writer.step, Writer.removeField, ha, if_true, Writer.specOp, Bool.not_true, Bool.false_and,
      Bool.false_eq_true, if_false, Sess.step]
    exact h
  · have ha' : w.added = false := by simpa using ha
    by_cases hh : w.schema.has f = true
    · simp only [Writer.step, Writer.removeField, ha', hh, Bool.false_eq_true, if_false, Bool.not_true,
        Writer.specOp, Bool.not_false, Bool.and_self, if_true, Sess.step, Sess.removeField]
      have hnd := h.notAdded ha'
      have hfr : ss.fresh = [] := by rw [h.fresh, hnd]
      refine { schema := by simp [h.schema], committed := ?_, fresh := by simp [hfr, hnd],
               fits := by simp [hnd], notAdded := fun _ => hnd }
      simp only
      have hsub : ∀ g, (w.schema.remove f).has g = true → w.schema.has g = true := by
        intro g hg; rw [Schema.has_remove] at hg; simp at hg; exact hg.1
      have : contentOf (w.schema.remove f) w.segs = (contentOf w.schema w.segs).map (restrict (w.schema.remove f)) := by
        rw [contentOf_eq_liveGlobal _ _ 0, contentOf_eq_liveGlobal _ _ 0, List.map_map]
        apply List.map_congr_left
        intro q _
        exact (restrict_restrict_of_subset _ _ hsub _).symm
      rw [this, h.schema]
      exact h.committed.map _
    · have hh' : w.schema.has f = false := by simpa using hh
      simp only [Writer.step, Writer.removeField, ha', hh', Bool.false_eq_true, if_false, Bool.not_false, if_true,
        Writer.specOp, Bool.and_false, Sess.step]
      exact h

/-! ### delete by number -/

theorem pairwise_lt_nodup {α} (f : α → Nat) (l : List α) (h : l.Pairwise (fun a b => f a < f b)) : l.Nodup := by
  rw [List.nodup_iff_pairwise_ne]
  exact h.imp (by intro a b hab he; subst he; omega)

/-- Taking the entry numbered `n` out of the live list, as a permutation statement on any image. -/
theorem liveGlobal_split {β} (segs : List Seg) (g : DocRec × Nat → β) (d : DocRec) (n : Nat)
    (hm : (d, n) ∈ liveGlobal segs 0) :
    ((liveGlobal segs 0).map g).Perm (g (d, n) :: ((liveGlobal segs 0).filter (fun p => p.2 != n)).map g) := by
  have hnd := pairwise_lt_nodup (fun p : DocRec × Nat => p.2) _ (liveGlobal_pairwise segs 0)
  have h1 := List.perm_cons_erase hm
  rw [hnd.erase_eq_filter] at h1
  have h2 : (liveGlobal segs 0).filter (fun x => x != (d, n)) = (liveGlobal segs 0).filter (fun p => p.2 != n) := by
    apply List.filter_congr
    intro q hq
    by_cases hqn : q.2 = n
    · have := liveGlobal_inj segs 0 q (d, n) hq hm hqn
      subst this; simp
    · have h3 : q ≠ (d, n) := by intro he; subst he; exact hqn rfl
      have h4 : (q != (d, n)) = true := by simpa using h3
      have h5 : (q.2 != n) = true := by simpa using hqn
      rw [h4, h5]
  rw [h2] at h1
  exact (h1.map g)

theorem liveGlobal_filter_absent (segs : List Seg) (n : Nat) (h : ∀ d, (d, n) ∉ liveGlobal segs 0) :
    (liveGlobal segs 0).filter (fun p => p.2 != n) = liveGlobal segs 0 := by
  rw [List.filter_eq_self]
  intro q hq
  have : q.2 ≠ n := by
    intro he
    apply h q.1
    rw [← he]; exact hq
  simpa using this

theorem step_delDoc_frame (w : Writer) (n : Nat) : Frame w (w.step (.delDoc n)).1 := by
  by_cases hn : n < docCountAllSegs w.segs
  · obtain ⟨w', h1, f1, _⟩ := Writer.deleteDocument_ok w n hn
    simp only [Writer.step, h1]; exact f1
  · have he := Writer.deleteDocument_err w n true hn
    simp only [Writer.step, he]; exact Frame.refl w

theorem step_delDoc (w : Writer) (ss : Sess) (h : SRel w ss) (n : Nat) :
    SRel (w.step (.delDoc n)).1 (ss.step (w.specOp (.delDoc n))) := by
  by_cases hn : n < docCountAllSegs w.segs
  · obtain ⟨w', h1, f1, l1⟩ := Writer.deleteDocument_ok w n hn
    simp only [Writer.step, h1, Writer.specOp, hn, if_true]
    have hdel := Writer.isDeleted_eq w n hn
    have hmem := fun d => liveGlobal_mem_iff w.segs 0 n d hn
    simp only [Nat.add_zero] at hmem
    have hc' : contentOf w'.schema w'.segs
        = ((liveGlobal w.segs 0).filter (fun p => p.2 != n)).map (fun p => restrict w.schema p.1) := by
      rw [contentOf_eq_liveGlobal _ _ 0, l1, f1.schema]
    rw [hdel]
    cases hd : docAt w.segs n with
    | none =>
      simp only [Sess.step]
      refine h.of_frame f1 rfl rfl ?_
      rw [hc', liveGlobal_filter_absent w.segs n (by intro d hm; rw [hmem] at hm; rw [hd] at hm; simp at hm),
        ← contentOf_eq_liveGlobal]
      exact h.committed
    | some d =>
      cases hg : isDeletedG w.segs n with
      | true =>
        simp only [Sess.step]
        refine h.of_frame f1 rfl rfl ?_
        rw [hc', liveGlobal_filter_absent w.segs n (by intro d' hm; rw [hmem] at hm; rw [hg] at hm; simp at hm),
          ← contentOf_eq_liveGlobal]
        exact h.committed
      | false =>
        simp only [Sess.step, Sess.erase]
        refine h.of_frame f1 rfl rfl ?_
        have hm : (d, n) ∈ liveGlobal w.segs 0 := (hmem d).mpr ⟨hd, hg⟩
        have hsplit := liveGlobal_split w.segs (fun p => restrict w.schema p.1) d n hm
        rw [← contentOf_eq_liveGlobal, ← hc'] at hsplit
        -- content ~ r d :: content'
        have h2 := (h.committed.symm.trans hsplit).erase (restrict w.schema d)
        rw [List.erase_cons_head] at h2
        exact h2.symm
  · have he := Writer.deleteDocument_err w n true hn
    simp only [Writer.step, he, Writer.specOp, hn, if_false, Sess.step]
    exact h

end WM.Index
