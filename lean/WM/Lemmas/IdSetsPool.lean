import WM.Lemmas.IdSetsMulti
import WM.Spec.IdSetPool
/-! Pool programs (`WM.IdSets.Pool`) refine the specification `WM.Spec.IdSet.SPool`; the byte-wise
engine `logic` for byte arrays of any length. -/
namespace WM.IdSets
open WM.Spec.IdSet (Sorted binop SPool)

/-! ### `_logic` over byte arrays of arbitrary length -/

theorem iter_logic_or (a b : Bits) : iter (logic (· ||| ·) a b) = WM.Spec.IdSet.union (iter a) (iter b) := by
  apply iter_eq_of_mem (WM.Spec.IdSet.sorted_union (sorted_iter a))
  intro x; rw [WM.Spec.IdSet.mem_union, contains_logic_or, mem_iter, mem_iter]; simp

theorem iter_logic_and (a b : Bits) : iter (logic (· &&& ·) a b) = WM.Spec.IdSet.inter (iter a) (iter b) := by
  apply iter_eq_of_mem (WM.Spec.IdSet.sorted_inter (sorted_iter a))
  intro x; rw [WM.Spec.IdSet.mem_inter, contains_logic_and, mem_iter, mem_iter]; simp

theorem iter_logic_andNot (a b : Bits) : iter (logic andNot a b) = WM.Spec.IdSet.diff (iter a) (iter b) := by
  apply iter_eq_of_mem (WM.Spec.IdSet.sorted_diff (sorted_iter a))
  intro x; rw [WM.Spec.IdSet.mem_diff, contains_logic_andNot, mem_iter, mem_iter]; simp

/-- `_trim` leaves no trailing zero byte. -/
theorem trim_getLast : ∀ (bits : Bits), (trim bits).getLast? ≠ some 0
  | [] => by simp [trim]
  | b :: bs => by
    have ih := trim_getLast bs
    cases ht : trim bs with
    | nil =>
      simp only [trim, ht]
      split <;> simp_all
    | cons y ys =>
      rw [ht] at ih
      simp only [trim, ht]
      rw [List.getLast?_cons_cons]
      exact ih

theorem zipLongest_nil_right (op : Nat → Nat → Nat) : ∀ (a : Bits),
    zipLongest op a [] = a.map fun x => op x 0 &&& 255
  | [] => by simp [zipLongest]
  | x :: xs => by simp [zipLongest, zipLongest_nil_right op xs]

theorem trim_zeros : ∀ (n : Nat), trim (List.replicate n 0) = []
  | 0 => rfl
  | n + 1 => by simp [List.replicate_succ, trim, trim_zeros n]

/-- AND with a zero-length right operand: every byte of the left operand is cleared and the array
    is trimmed to nothing — *not* "the left operand unchanged". -/
theorem logic_and_nil (a : Bits) : logic (· &&& ·) a [] = [] := by
  unfold logic
  rw [zipLongest_nil_right]
  have : (a.map fun x => x &&& 0 &&& 255) = List.replicate a.length 0 := by
    apply List.ext_getElem <;> simp
  rw [this, trim_zeros]

/-! ### registers -/

def Inner.Ok : Inner → Prop
  | .bits _ => True
  | .sorted d => Sorted d

theorem Inner.Ok.sorted_iter {s : Inner} (h : s.Ok) : Sorted s.iter := by
  cases s with
  | bits b => exact IdSets.sorted_iter b
  | sorted d => exact h

theorem Inner.asOther_items (s : Inner) : s.asOther.items = s.iter := by cases s <;> rfl

theorem iter_bits_eq {b : Bits} {s : List Nat} (hs : Sorted s) (h : ∀ x, x ∈ s ↔ contains b x = true) :
    iter b = s := iter_eq_of_mem hs h

theorem Inner.bin_spec (a : Inner) (ha : a.Ok) (op : BinOp) (o : Other) :
    ∃ r, a.bin op o = .ok r ∧ r.Ok ∧ r.iter = binop op a.iter o.items := by
  have hmem : ∀ x, x ∈ o.items ↔ o.contains x = true := fun x => by
    rw [← other_items_contains]; simp
  cases a with
  | bits x =>
    cases op with
    | union =>
      refine ⟨_, rfl, trivial, ?_⟩
      apply iter_eq_of_mem (WM.Spec.IdSet.sorted_union (IdSets.sorted_iter x))
      intro y
      rw [WM.Spec.IdSet.mem_union, contains_union, mem_iter, hmem]; simp
    | inter =>
      refine ⟨_, rfl, trivial, ?_⟩
      apply iter_eq_of_mem (WM.Spec.IdSet.sorted_inter (IdSets.sorted_iter x))
      intro y
      rw [WM.Spec.IdSet.mem_inter, contains_intersection, mem_iter, hmem]; simp
    | diff =>
      refine ⟨_, rfl, trivial, ?_⟩
      apply iter_eq_of_mem (WM.Spec.IdSet.sorted_diff (IdSets.sorted_iter x))
      intro y
      rw [WM.Spec.IdSet.mem_diff, contains_difference, mem_iter, hmem]; simp
  | sorted d =>
    cases op with
    | union =>
      exact ⟨.sorted (WM.Spec.IdSet.union d o.items), by simp only [Inner.bin, sisUpdate_spec ha o, Except.map],
        WM.Spec.IdSet.sorted_union ha, rfl⟩
    | inter =>
      exact ⟨.sorted (WM.Spec.IdSet.inter d o.items), by simp only [Inner.bin, sisIntersection_spec],
        WM.Spec.IdSet.sorted_inter ha, rfl⟩
    | diff =>
      exact ⟨.sorted (WM.Spec.IdSet.diff d o.items), by simp only [Inner.bin, sisDifference_spec],
        WM.Spec.IdSet.sorted_diff ha, rfl⟩

theorem Inner.upd_spec (a : Inner) (ha : a.Ok) (op : BinOp) (o : Other) :
    ∃ r, a.upd op o = .ok r ∧ r.Ok ∧ r.iter = binop op a.iter o.items := by
  have hmem : ∀ x, x ∈ o.items ↔ o.contains x = true := fun x => by
    rw [← other_items_contains]; simp
  cases a with
  | bits x =>
    cases op with
    | union =>
      refine ⟨_, rfl, trivial, ?_⟩
      apply iter_eq_of_mem (WM.Spec.IdSet.sorted_union (IdSets.sorted_iter x))
      intro y
      rw [WM.Spec.IdSet.mem_union, contains_update, mem_iter, hmem]; simp
    | inter =>
      refine ⟨_, rfl, trivial, ?_⟩
      apply iter_eq_of_mem (WM.Spec.IdSet.sorted_inter (IdSets.sorted_iter x))
      intro y
      rw [WM.Spec.IdSet.mem_inter, contains_intersectionUpdate, mem_iter, hmem]; simp
    | diff =>
      refine ⟨_, rfl, trivial, ?_⟩
      apply iter_eq_of_mem (WM.Spec.IdSet.sorted_diff (IdSets.sorted_iter x))
      intro y
      rw [WM.Spec.IdSet.mem_diff, contains_differenceUpdate, mem_iter, hmem]; simp
  | sorted d =>
    cases op with
    | union =>
      exact ⟨.sorted (WM.Spec.IdSet.union d o.items), by simp only [Inner.upd, sisUpdate_spec ha o, Except.map],
        WM.Spec.IdSet.sorted_union ha, rfl⟩
    | inter =>
      exact ⟨.sorted (WM.Spec.IdSet.inter d o.items), by simp only [Inner.upd, sisIntersection_spec],
        WM.Spec.IdSet.sorted_inter ha, rfl⟩
    | diff =>
      exact ⟨.sorted (WM.Spec.IdSet.diff d o.items), by simp only [Inner.upd, sisDifference_spec],
        WM.Spec.IdSet.sorted_diff ha, rfl⟩

theorem Inner.add_ok (s : Inner) (h : s.Ok) (i : Nat) :
    ∃ s', s.add i = .ok s' ∧ s'.Ok ∧ s'.iter = WM.Spec.IdSet.insert i s.iter := by
  cases s with
  | bits b =>
    refine ⟨.bits (IdSets.add b i), rfl, trivial, ?_⟩
    apply iter_eq_of_mem (WM.Spec.IdSet.sorted_insert (IdSets.sorted_iter b))
    intro x
    rw [WM.Spec.IdSet.mem_insert, contains_add, mem_iter]
    simp
  | sorted d =>
    refine ⟨.sorted (WM.Spec.IdSet.insert i d), ?_, WM.Spec.IdSet.sorted_insert h, rfl⟩
    simp only [Inner.add, sisAdd_spec h i, Except.map]

theorem Inner.discard_ok (s : Inner) (h : s.Ok) (i : Nat) :
    ∃ s', s.discard i = .ok s' ∧ s'.Ok ∧ s'.iter = WM.Spec.IdSet.erase i s.iter := by
  cases s with
  | bits b =>
    refine ⟨.bits (IdSets.discard b i), rfl, trivial, ?_⟩
    apply iter_eq_of_mem (WM.Spec.IdSet.sorted_erase (IdSets.sorted_iter b))
    intro x
    rw [WM.Spec.IdSet.mem_erase, contains_discard, mem_iter]
    simp
  | sorted d =>
    refine ⟨.sorted (WM.Spec.IdSet.erase i d), ?_, WM.Spec.IdSet.sorted_erase h, rfl⟩
    simp only [Inner.discard, sisDiscard_spec h i, Except.map]

theorem Inner.clear_ok (s : Inner) : s.clear.Ok ∧ s.clear.iter = [] := by
  cases s with
  | bits b =>
    refine ⟨trivial, ?_⟩
    apply iter_eq_of_mem WM.Spec.IdSet.sorted_nil
    intro x; rw [contains_clear]; simp
  | sorted d => exact ⟨List.Pairwise.nil, rfl⟩

/-- `invert` on a register: a `SortedIntSet` only when all members are below `size` (the generic
    `DocIdSet.invert_update` keeps larger members — recorded finding `sis_invert_partial`). -/
theorem Inner.invert_ok (s : Inner) (h : s.Ok) (size : Nat)
    (hdom : ∀ d, s = .sorted d → ∀ x ∈ d, x < size) :
    ∃ s', s.invert size = .ok s' ∧ s'.Ok ∧ s'.iter = WM.Spec.IdSet.invert size s.iter := by
  cases s with
  | bits b =>
    rcases invertUpdate_spec b size with ⟨r, hr, hc⟩
    refine ⟨.bits r, by simp only [Inner.invert, hr, Except.map], trivial, ?_⟩
    apply iter_eq_of_mem WM.Spec.IdSet.sorted_invert
    intro x; rw [WM.Spec.IdSet.mem_invert, hc]; simp only [Inner.iter]; rw [mem_iter]; simp
  | sorted d =>
    rcases sisInvertUpdate_exact h size with ⟨r, hr, hs, hm⟩
    refine ⟨.sorted r, by simp only [Inner.invert, hr, Except.map], hs, ?_⟩
    apply WM.Spec.IdSet.sorted_ext hs WM.Spec.IdSet.sorted_invert
    intro x; rw [hm, WM.Spec.IdSet.mem_invert]
    constructor
    · rintro (h1 | ⟨h1, h2⟩)
      · exact h1
      · have := hdom d rfl x h2; omega
    · intro h1; exact Or.inl h1


/-! ### pool programs -/

def Pool.Ok (p : Pool) : Prop := ∀ s ∈ p, s.Ok

/-- what a step needs beyond well-formed registers: `invert` on a `SortedIntSet` register only with
    all members below `size` (recorded finding otherwise), loaded sets well-formed. -/
def PoolOp.InDomain (p : Pool) : PoolOp → Prop
  | .invert _ a size => ∀ d, p[a]? = some (.sorted d) → ∀ x ∈ d, x < size
  | .invupd a size => ∀ d, p[a]? = some (.sorted d) → ∀ x ∈ d, x < size
  | .load _ x => x.Ok
  | _ => True

/-- model result vs specification result: both reject the program (a register that does not
    exist), or both succeed, the registers stay well-formed and their abstractions agree. -/
def Refines : Except Err Pool → Option SPool → Prop
  | .ok p', some sp' => Pool.Ok p' ∧ p'.map Inner.iter = sp'
  | .error .index, none => True
  | _, _ => False

theorem assign_refines (p : Pool) (hok : p.Ok) (dst : Nat) (x : Inner) (hx : x.Ok) :
    Refines (p.assign dst x) (SPool.assign (p.map Inner.iter) dst x.iter) := by
  unfold Pool.assign SPool.assign
  rw [List.length_map]
  by_cases h : dst < p.length
  · simp only [h, ↓reduceIte, Refines]
    refine ⟨?_, by rw [List.map_set]⟩
    intro s hs
    rcases List.mem_or_eq_of_mem_set hs with h1 | h1
    · exact hok s h1
    · exact h1 ▸ hx
  · simp only [h, ↓reduceIte, Refines]

theorem reg_some {p : Pool} {a : Nat} {x : Inner} (h : p[a]? = some x) : p.reg a = .ok x := by
  simp [Pool.reg, h]
theorem reg_none {p : Pool} {a : Nat} (h : p[a]? = none) : p.reg a = .error .index := by
  simp [Pool.reg, h]

theorem ofList_sorted {l : List Nat} (h : Sorted l) : WM.Spec.IdSet.ofList l = l := by
  apply WM.Spec.IdSet.sorted_ext WM.Spec.IdSet.sorted_ofList h
  intro x; rw [WM.Spec.IdSet.mem_ofList]

theorem Pool.ok_get {p : Pool} (hok : p.Ok) {a : Nat} {x : Inner} (h : p[a]? = some x) : x.Ok :=
  hok x (List.mem_of_getElem? h)

theorem pool_step_refines (p : Pool) (hok : p.Ok) (op : PoolOp) (hd : op.InDomain p) :
    Refines (p.step op) (SPool.step (p.map Inner.iter) op) := by
  cases op with
  | bin o dst a b =>
    simp only [Pool.step, SPool.step, List.getElem?_map]
    cases ha : p[a]? with
    | none => simp [reg_none ha, Refines, bind, Except.bind]
    | some x =>
      cases hb : p[b]? with
      | none => simp [reg_some ha, reg_none hb, Refines, bind, Except.bind]
      | some y =>
        rcases Inner.bin_spec x (Pool.ok_get hok ha) o y.asOther with ⟨r, hr, hrok, hri⟩
        simp only [reg_some ha, reg_some hb, hr, bind, Except.bind, Option.map_some, Option.bind_some]
        rw [Inner.asOther_items] at hri
        rw [← hri]
        exact assign_refines p hok dst r hrok
  | upd o a b =>
    simp only [Pool.step, SPool.step, List.getElem?_map]
    cases ha : p[a]? with
    | none => simp [reg_none ha, Refines, bind, Except.bind]
    | some x =>
      cases hb : p[b]? with
      | none => simp [reg_some ha, reg_none hb, Refines, bind, Except.bind]
      | some y =>
        rcases Inner.upd_spec x (Pool.ok_get hok ha) o y.asOther with ⟨r, hr, hrok, hri⟩
        simp only [reg_some ha, reg_some hb, hr, bind, Except.bind, Option.map_some, Option.bind_some]
        rw [Inner.asOther_items] at hri
        rw [← hri]
        exact assign_refines p hok a r hrok
  | add a i =>
    simp only [Pool.step, SPool.step, List.getElem?_map]
    cases ha : p[a]? with
    | none => simp [reg_none ha, Refines, bind, Except.bind]
    | some x =>
      rcases Inner.add_ok x (Pool.ok_get hok ha) i with ⟨r, hr, hrok, hri⟩
      simp only [reg_some ha, hr, bind, Except.bind, Option.map_some, Option.bind_some]
      rw [← hri]
      exact assign_refines p hok a r hrok
  | discard a i =>
    simp only [Pool.step, SPool.step, List.getElem?_map]
    cases ha : p[a]? with
    | none => simp [reg_none ha, Refines, bind, Except.bind]
    | some x =>
      rcases Inner.discard_ok x (Pool.ok_get hok ha) i with ⟨r, hr, hrok, hri⟩
      simp only [reg_some ha, hr, bind, Except.bind, Option.map_some, Option.bind_some]
      rw [← hri]
      exact assign_refines p hok a r hrok
  | clear a =>
    simp only [Pool.step, SPool.step, List.getElem?_map]
    cases ha : p[a]? with
    | none => simp [reg_none ha, Refines, bind, Except.bind]
    | some x =>
      simp only [reg_some ha, bind, Except.bind, Option.map_some, Option.bind_some]
      rw [← (Inner.clear_ok x).2]
      exact assign_refines p hok a x.clear (Inner.clear_ok x).1
  | invert dst a size =>
    simp only [Pool.step, SPool.step, List.getElem?_map]
    cases ha : p[a]? with
    | none => simp [reg_none ha, Refines, bind, Except.bind]
    | some x =>
      rcases Inner.invert_ok x (Pool.ok_get hok ha) size (fun d hx => hd d (hx ▸ ha)) with ⟨r, hr, hrok, hri⟩
      simp only [reg_some ha, hr, bind, Except.bind, Option.map_some, Option.bind_some]
      rw [← hri]
      exact assign_refines p hok dst r hrok
  | invupd a size =>
    simp only [Pool.step, SPool.step, List.getElem?_map]
    cases ha : p[a]? with
    | none => simp [reg_none ha, Refines, bind, Except.bind]
    | some x =>
      rcases Inner.invert_ok x (Pool.ok_get hok ha) size (fun d hx => hd d (hx ▸ ha)) with ⟨r, hr, hrok, hri⟩
      simp only [reg_some ha, hr, bind, Except.bind, Option.map_some, Option.bind_some]
      rw [← hri]
      exact assign_refines p hok a r hrok
  | copy dst a =>
    simp only [Pool.step, SPool.step, List.getElem?_map]
    cases ha : p[a]? with
    | none => simp [reg_none ha, Refines, bind, Except.bind]
    | some x =>
      simp only [reg_some ha, bind, Except.bind, Option.map_some, Option.bind_some]
      exact assign_refines p hok dst x (Pool.ok_get hok ha)
  | load dst x =>
    simp only [Pool.step, SPool.step]
    rw [ofList_sorted (Inner.Ok.sorted_iter hd)]
    exact assign_refines p hok dst x hd

/-- the domain condition along a whole run -/
def Pool.DomAll : Pool → List PoolOp → Prop
  | _, [] => True
  | p, op :: ops => op.InDomain p ∧ ∀ p', p.step op = .ok p' → Pool.DomAll p' ops

theorem pool_run_refines : ∀ (ops : List PoolOp) (p : Pool), p.Ok → p.DomAll ops →
    Refines (p.run ops) (SPool.run (p.map Inner.iter) ops)
  | [], p, hok, _ => ⟨hok, rfl⟩
  | op :: ops, p, hok, hd => by
    have hstep := pool_step_refines p hok op hd.1
    unfold Pool.run SPool.run
    cases hm : p.step op with
    | error e =>
      rw [hm] at hstep
      cases hs : SPool.step (p.map Inner.iter) op with
      | none => rw [hs] at hstep; simpa using hstep
      | some sp => rw [hs] at hstep; cases e <;> exact hstep.elim
    | ok p' =>
      rw [hm] at hstep
      cases hs : SPool.step (p.map Inner.iter) op with
      | none => rw [hs] at hstep; exact hstep.elim
      | some sp =>
        rw [hs] at hstep
        simp only
        rw [← hstep.2]
        exact pool_run_refines ops p' hstep.1 (hd.2 p' hm)


/-! ### `DocIdSet.intersection_update` inherited by `ReverseIdSet` -/

theorem Rev.intersectionUpdate_items (o : Other) : ∀ (l : List Nat) (r : Rev), r.inner.WF →
    ∃ r', foldE (fun acc n => if o.contains n then .ok acc else acc.discard n) r l = .ok r' ∧
      r'.inner.WF ∧ r'.limit = r.limit ∧
      ∀ x, x ∈ r'.iter ↔ x ∈ r.iter ∧ (x ∈ l → o.contains x = true)
  | [], r, h => ⟨r, rfl, h, rfl, by simp⟩
  | a :: t, r, h => by
    by_cases hc : o.contains a = true
    · rcases Rev.intersectionUpdate_items o t r h with ⟨r2, h2, hwf2, hlim2, hit2⟩
      refine ⟨r2, by simp only [foldE, hc, ↓reduceIte, h2], hwf2, hlim2, ?_⟩
      intro x
      rw [hit2, List.mem_cons]
      constructor
      · rintro ⟨h3, h4⟩
        exact ⟨h3, fun hx => hx.elim (fun e => e ▸ hc) h4⟩
      · rintro ⟨h3, h4⟩
        exact ⟨h3, fun hx => h4 (Or.inr hx)⟩
    · rcases Rev.discard_spec r h a with ⟨r1, h1, hwf1, hlim1, hit1⟩
      rcases Rev.intersectionUpdate_items o t r1 hwf1 with ⟨r2, h2, hwf2, hlim2, hit2⟩
      refine ⟨r2, by simp only [foldE, hc, h1]; exact h2, hwf2, by rw [hlim2, hlim1], ?_⟩
      intro x
      rw [hit2, hit1, WM.Spec.IdSet.mem_erase, List.mem_cons]
      constructor
      · rintro ⟨⟨h3, h4⟩, h5⟩
        exact ⟨h3, fun hx => hx.elim (fun e => absurd e h4) h5⟩
      · rintro ⟨h3, h4⟩
        refine ⟨⟨h3, fun e => hc (e ▸ h4 (Or.inl e))⟩, fun hx => h4 (Or.inr hx)⟩

theorem Rev.intersectionUpdate_spec (r : Rev) (h : r.inner.WF) (o : Other) :
    ∃ r', r.intersectionUpdate o = .ok r' ∧ r'.inner.WF ∧ r'.limit = r.limit ∧
      r'.iter = WM.Spec.IdSet.inter r.iter o.items := by
  rcases Rev.intersectionUpdate_items o r.iter r h with ⟨r', h1, h2, h3, h4⟩
  refine ⟨r', h1, h2, h3, ?_⟩
  have hs : ∀ (q : Rev), q.inner.WF → Sorted q.iter := fun q hq => by
    rw [Rev.iter_spec q hq]; exact WM.Spec.IdSet.sorted_invert
  apply WM.Spec.IdSet.sorted_ext (hs r' h2) (WM.Spec.IdSet.sorted_inter (hs r h))
  intro x
  rw [h4, WM.Spec.IdSet.mem_inter]
  have hmem : x ∈ o.items ↔ o.contains x = true := by rw [← other_items_contains]; simp
  rw [hmem]
  constructor
  · rintro ⟨h5, h6⟩; exact ⟨h5, h6 h5⟩
  · rintro ⟨h5, h6⟩; exact ⟨h5, fun _ => h6⟩

end WM.IdSets
