import WM.Lemmas.IndexStats
/-! MpWriter / SerialMpWriter: merging the sub-writers' results. -/
namespace WM.Index
open WM.Dict

theorem allPostings_shift (docs : List DocRec) (k : Nat) :
    (allPostings docs 0).map (fun p => { p with doc := p.doc + k }) = allPostings docs k := by
  simp only [allPostings, List.map_flatMap]
  rw [zipIdx_shift docs k, List.flatMap_map]
  apply flatMap_congr_mem
  intro q _
  rw [← docPostings_renumber q.1 q.2 (k + q.2)]
  apply List.map_congr_left
  intro p hp
  rw [docPostings_doc _ _ p hp, Nat.add_comm]

/-- A sub-writer that was given documents of the schema: its per-document data are those
    documents, its pool their postings. -/
theorem subWriter_ok (sc : Schema) (docs : List DocRec) (h : ∀ d ∈ docs, d.fits sc = true) :
    ∃ w, subWriter sc docs = .ok w ∧ w.schema = sc ∧ w.ndocs = docs ∧ w.pool = allPostings docs ∧ w.segs = [] := by
  suffices H : ∀ (w0 : Writer), w0.schema = sc →
      ∃ w, docs.foldlM (fun w d => w.addDocument d) w0 = .ok w ∧ w.schema = sc ∧ w.ndocs = w0.ndocs ++ docs ∧
        w.pool = w0.pool ++ allPostings docs w0.ndocs.length ∧ w.segs = w0.segs by
    obtain ⟨w, h1, h2, h3, h4, h5⟩ := H { schema := sc, segs := [], gen := 0, ndocs := [], pool := [], added := false } rfl
    exact ⟨w, h1, h2, by simpa using h3, by simpa using h4, h5⟩
  induction docs with
  | nil => intro w0 h0; exact ⟨w0, rfl, h0, by simp, by simp [allPostings], rfl⟩
  | cons d r ih =>
    intro w0 h0
    have hd : d.fits w0.schema = true := by rw [h0]; exact h d (by simp)
    obtain ⟨w, h1, h2, h3, h4, h5⟩ := ih (fun x hx => h x (by simp [hx]))
      { w0 with ndocs := w0.ndocs ++ [d], pool := w0.pool ++ docPostings d w0.ndocs.length, added := true } h0
    refine ⟨w, ?_, h2, ?_, ?_, h5⟩
    · simp only [List.foldlM_cons, Writer.addDocument, hd, Bool.not_true, Bool.false_eq_true, if_false, bind,
        Except.bind]
      exact h1
    · rw [h3]; simp
    · rw [h4]
      have : allPostings (d :: r) w0.ndocs.length
          = docPostings d w0.ndocs.length ++ allPostings r (w0.ndocs.length + 1) := by
        simp [allPostings, List.zipIdx_cons]
      rw [this]; simp

theorem mergeSubs_spec (ndocs : List DocRec) (srcs : List (List Posting)) (subs : List Writer)
    (hs : ∀ s ∈ subs, s.pool = allPostings s.ndocs) :
    (mergeSubs ndocs srcs subs).1 = ndocs ++ (subs.map (·.ndocs)).flatten ∧
    (mergeSubs ndocs srcs subs).2.flatten.Perm
      (srcs.flatten ++ allPostings (subs.map (·.ndocs)).flatten ndocs.length) := by
  induction subs generalizing ndocs srcs with
  | nil => simp [mergeSubs, allPostings]
  | cons s r ih =>
    obtain ⟨h1, h2⟩ := ih (ndocs ++ s.ndocs) (srcs ++ [subRun s ndocs.length]) (fun x hx => hs x (by simp [hx]))
    refine ⟨by simp [mergeSubs, h1], ?_⟩
    simp only [mergeSubs]
    refine h2.trans ?_
    simp only [List.flatten_append, List.flatten_cons, List.flatten_nil, List.append_nil, List.map_cons,
      List.append_assoc, List.length_append]
    refine List.Perm.append_left _ ?_
    rw [allPostings_append]
    refine List.Perm.append_right _ ?_
    simp only [subRun]
    rw [← allPostings_shift s.ndocs ndocs.length, hs s (by simp)]
    exact (List.mergeSort_perm _ _).map _

/-- The segment `_merge_subsegments` writes is well-formed and holds the parent's own documents
    followed by the sub-writers' documents in sub-writer order. -/
theorem Writer.mpFinal_spec (w : Writer) (subs : List Writer) (hwf : w.WF) (hna : w.added = false → w.ndocs = [])
    (hs : ∀ s ∈ subs, s.pool = allPostings s.ndocs) :
    (w.mpFinal subs).WF ∧ (w.mpFinal subs).docs = w.ndocs ++ (subs.map (·.ndocs)).flatten ∧
    (w.mpFinal subs).deleted = [] := by
  have hown : (if w.added then [w.pool.mergeSort Posting.le] else []).flatten.Perm (allPostings w.ndocs) := by
    by_cases ha : w.added = true
    · simp only [ha, if_true, List.flatten_cons, List.flatten_nil, List.append_nil]
      exact (List.mergeSort_perm _ _).trans hwf.pool
    · have ha' : w.added = false := by simpa using ha
      simp [ha', hna ha', allPostings]
  obtain ⟨h1, h2⟩ := mergeSubs_spec w.ndocs (if w.added then [w.pool.mergeSort Posting.le] else []) subs hs
  refine ⟨⟨by simp [Writer.mpFinal], by simp [Writer.mpFinal], ?_, mergeSort_sorted _⟩, h1, rfl⟩
  simp only [Writer.mpFinal, imerge]
  refine (List.mergeSort_perm _ _).trans (h2.trans ?_)
  rw [h1, allPostings_append, Nat.zero_add]
  exact hown.append_right _

/-- the sub-writer that indexed `ds` -/
def subOf (sc : Schema) (ds : List DocRec) : Writer :=
  { schema := sc, segs := [], gen := 0, ndocs := ds, pool := allPostings ds, added := !ds.isEmpty }

theorem flatten_subOf (sc : Schema) (assign : List (List DocRec)) :
    ((assign.map (subOf sc)).map (·.ndocs)).flatten = assign.flatten := by
  simp [List.map_map, Function.comp_def, subOf]

theorem map_restrict_of_fits (sc : Schema) (l : List DocRec) (h : ∀ d ∈ l, d.fits sc = true) :
    l.map (restrict sc) = l := by
  conv => rhs; rw [← List.map_id l]
  apply List.map_congr_left
  intro d hd; exact restrict_of_fits _ _ (h d hd)

theorem contentOf_singleton (sc : Schema) (s : Seg) : contentOf sc [s] = s.liveDocs.map (restrict sc) := by
  simp [contentOf]

end WM.Index
