import WM.Lemmas.IndexStats
/-! MpWriter / SerialMpWriter: merging the sub-writers' results. -/
namespace WM.Index
open WM.Dict

theorem allPostings_shift (docs : List DocRec) (k : Nat) :
    (allPostings docs 0).map (fun p => { p with doc := p.doc + k }) = allPostings docs k := by
  simp only [allPostings, List.map_flatMap]
  rw [zipIdx_shift docs k, List.flatMap_map]
  apply flatMap_congr_mem
  intro q _
  rw [← docPostings_renumber q.1 q.2 (k + q.2)]
  apply List.map_congr_left
  intro p hp
  rw [docPostings_doc _ _ p hp, Nat.add_comm]

/-- A sub-writer that was given documents of the schema: its per-document data are those
    documents, its pool their postings. -/
theorem subWriter_ok (sc : Schema) (docs : List DocRec) (h : ∀ d ∈ docs, d.fits sc = true) :
    ∃ w, subWriter sc docs = .ok w ∧ w.schema = sc ∧ w.ndocs = docs ∧ w.pool = allPostings docs ∧ w.segs = [] := by
  suffices H : ∀ (w0 : Writer), w0.schema = sc →
      ∃ w, docs.foldlM (fun w d => w.addDocument d) w0 = .ok w ∧ w.schema = sc ∧ w.ndocs = w0.ndocs ++ docs ∧
        w.pool = w0.pool ++ allPostings docs w0.ndocs.length ∧ w.segs = w0.segs by
    obtain ⟨w, h1, h2, h3, h4, h5⟩ := H { schema := sc, segs := [], gen := 0, ndocs := [], pool := [], added := false } rfl
    exact ⟨w, h1, h2, by simpa using h3, by simpa using h4, h5⟩
  induction docs with
  | nil => intro w0 h0; exact ⟨w0, rfl, h0, by simp, by simp [allPostings], rfl⟩
  | cons d r ih =>
    intro w0 h0
    have hd : d.fits w0.schema = true := by rw [h0]; exact h d (by simp)
    obtain ⟨w, h1, h2, h3, h4, h5⟩ := ih (fun x hx => h x (by simp [hx]))
      { w0 with ndocs := w0.ndocs ++ [d], pool := w0.pool ++ docPostings d w0.ndocs.length, added := true } h0
    refine ⟨w, ?_, h2, ?_, ?_, h5⟩
    · simp only [List.foldlM_cons, Writer.addDocument, hd, Bool.not_true, Bool.false_eq_true, if_false, bind,
        Except.bind]
      exact h1
    · rw [h3]; simp
    · rw [h4]
      have : allPostings (d :: r) w0.ndocs.length
          = docPostings d w0.ndocs.length ++ allPostings r (w0.ndocs.length + 1) := by
        simp [allPostings, List.zipIdx_cons]
      rw [this]; simp

theorem mergeSubs_spec (ndocs : List DocRec) (srcs : List (List Posting)) (subs : List Writer)
    (hs : ∀ s ∈ subs, s.pool = allPostings s.ndocs) :
    (mergeSubs ndocs srcs subs).1 = ndocs ++ (subs.map (·.ndocs)).flatten ∧
    (mergeSubs ndocs srcs subs).2.flatten.Perm
      (srcs.flatten ++ allPostings (subs.map (·.ndocs)).flatten ndocs.length) := by
  induction subs generalizing ndocs srcs with
  | nil => simp [mergeSubs, allPostings]
  | cons s r ih =>
    obtain ⟨h1, h2⟩ := ih (ndocs ++ s.ndocs) (srcs ++ [subRun s ndocs.length]) (fun x hx => hs x (by simp [hx]))
    refine ⟨by simp [mergeSubs, h1], ?_⟩
    simp only [mergeSubs]
    refine h2.trans ?_
    simp only [List.flatten_append, List.flatten_cons, List.flatten_nil, List.append_nil, List.map_cons,
      List.append_assoc, List.length_append]
    refine List.Perm.append_left _ ?_
    rw [allPostings_append]
    refine List.Perm.append_right _ ?_
    simp only [subRun]
    rw [← allPostings_shift s.ndocs ndocs.length, hs s (by simp)]
    exact (List.mergeSort_perm _ _).map _

/-- The segment `_merge_subsegments` writes is well-formed and holds the parent's own documents
    followed by the sub-writers' documents in sub-writer order. -/
theorem Writer.mpFinal_spec (w : Writer) (subs : List Writer) (hwf : w.WF) (hna : w.added = false → w.ndocs = [])
    (hs : ∀ s ∈ subs, s.pool = allPostings s.ndocs) :
    (w.mpFinal subs).WF ∧ (w.mpFinal subs).docs = w.ndocs ++ (subs.map (·.ndocs)).flatten ∧
    (w.mpFinal subs).deleted = [] := by
  have hown : (if w.added then [w.pool.mergeSort Posting.le] else []).flatten.Perm (allPostings w.ndocs) := by
    by_cases ha : w.added = true
    · simp only [ha, if_true, List.flatten_cons, List.flatten_nil, List.append_nil]
      exact (List.mergeSort_perm _ _).trans hwf.pool
    · have ha' : w.added = false := by simpa using ha
      simp [ha', hna ha', allPostings]
  obtain ⟨h1, h2⟩ := mergeSubs_spec w.ndocs (if w.added then [w.pool.mergeSort Posting.le] else []) subs hs
  refine ⟨⟨by simp [Writer.mpFinal], by simp [Writer.mpFinal], ?_, mergeSort_sorted _⟩, h1, rfl⟩
  simp only [Writer.mpFinal, imerge]
  refine (List.mergeSort_perm _ _).trans (h2.trans ?_)
  rw [h1, allPostings_append, Nat.zero_add]
  exact hown.append_right _

/-- the sub-writer that indexed `ds` -/
def subOf (sc : Schema) (ds : List DocRec) : Writer :=
  { schema := sc, segs := [], gen := 0, ndocs := ds, pool := allPostings ds, added := !ds.isEmpty }

theorem flatten_subOf (sc : Schema) (assign : List (List DocRec)) :
    ((assign.map (subOf sc)).map (·.ndocs)).flatten = assign.flatten := by
  simp [List.map_map, Function.comp_def, subOf]

theorem map_restrict_of_fits (sc : Schema) (l : List DocRec) (h : ∀ d ∈ l, d.fits sc = true) :
    l.map (restrict sc) = l := by
  conv => rhs; rw [← List.map_id l]
  apply List.map_congr_left
  intro d hd; exact restrict_of_fits _ _ (h d hd)

theorem contentOf_singleton (sc : Schema) (s : Seg) : contentOf sc [s] = s.liveDocs.map (restrict sc) := by
  simp [contentOf]

/-! ### the two commits for closed-form sub-writers -/

/-- `WM.C18.mp` for the closed forms `subOf` of the sub-writers. -/
theorem mpCommit_closed (w : Writer) (hwf : w.WF) (hfits : ∀ d ∈ w.ndocs, d.fits w.schema = true)
    (hna : w.added = false → w.ndocs = []) (plan : Plan) (hplan : PlanOK plan)
    (assign : List (List DocRec)) (hfit : ∀ ds ∈ assign, ∀ d ∈ ds, d.fits w.schema = true) :
    ∃ t', w.mpCommit (assign.map (subOf w.schema)) plan = .ok t' ∧ t'.WF ∧ t'.schema = w.schema ∧
      t'.content.Perm (contentOf w.schema w.segs ++ w.ndocs ++ assign.flatten) := by
  obtain ⟨w1, h1, wf1⟩ := Writer.addReaders_ok w (plan w.segs).1 hwf
    (fun s hs => hwf.segs s (hplan.sub _ s (Or.inl hs)))
  obtain ⟨b1, b2, b3, b4, b5⟩ := Writer.addReaders_fields w _ w1 h1
  have hna1 : w1.added = false → w1.ndocs = [] := by
    intro h
    rw [b4] at h
    simp only [Bool.or_eq_false_iff, Bool.not_eq_false', List.isEmpty_iff] at h
    rw [b5, hna h.1, h.2]; simp [contentOf]
  have hsub : ∀ s ∈ assign.map (subOf w.schema), s.pool = allPostings s.ndocs := by
    intro s hs
    simp only [List.mem_map] at hs
    obtain ⟨ds, _, rfl⟩ := hs
    rfl
  obtain ⟨fwf, fdocs, fdel⟩ := Writer.mpFinal_spec w1 (assign.map (subOf w.schema)) wf1 hna1 hsub
  refine ⟨_, by unfold Writer.mpCommit; simp only [h1, Except.map]; rfl, ?_, b1, ?_⟩
  · intro s hs
    simp only [List.mem_append, List.mem_singleton] at hs
    rcases hs with hs | rfl
    · exact hwf.segs s (hplan.sub _ s (Or.inr hs))
    · exact fwf
  · simp only [Toc.content, contentOf_append, b1]
    have hfin : contentOf w.schema [w1.mpFinal (assign.map (subOf w.schema))]
        = w.ndocs ++ contentOf w.schema (plan w.segs).1 ++ assign.flatten := by
      rw [contentOf_singleton, Seg.liveDocs_of_no_deletions _ fdel, fdocs, flatten_subOf, b5, List.map_append,
        List.map_append]
      rw [map_restrict_of_fits _ _ hfits, map_restrict_of_fits _ assign.flatten (by
        intro d hd; obtain ⟨ds, hds, hd'⟩ := List.mem_flatten.mp hd; exact hfit ds hds d hd'),
        contentOf_restrict]
    rw [hfin]
    have h2 := contentOf_perm w.schema (hplan w.segs)
    rw [contentOf_append] at h2
    -- u ++ (n ++ m ++ a)  ~  (m ++ u) ++ n ++ a
    refine List.Perm.trans ?_ ((h2.append_right w.ndocs).append_right assign.flatten)
    simp only [List.append_assoc]
    exact (List.Perm.append_left _ (List.perm_append_comm_assoc _ _ _)).trans (List.perm_append_comm_assoc _ _ _)

/-- `WM.C18.mp_multisegment` for the closed forms `subOf` of the sub-writers. -/
theorem mpCommitMulti_closed (w : Writer) (hwf : w.WF) (hfits : ∀ d ∈ w.ndocs, d.fits w.schema = true)
    (hna : w.added = false → w.ndocs = []) (plan : Plan) (hplan : PlanOK plan)
    (assign : List (List DocRec)) (hfit : ∀ ds ∈ assign, ∀ d ∈ ds, d.fits w.schema = true) :
    ∃ t', w.mpCommitMulti (assign.map (subOf w.schema)) plan = .ok t' ∧ t'.WF ∧ t'.schema = w.schema ∧
      t'.content.Perm (contentOf w.schema w.segs ++ w.ndocs ++ assign.flatten) := by
  obtain ⟨w1, h1, wf1⟩ := Writer.addReaders_ok w (plan w.segs).1 hwf
    (fun s hs => hwf.segs s (hplan.sub _ s (Or.inl hs)))
  obtain ⟨b1, b2, b3, b4, b5⟩ := Writer.addReaders_fields w _ w1 h1
  have hsubwf : ∀ ds, (subOf w.schema ds).finalizeSegment.WF := by
    intro ds
    exact Writer.finalizeSegment_wf _ ⟨by intro s hs; simp [subOf] at hs, List.Perm.refl _⟩
  have hsubc : contentOf w.schema ((assign.map (subOf w.schema)).map Writer.finalizeSegment) = assign.flatten := by
    simp only [contentOf, List.map_map, List.flatMap_map]
    induction assign with
    | nil => rfl
    | cons ds r ih =>
      simp only [List.flatMap_cons, List.flatten_cons, Function.comp_def]
      rw [Seg.liveDocs_of_no_deletions _ rfl]
      simp only [Function.comp_def] at ih
      rw [ih (fun x hx => hfit x (by simp [hx]))]
      congr 1
      exact map_restrict_of_fits _ _ (hfit ds (by simp))
  have hown : contentOf w.schema (if w1.added then [w1.finalizeSegment] else [])
      = w.ndocs ++ contentOf w.schema (plan w.segs).1 := by
    by_cases ha : w1.added = true
    · simp only [ha, if_true]
      rw [contentOf_singleton, Seg.liveDocs_of_no_deletions _ rfl]
      simp only [Writer.finalizeSegment, b5, List.map_append]
      rw [map_restrict_of_fits _ _ hfits, contentOf_restrict]
    · have ha' : w1.added = false := by simpa using ha
      have h := ha'
      rw [b4] at h
      simp only [Bool.or_eq_false_iff, Bool.not_eq_false', List.isEmpty_iff] at h
      simp [ha', hna h.1, h.2, contentOf]
  refine ⟨_, by unfold Writer.mpCommitMulti; simp only [h1, Except.map]; rfl, ?_, b1, ?_⟩
  · intro s hs
    simp only [List.mem_append, List.mem_map] at hs
    rcases hs with (hs | ⟨x, hx, rfl⟩) | hs
    · exact hwf.segs s (hplan.sub _ s (Or.inr hs))
    · obtain ⟨ds, _, rfl⟩ := hx
      exact hsubwf ds
    · split at hs
      · simp only [List.mem_singleton] at hs; subst hs; exact Writer.finalizeSegment_wf w1 wf1
      · simp at hs
  · simp only [Toc.content, contentOf_append, b1, hsubc, hown]
    have h2 := contentOf_perm w.schema (hplan w.segs)
    rw [contentOf_append] at h2
    -- u ++ a ++ (n ++ m)  ~  (m ++ u) ++ n ++ a
    refine List.Perm.trans ?_ ((h2.append_right w.ndocs).append_right assign.flatten)
    simp only [List.append_assoc]
    have h3 : (assign.flatten ++ (w.ndocs ++ contentOf w.schema (plan w.segs).1)).Perm
        (contentOf w.schema (plan w.segs).1 ++ (w.ndocs ++ assign.flatten)) := by
      refine List.perm_append_comm.trans ?_
      simp only [List.append_assoc]
      exact List.perm_append_comm_assoc _ _ _
    exact (List.Perm.append_left _ h3).trans (List.perm_append_comm_assoc _ _ _)

/-! ### sub-writers as results of running `subWriter` -/

/-- what the parent reads of a finished sub-writer: `_merge_subsegments` / the multi-segment commit
    use only the per-document data and the posting run of the sub-segment -/
def subView (s : Writer) : List DocRec × List Posting := (s.ndocs, s.pool)

theorem mergeSubs_congr (subs subs' : List Writer) (h : subs.map subView = subs'.map subView)
    (ndocs : List DocRec) (srcs : List (List Posting)) : mergeSubs ndocs srcs subs = mergeSubs ndocs srcs subs' := by
  induction subs generalizing subs' ndocs srcs with
  | nil => cases subs' with
    | nil => rfl
    | cons _ _ => simp at h
  | cons a r ih => cases subs' with
    | nil => simp at h
    | cons b r' =>
      simp only [List.map_cons, List.cons.injEq, subView, Prod.mk.injEq] at h
      simp only [mergeSubs, subRun, h.1.1, h.1.2]
      exact ih r' h.2 _ _

theorem Writer.mpCommit_congr (w : Writer) (subs subs' : List Writer) (h : subs.map subView = subs'.map subView) (plan : Plan) :
    w.mpCommit subs plan = w.mpCommit subs' plan := by
  simp only [Writer.mpCommit, Writer.mpFinal, mergeSubs_congr subs subs' h]

theorem Writer.mpCommitMulti_congr (w : Writer) (subs subs' : List Writer) (h : subs.map subView = subs'.map subView) (plan : Plan) :
    w.mpCommitMulti subs plan = w.mpCommitMulti subs' plan := by
  have : subs.map Writer.finalizeSegment = subs'.map Writer.finalizeSegment := by
    have e : Writer.finalizeSegment = (fun v : List DocRec × List Posting =>
        ({ docs := v.1, posts := v.2.mergeSort Posting.le, deleted := [] } : Seg)) ∘ subView := rfl
    rw [e, ← List.map_map, ← List.map_map, h]
  simp only [Writer.mpCommitMulti, this]

/-- `subs` are the writers the sub-processes produce for the assignment `assign`: the `i`-th ran
    `add_document` on the `i`-th list, none raised -/
inductive SubsOf (sc : Schema) : List (List DocRec) → List Writer → Prop
  | nil : SubsOf sc [] []
  | cons {ds s r rs} : subWriter sc ds = .ok s → SubsOf sc r rs → SubsOf sc (ds :: r) (s :: rs)

/-- the writers the sub-processes really produce are, for the parent, the closed forms `subOf` -/
theorem SubsOf.view (sc : Schema) (assign : List (List DocRec)) (subs : List Writer) (h : SubsOf sc assign subs)
    (hfit : ∀ ds ∈ assign, ∀ d ∈ ds, d.fits sc = true) :
    subs.map subView = (assign.map (subOf sc)).map subView := by
  induction h with
  | nil => rfl
  | @cons ds s r rs hds _ ih =>
    obtain ⟨w, h1, _, h3, h4, _⟩ := subWriter_ok sc ds (hfit ds (by simp))
    rw [hds] at h1
    cases h1
    simp only [List.map_cons, ih (fun x hx => hfit x (by simp [hx]))]
    simp [subView, subOf, h3, h4]

/-- and they exist: no sub-writer rejects a document of the schema -/
theorem SubsOf.exist (sc : Schema) (assign : List (List DocRec)) (hfit : ∀ ds ∈ assign, ∀ d ∈ ds, d.fits sc = true) :
    ∃ subs, SubsOf sc assign subs := by
  induction assign with
  | nil => exact ⟨[], .nil⟩
  | cons ds r ih =>
    obtain ⟨subs, hs⟩ := ih (fun x hx => hfit x (by simp [hx]))
    obtain ⟨w, h1, _⟩ := subWriter_ok sc ds (hfit ds (by simp))
    exact ⟨w :: subs, .cons h1 hs⟩

end WM.Index
