import WM.Lemmas.FaithfulAndMaybe
/-! `WrappingMatcher` (boost), `ConstantScoreWrapperMatcher` and `FilterMatcher` are faithful cursors. -/
namespace WM.Matcher

theorem map_key_eq_nil (g : Nat × Rat → Rat) (L : Den) : (L.map fun p => (p.1, g p)) = [] ↔ L = [] := by
  simp

/-! ### key-preserving score maps (boost, constant score) -/

section ScoreMap
variable {α τ : Type} {A : Ops α} {dA fA : α → Den} {WA : α → Prop}

/-- A wrapper that forwards every cursor operation to its child and only rewrites the score. -/
theorem scoreMap_faithful (FA : Faithful A dA fA WA) (O : Ops τ) (child : τ → α) (set : τ → α → τ)
    (g : τ → Rat → Rat)
    (hchild : ∀ m c, child (set m c) = c) (hg : ∀ m c, g (set m c) = g m)
    (hact : ∀ m, O.isActive m = A.isActive (child m)) (hid : ∀ m, O.id m = A.id (child m))
    (hscore : ∀ m r, A.score (child m) = .ok r → O.score m = .ok (g m r))
    (hnext : ∀ m c, A.next (child m) = .ok c → O.next m = .ok (set m c))
    (hskip : ∀ m t c, A.skipTo (child m) t = .ok c → O.skipTo m t = .ok (set m c))
    (hreset : ∀ m c, A.reset (child m) = .ok c → O.reset m = .ok (set m c))
    (hrem : ∀ m, O.rem m = A.rem (child m)) :
    Faithful O (fun m => (dA (child m)).map fun p => (p.1, g m p.2))
      (fun m => (fA (child m)).map fun p => (p.1, g m p.2)) (fun m => WA (child m)) where
  asc m h := asc_map_key _ (FA.asc _ h)
  active m h := by rw [hact, FA.active _ h]; simp
  id m x r L h hd := by
    rw [hid]
    cases hc : dA (child m) with
    | nil => simp [hc] at hd
    | cons p L' =>
      obtain ⟨x', r'⟩ := p
      simp only [hc, List.map_cons, List.cons.injEq, Prod.mk.injEq] at hd
      obtain ⟨⟨rfl, -⟩, -⟩ := hd
      exact FA.id _ _ _ _ h hc
  score m x r L h hd := by
    cases hc : dA (child m) with
    | nil => simp [hc] at hd
    | cons p L' =>
      obtain ⟨x', r'⟩ := p
      simp only [hc, List.map_cons, List.cons.injEq, Prod.mk.injEq] at hd
      obtain ⟨⟨-, rfl⟩, -⟩ := hd
      exact hscore m r' (FA.score _ _ _ _ h hc)
  next m x r L h hd := by
    cases hc : dA (child m) with
    | nil => simp [hc] at hd
    | cons p L' =>
      obtain ⟨x', r'⟩ := p
      simp only [hc, List.map_cons, List.cons.injEq] at hd
      obtain ⟨-, rfl⟩ := hd
      obtain ⟨c, h1, h2, h3, h4, h5⟩ := FA.next _ _ _ _ h hc
      refine ⟨set m c, hnext m c h1, by rw [hchild]; exact h2, ?_, ?_, ?_⟩
      · simp only [hchild, hg, h3]
      · rw [hrem, hrem, hchild]; exact h4
      · simp only [hchild, hg, h5]
  skipTo m t h hne := by
    have hne' : dA (child m) ≠ [] := by intro h0; apply hne; simp [h0]
    obtain ⟨c, h1, h2, h3, h4, h5, h6⟩ := FA.skipTo (child m) t h hne'
    refine ⟨set m c, hskip m t c h1, by rw [hchild]; exact h2, ?_, ?_, ?_, ?_⟩
    · simp only [hchild, hg, h3]
      exact (dropBelow_map_key (fun p => g m p.2) t _).symm
    · rw [hrem, hrem, hchild]; exact h4
    · intro hne2
      rw [hrem, hrem, hchild]
      apply h5
      intro he; apply hne2
      simp only [hchild, hg, he]
    · simp only [hchild, hg, h6]
  reset m h := by
    obtain ⟨c, h1, h2, h3, h4⟩ := FA.reset _ h
    refine ⟨set m c, hreset m c h1, by rw [hchild]; exact h2, ?_, ?_⟩
    · simp only [hchild, hg, h3]
    · simp only [hchild, hg, h4]

end ScoreMap

/-- `WrappingMatcher(child, boost)` -/
theorem Boost.faithful {α : Type} {A : Ops α} {dA fA : α → Den} {WA : α → Prop} (FA : Faithful A dA fA WA) :
    Faithful (Boost.ops A) (fun m => scale m.boost (dA m.child)) (fun m => scale m.boost (fA m.child))
      (fun m => WA m.child) :=
  scoreMap_faithful FA (Boost.ops A) (·.child) (fun m c => { m with child := c }) (fun m r => r * m.boost)
    (fun _ _ => rfl) (fun _ _ => rfl) (fun _ => rfl) (fun _ => rfl)
    (fun m r h => by show (do let s ← A.score m.child; pure (s * m.boost)) = _; rw [h]; rfl)
    (fun m c h => by show (do let c ← A.next m.child; pure { m with child := c }) = _; rw [h]; rfl)
    (fun m t c h => by show (do let c ← A.skipTo m.child t; pure { m with child := c }) = _; rw [h]; rfl)
    (fun m c h => by show (do let c ← A.reset m.child; pure { m with child := c }) = _; rw [h]; rfl)
    (fun _ => rfl)

/-- `ConstantScoreWrapperMatcher(child, score)` -/
theorem Const.faithful {α : Type} {A : Ops α} {dA fA : α → Den} {WA : α → Prop} (FA : Faithful A dA fA WA) :
    Faithful (Const.ops A) (fun m => constScore m.score (dA m.child)) (fun m => constScore m.score (fA m.child))
      (fun m => WA m.child) :=
  scoreMap_faithful FA (Const.ops A) (·.child) (fun m c => { m with child := c }) (fun m _ => m.score)
    (fun _ _ => rfl) (fun _ _ => rfl) (fun _ => rfl) (fun _ => rfl)
    (fun _ _ _ => rfl)
    (fun m c h => by show (do let c ← A.next m.child; pure { m with child := c }) = _; rw [h]; rfl)
    (fun m t c h => by show (do let c ← A.skipTo m.child t; pure { m with child := c }) = _; rw [h]; rfl)
    (fun m c h => by show (do let c ← A.reset m.child; pure { m with child := c }) = _; rw [h]; rfl)
    (fun _ => rfl)

/-! ### FilterMatcher -/

theorem keepIds_cons (S : List Nat) (excl : Bool) (x : Nat) (r : Rat) (L : Den) :
    keepIds S excl ((x, r) :: L) =
      if Filter.rejects S excl x then keepIds S excl L else (x, r) :: keepIds S excl L := by
  simp only [keepIds, List.filter_cons, Filter.rejects]
  by_cases h1 : (S.contains x != excl) = true
  · have h2 : (S.contains x == excl) = false := by
      cases hc : S.contains x <;> cases excl <;> simp_all
    simp [h1, h2]
  · have h2 : (S.contains x == excl) = true := by
      cases hc : S.contains x <;> cases excl <;> simp_all
    simp [h1, h2]

theorem dropBelow_keepIds (S : List Nat) (excl : Bool) (t : Nat) {L : Den} (hL : Asc L) :
    keepIds S excl (dropBelow t L) = dropBelow t (keepIds S excl L) := by
  apply den_ext (asc_keepIds _ _ (asc_dropBelow t hL)) (asc_dropBelow t (asc_keepIds _ _ hL))
  intro d
  rw [lookup_keepIds _ _ (asc_dropBelow t hL), lookup_dropBelow hL, lookup_dropBelow (asc_keepIds _ _ hL),
    lookup_keepIds _ _ hL]
  by_cases h : d < t <;> simp [h]

namespace Filter
variable {α : Type} {A : Ops α} {dA fA : α → Den} {WA : α → Prop}

/-- the child, when active, sits on an id that passes the filter -/
def Passes (dA : α → Den) (ids : List Nat) (excl : Bool) (c : α) : Prop :=
  ∀ x r L, dA c = (x, r) :: L → rejects ids excl x = false

theorem findLoop_spec (FA : Faithful A dA fA WA) (ids : List Nat) (excl : Bool) :
    ∀ (fuel : Nat) (c : α), WA c → A.rem c < fuel →
      ∃ c', findLoop A ids excl fuel c = .ok c' ∧ WA c' ∧ Passes dA ids excl c' ∧
        keepIds ids excl (dA c') = keepIds ids excl (dA c) ∧ A.rem c' ≤ A.rem c ∧
        (A.rem c' = A.rem c → dA c' = dA c) ∧ fA c' = fA c := by
  intro fuel
  induction fuel with
  | zero => intro c _ h; omega
  | succ n ih =>
    intro c wc hfuel
    unfold findLoop
    by_cases h0 : dA c = []
    · have := (FA.inactive wc).2 h0
      refine ⟨c, by simp [this]; rfl, wc, ?_, rfl, Nat.le_refl _, fun _ => rfl, rfl⟩
      intro x r L h; rw [h0] at h; cases h
    · obtain ⟨x, r, L, hc⟩ := exists_cons_of_ne_nil h0
      have hact : A.isActive c = true := (FA.active _ wc).2 h0
      simp only [hact, ↓reduceIte, FA.id _ _ _ _ wc hc, bind, Except.bind]
      cases hrej : rejects ids excl x with
      | false =>
        refine ⟨c, by simp; rfl, wc, ?_, rfl, Nat.le_refl _, fun _ => rfl, rfl⟩
        intro x' r' L' h; rw [hc] at h; cases h; exact hrej
      | true =>
        obtain ⟨c1, h1, h2, h3, h4, h5⟩ := FA.next _ _ _ _ wc hc
        obtain ⟨c', g1, g2, g3, g4, g5, g6, g7⟩ := ih c1 h2 (by omega)
        refine ⟨c', by simp [h1, g1], g2, g3, ?_, by omega, fun he => by omega, by rw [g7, h5]⟩
        rw [g4, h3, hc, keepIds_cons, hrej]; rfl

theorem findNext_spec (FA : Faithful A dA fA WA) (m : Filter α) (wc : WA m.child) :
    ∃ m', findNext A m = .ok m' ∧ m'.ids = m.ids ∧ m'.exclude = m.exclude ∧ m'.boost = m.boost ∧
      WA m'.child ∧ Passes dA m.ids m.exclude m'.child ∧
      keepIds m.ids m.exclude (dA m'.child) = keepIds m.ids m.exclude (dA m.child) ∧
      A.rem m'.child ≤ A.rem m.child ∧ (A.rem m'.child = A.rem m.child → dA m'.child = dA m.child) ∧
      fA m'.child = fA m.child := by
  obtain ⟨c', g1, g2, g3, g4, g5, g6, g7⟩ := findLoop_spec FA m.ids m.exclude (A.rem m.child + 1) m.child wc
    (by omega)
  exact ⟨{ m with child := c' }, by simp [findNext, g1, bind, Except.bind]; rfl, rfl, rfl, rfl, g2, g3, g4, g5, g6, g7⟩

theorem den_cons (FA : Faithful A dA fA WA) (m : Filter α) (hp : Passes dA m.ids m.exclude m.child)
    {x : Nat} {r : Rat} {L : Den} (hc : dA m.child = (x, r) :: L) :
    scale m.boost (keepIds m.ids m.exclude (dA m.child)) =
      (x, r * m.boost) :: scale m.boost (keepIds m.ids m.exclude L) := by
  rw [hc, keepIds_cons, hp x r L hc]; rfl

theorem faithful (FA : Faithful A dA fA WA) :
    Faithful (Filter.ops A) (fun m => scale m.boost (keepIds m.ids m.exclude (dA m.child)))
      (fun m => scale m.boost (keepIds m.ids m.exclude (fA m.child)))
      (fun m => WA m.child ∧ Passes dA m.ids m.exclude m.child) where
  asc m h := asc_scale _ (asc_keepIds _ _ (FA.asc _ h.1))
  active m h := by
    show A.isActive m.child = true ↔ _
    rw [FA.active _ h.1]
    constructor
    · intro hne
      obtain ⟨x, r, L, hc⟩ := exists_cons_of_ne_nil hne
      rw [den_cons FA m h.2 hc]; simp
    · intro hne h0; apply hne; simp [h0, keepIds, scale]
  id m x r L h hd := by
    show A.id m.child = _
    have hne : dA m.child ≠ [] := by intro h0; simp [h0, keepIds, scale] at hd
    obtain ⟨x', r', L', hc⟩ := exists_cons_of_ne_nil hne
    rw [den_cons FA m h.2 hc] at hd
    obtain ⟨h4, -⟩ := List.cons.inj hd; cases h4
    exact FA.id _ _ _ _ h.1 hc
  score m x r L h hd := by
    show (do let s ← A.score m.child; pure (s * m.boost)) = _
    have hne : dA m.child ≠ [] := by intro h0; simp [h0, keepIds, scale] at hd
    obtain ⟨x', r', L', hc⟩ := exists_cons_of_ne_nil hne
    rw [den_cons FA m h.2 hc] at hd
    obtain ⟨h4, -⟩ := List.cons.inj hd; cases h4
    rw [FA.score _ _ _ _ h.1 hc]; rfl
  next m x r L h hd := by
    show ∃ s' : Filter α, (do let c ← A.next m.child; findNext A { m with child := c }) = _ ∧ _ ∧ _ ∧
      A.rem s'.child < A.rem m.child ∧ _
    have hne : dA m.child ≠ [] := by intro h0; simp [h0, keepIds, scale] at hd
    obtain ⟨x', r', L', hc⟩ := exists_cons_of_ne_nil hne
    rw [den_cons FA m h.2 hc] at hd
    obtain ⟨-, hL⟩ := List.cons.inj hd; subst hL
    obtain ⟨c1, h1, h2, h3, h4, h5⟩ := FA.next _ _ _ _ h.1 hc
    obtain ⟨m', g1, e1, e2, e3, g2, g3, g4, g5, g6, g7⟩ := findNext_spec FA { m with child := c1 } h2
    simp only at e1 e2 e3 g3 g4 g5 g6 g7
    refine ⟨m', by rw [h1]; exact g1, ⟨g2, by rw [e1, e2]; exact g3⟩, ?_, by omega, ?_⟩
    · simp only [e1, e2, e3, g4, h3]
    · simp only [e1, e2, e3, g7, h5]
  skipTo m t h hne := by
    show ∃ s' : Filter α, (do let c ← A.skipTo m.child t; findNext A { m with child := c }) = _ ∧ _ ∧ _ ∧
      A.rem s'.child ≤ A.rem m.child ∧ (_ → A.rem s'.child < A.rem m.child) ∧ _
    have hne' : dA m.child ≠ [] := by intro h0; apply hne; simp [h0, keepIds, scale]
    obtain ⟨c1, h1, h2, h3, h4, h5, h6⟩ := FA.skipTo m.child t h.1 hne'
    obtain ⟨m', g1, e1, e2, e3, g2, g3, g4, g5, g6, g7⟩ := findNext_spec FA { m with child := c1 } h2
    simp only at e1 e2 e3 g3 g4 g5 g6 g7
    refine ⟨m', by rw [h1]; exact g1, ⟨g2, by rw [e1, e2]; exact g3⟩, ?_, by omega, ?_, ?_⟩
    · simp only [e1, e2, e3, g4, h3]
      rw [dropBelow_keepIds _ _ _ (FA.asc _ h.1)]
      exact (dropBelow_map_key (fun p => p.2 * m.boost) t _).symm
    · intro hne2
      by_cases e : A.rem m'.child < A.rem m.child
      · exact e
      · exfalso
        have d1 : dA c1 = dA m.child := Classical.byContradiction fun hh => by have := h5 hh; omega
        apply hne2
        simp only [e1, e2, e3, g6 (by omega), d1]
    · simp only [e1, e2, e3, g7, h6]
  reset m h := by
    show ∃ s' : Filter α, (do let c ← A.reset m.child; findNext A { m with child := c }) = _ ∧ _
    obtain ⟨c1, h1, h2, h3, h4⟩ := FA.reset _ h.1
    obtain ⟨m', g1, e1, e2, e3, g2, g3, g4, g5, g6, g7⟩ := findNext_spec FA { m with child := c1 } h2
    simp only at e1 e2 e3 g3 g4 g5 g6 g7
    refine ⟨m', by rw [h1]; exact g1, ⟨g2, by rw [e1, e2]; exact g3⟩, ?_, ?_⟩
    · simp only [e1, e2, e3, g4, h3]
    · simp only [e1, e2, e3, g7, h4]

/-- the constructor establishes the invariant -/
theorem init_spec (FA : Faithful A dA fA WA) (c : α) (ids : List Nat) (excl : Bool) (boost : Rat) (wc : WA c) :
    ∃ m', Filter.init A c ids excl boost = .ok m' ∧ (WA m'.child ∧ Passes dA m'.ids m'.exclude m'.child) ∧
      scale m'.boost (keepIds m'.ids m'.exclude (dA m'.child)) = scale boost (keepIds ids excl (dA c)) ∧
      scale m'.boost (keepIds m'.ids m'.exclude (fA m'.child)) = scale boost (keepIds ids excl (fA c)) := by
  obtain ⟨m', g1, e1, e2, e3, g2, g3, g4, g5, g6, g7⟩ := findNext_spec FA ⟨c, ids, excl, boost⟩ wc
  simp only at e1 e2 e3 g3 g4 g5 g6 g7
  exact ⟨m', g1, ⟨g2, by rw [e1, e2]; exact g3⟩, by simp only [e1, e2, e3, g4], by simp only [e1, e2, e3, g7]⟩

end Filter
end WM.Matcher
