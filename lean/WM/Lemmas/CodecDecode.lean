import WM.Lemmas.CodecWriter
/-! Reading a written block yields the chunk it was written from. -/
namespace WM.Codec

variable {ι μ : Type}

theorem all_beq_replicate (ws : List Rat) (w : Rat) (h : ws.all (· == w) = true) :
    List.replicate ws.length w = ws := by
  induction ws with
  | nil => rfl
  | cons a ws ih =>
    simp only [List.all_cons, Bool.and_eq_true, beq_iff_eq] at h
    simp only [List.length_cons, List.replicate_succ, h.1]
    rw [ih h.2]

/-- `_read_weights` undoes `_mini_weights`. -/
theorem readWeights_mini (b : DiskBlock ι μ) (ws : List Rat) (hmw : b.mw = miniWeights ws)
    (hc : b.info.count = ws.length) : readWeights b = ws := by
  unfold readWeights
  rw [hmw, hc]
  unfold miniWeights
  by_cases h1 : ws.all (· == 1) = true
  · simp only [h1, if_true]; exact all_beq_replicate ws 1 h1
  · simp only [h1]
    cases ws with
    | nil => simp at h1
    | cons w ws =>
      simp only
      by_cases h2 : (w :: ws).all (· == w) = true
      · simp only [h2, if_true]; exact all_beq_replicate (w :: ws) w h2
      · simp [h2]

theorem storedValues_eq (ch : List (Posting ι)) (h : ∀ p ∈ ch, p.value ≠ []) :
    storedValues ch = ch.map (·.value) := by
  unfold storedValues
  apply List.filter_eq_self.mpr
  intro v hv
  simp only [List.mem_map] at hv
  obtain ⟨p, hp, rfl⟩ := hv
  have := h p hp
  cases hpv : p.value with
  | nil => exact absurd hpv this
  | cons a l => rfl

theorem zip3_map (ch : List (Posting ι)) (f : Posting ι → Rat) (g : Posting ι → Option Bytes) :
    zip3 (ch.map (·.id)) (ch.map f) (ch.map g) = ch.map (fun p => ⟨p.id, f p, g p⟩) := by
  induction ch with
  | nil => rfl
  | cons p ch ih => simp [zip3, ih]

/-- `_read_values` undoes `_mini_values` on admissible values. -/
theorem readValues_encode (c : Cfg ι μ) (last : Bool) (ch : List (Posting ι)) (lid : ι)
    (hv : ValuesOk c.fixedsize ch) :
    readValues c.fixedsize (encodeBlock c last ch lid)
      = .ok (ch.map fun p => (expected c p).value) := by
  unfold readValues encodeBlock miniValues expected
  cases hfs : c.fixedsize with
  | none =>
    rw [hfs] at hv
    simp only [ValuesOk] at hv
    simp [storedValues_eq ch hv]
  | some k =>
    cases k with
    | zero =>
      simp only [List.map_const']
    | succ k =>
      rw [hfs] at hv
      simp only [ValuesOk] at hv
      have hne : ∀ p ∈ ch, p.value ≠ [] := by
        intro p hp e; have := hv p hp; rw [e] at this; simp at this
      simp only [storedValues_eq ch hne]
      rw [chunks_flatten (k + 1) _ (by omega)]
      · simp
      · intro v hv'
        simp only [List.mem_map] at hv'
        obtain ⟨p, hp, rfl⟩ := hv'
        exact hv p hp

theorem blockEntries_encode (c : Cfg ι μ) (hk : c.ids.Lawful) (last : Bool) (ch : List (Posting ι))
    (lid : ι) (hv : ValuesOk c.fixedsize ch) :
    blockEntries c.ids c.fixedsize (encodeBlock c last ch lid) = .ok (ch.map (expected c)) := by
  unfold blockEntries
  rw [readValues_encode c last ch lid hv]
  simp only
  have hids : readIds c.ids (encodeBlock c last ch lid) = ch.map (·.id) := by
    simp [readIds, encodeBlock, hk _]
  have hws : readWeights (encodeBlock c last ch lid) = ch.map (fun p => c.f32 p.weight) :=
    readWeights_mini _ _ rfl (by simp [encodeBlock])
  rw [hids, hws, zip3_map]
  congr 1

theorem ValuesOk.sub {fs : Option Nat} {ps ch : List (Posting ι)} (h : ValuesOk fs ps)
    (hsub : ∀ p ∈ ch, p ∈ ps) : ValuesOk fs ch := by
  unfold ValuesOk at *
  cases fs with
  | none => exact fun p hp => h p (hsub p hp)
  | some k => cases k with
    | zero => trivial
    | succ k => exact fun p hp => h p (hsub p hp)

theorem decodeBlocks_append (k : IdKind ι μ) (fs : Option Nat) (bs cs : List (DiskBlock ι μ))
    (es fs' : List (Entry ι)) (h1 : decodeBlocks k fs bs = .ok es) (h2 : decodeBlocks k fs cs = .ok fs') :
    decodeBlocks k fs (bs ++ cs) = .ok (es ++ fs') := by
  induction bs generalizing es with
  | nil => simp only [decodeBlocks] at h1; cases h1; simpa using h2
  | cons b bs ih =>
    simp only [decodeBlocks, List.cons_append] at h1 ⊢
    cases hb : blockEntries k fs b with
    | error e => rw [hb] at h1; simp at h1
    | ok eb =>
      cases hr : decodeBlocks k fs bs with
      | error e => rw [hb, hr] at h1; simp at h1
      | ok er =>
        rw [hb, hr] at h1
        simp only [Except.ok.injEq] at h1
        rw [ih er hr]
        simp [← h1]

theorem decodeBlocks_of (c : Cfg ι μ) (hk : c.ids.Lawful) (chs : List (List (Posting ι)))
    (bs : List (DiskBlock ι μ)) (h : BlocksOf c chs bs)
    (hv : ∀ ch ∈ chs, ValuesOk c.fixedsize ch) :
    decodeBlocks c.ids c.fixedsize bs = .ok (chs.flatten.map (expected c)) := by
  induction h with
  | nil => rfl
  | cons hb _ ih =>
    obtain ⟨lp, _, rfl⟩ := hb
    simp only [decodeBlocks]
    rw [blockEntries_encode c hk _ _ _ (hv _ (by simp)), ih (fun ch hch => hv ch (by simp [hch]))]
    simp
