/-
Line protocol helpers shared by every driver module.

One request per line, one reply per line.  A line is a whitespace separated token list; nested
data is written as S-expressions whose parentheses are tokens of their own.  Nothing in this file
is part of any theorem: it is plumbing between the Python harness and the executable models.
-/
namespace WM.Proto

inductive SExp where
  | atom (s : String)
  | list (xs : List SExp)
  deriving Repr, Inhabited

/-- Split on blanks; `(` and `)` are always tokens of their own. -/
def tokenize (s : String) : List String :=
  let step (acc : List String × String) (c : Char) : List String × String :=
    let (toks, cur) := acc
    let flush := if cur.isEmpty then toks else cur :: toks
    if c == ' ' || c == '\t' || c == '\n' || c == '\r' then (flush, "")
    else if c == '(' || c == ')' then (String.singleton c :: flush, "")
    else (toks, cur.push c)
  let (toks, cur) := s.foldl step ([], "")
  (if cur.isEmpty then toks else cur :: toks).reverse

mutual
  partial def parseOne : List String → Option (SExp × List String)
    | [] => none
    | "(" :: rest => parseMany rest []
    | ")" :: _ => none
    | t :: rest => some (.atom t, rest)
  partial def parseMany : List String → List SExp → Option (SExp × List String)
    | [], _ => none
    | ")" :: rest, acc => some (.list acc.reverse, rest)
    | toks, acc =>
      match parseOne toks with
      | some (e, rest) => parseMany rest (e :: acc)
      | none => none
end

/-- Parse a whole token list as a sequence of S-expressions. -/
partial def parseAll (toks : List String) : Option (List SExp) :=
  let rec go (toks : List String) (acc : List SExp) : Option (List SExp) :=
    match toks with
    | [] => some acc.reverse
    | _ => match parseOne toks with
      | some (e, rest) => go rest (e :: acc)
      | none => none
  go toks []

def parseLine (s : String) : Option (List SExp) := parseAll (tokenize s)

namespace SExp

def atom? : SExp → Option String
  | .atom s => some s
  | _ => none

def list? : SExp → Option (List SExp)
  | .list xs => some xs
  | _ => none

def nat? (e : SExp) : Option Nat := e.atom? >>= String.toNat?

def int? (e : SExp) : Option Int := e.atom? >>= String.toInt?

def bool? (e : SExp) : Option Bool :=
  match e with
  | .atom "1" | .atom "true" | .atom "T" => some true
  | .atom "0" | .atom "false" | .atom "F" => some false
  | _ => none

def listOf? {α} (f : SExp → Option α) (e : SExp) : Option (List α) :=
  e.list? >>= fun xs => xs.mapM f

def natList? (e : SExp) : Option (List Nat) := listOf? nat? e
def intList? (e : SExp) : Option (List Int) := listOf? int? e

/-- `none`/`-` is the absent value, anything else goes through `f`. -/
def opt? {α} (f : SExp → Option α) (e : SExp) : Option (Option α) :=
  match e with
  | .atom "none" | .atom "-" => some none
  | _ => (f e).map some

/-- Rationals travel as `num/den` (or a plain integer). -/
def rat? (e : SExp) : Option Rat := do
  let s ← e.atom?
  match s.splitOn "/" with
  | [n] => (fun (i : Int) => (i : Rat)) <$> n.toInt?
  | [n, d] =>
    let ni ← n.toInt?
    let di ← d.toNat?
    if di == 0 then none else some ((ni : Rat) / (di : Rat))
  | _ => none

partial def toStr : SExp → String
  | .atom s => s
  | .list xs => "(" ++ " ".intercalate (xs.map toStr) ++ ")"

end SExp

/-! Printing helpers -/

def showNatList (xs : List Nat) : String := "(" ++ " ".intercalate (xs.map toString) ++ ")"
def showIntList (xs : List Int) : String := "(" ++ " ".intercalate (xs.map toString) ++ ")"
def showBool (b : Bool) : String := if b then "1" else "0"
def showOpt {α} (f : α → String) : Option α → String
  | none => "none"
  | some a => f a
def showRat (r : Rat) : String := if r.den == 1 then toString r.num else s!"{r.num}/{r.den}"
def showList {α} (f : α → String) (xs : List α) : String := "(" ++ " ".intercalate (xs.map f) ++ ")"

/-- Hex string (two digits per byte) → bytes. -/
def hexVal (c : Char) : Option Nat :=
  if '0' ≤ c ∧ c ≤ '9' then some (c.toNat - '0'.toNat)
  else if 'a' ≤ c ∧ c ≤ 'f' then some (c.toNat - 'a'.toNat + 10)
  else if 'A' ≤ c ∧ c ≤ 'F' then some (c.toNat - 'A'.toNat + 10)
  else none

def hexBytes? (s : String) : Option (List Nat) :=
  if s == "-" then some [] else
  let rec go : List Char → List Nat → Option (List Nat)
    | [], acc => some acc.reverse
    | [_], _ => none
    | a :: b :: rest, acc => do
      let x ← hexVal a
      let y ← hexVal b
      go rest ((x * 16 + y) :: acc)
  go s.toList []

def hexDigit (n : Nat) : Char :=
  if n < 10 then Char.ofNat ('0'.toNat + n) else Char.ofNat ('a'.toNat + n - 10)

/-- bytes → hex, the empty string is written `-` so that it stays a token. -/
def showHex (bs : List Nat) : String :=
  if bs.isEmpty then "-" else
  String.ofList (bs.flatMap fun b => [hexDigit (b / 16 % 16), hexDigit (b % 16)])

end WM.Proto
